"""C01 - exchange map reproduces the aligned target (anchor-and-scale law)."""
import numpy as np

import em_common as E

RULE = ("references of 3-40 atoms (random trees, cyclic graphs, chains, stars, random labels), targets of 1-60 atoms near "
        "the reference, s in (0,2] with 1 and 0.5 over-represented; geometry streams: generic (molecule-like walk), "
        "partial (one anchor exactly collinear with its frame neighbours), near (near-collinear, margin 1e-9..1e-3), "
        "collinear_decimal; dyadic stream (exact binary64 distances): grid (equidistant anchors -> tie rule), collinear "
        "along an axis / a diagonal / an integer direction.  The map is applied to the construction-time reference. "
        "A case is non-trivial when distinct (every case has >= 1 anchor and >= 1 target atom).")


def law_failures(spec, res):
    """the property text on one observed result; [] = holds"""
    n = spec["n_ref"]
    ref, tgt, s = np.array(spec["ref"], dtype=float), np.array(spec["tgt"], dtype=float), float(spec["s"])
    anchors = E.anchors_of(n, [tuple(b) for b in spec["bonds"]])
    if n < 3 or not anchors or E.min_separation(ref) == 0.0 or not (0 < s <= 2):
        return []          # outside the property's domain
    if "err" in res:
        return ["construction raised %s" % res["err"]]
    out = res["out"]
    if out.shape != tgt.shape:
        return ["result has %s atoms, target has %s" % (out.shape, tgt.shape)]
    if not np.isfinite(out).all():
        return ["non-finite result"]
    tol = 1e-9 * max(1.0, s)
    per = E.per_target_anchor(res["eq"], len(tgt), -1)
    bad = []
    for k, p in enumerate(tgt):
        d = np.array([np.sqrt(((p - ref[a]) ** 2).sum()) for a in anchors])
        cands = [a for a, x in zip(anchors, d) if x <= d.min() * (1 + 1e-12)]
        errs = [np.abs(out[k] - (ref[a] + s * (p - ref[a]))).max() for a in cands]
        if min(errs) > tol:
            bad.append("target atom %d at %s: result %s, expected a+s(p-a) = %s (closest anchor %d), off by %.3g" % (
                k, p.tolist(), out[k].tolist(), (ref[cands[0]] + s * (p - ref[cands[0]])).tolist(), cands[0], min(errs)))
        if per[k] not in cands:
            bad.append("equivalences assign target atom %d to %s, closest anchors are %s" % (k, per[k], cands))
        if len(bad) > 3:
            break
    return bad


def oracle_spec(spec):
    return law_failures(spec, E.run_impl(spec, spec["ref"]))


def _chain3(points, tgt, s, geom):
    return {"n_ref": 3, "graph": "chain", "geom": geom, "bonds": [[0, 1], [1, 2]], "ref": [list(map(float, p)) for p in points],
            "tgt": tgt, "s": s}


_TG = [[0.1, 0.2, 0.3], [0.0, 0.5, 1.7], [1.0, 1.0, 1.0], [-0.3, 0.1, 0.9], [2.5, 0.2, 3.9]]
CORPUS = [
    # D1 (calcule_base on collinear triples) as references: NaN / non-unit / non-orthogonal frames before the repair
    _chain3([(0, 0, 0), (0, 0, 1), (0, 0, 2)], _TG, 1.0, "collinear_axis"),
    _chain3([(0, 0, 0), (0, 0, 1), (0, 0, 2)], _TG, 0.5, "collinear_axis"),
    _chain3([(0, 0, 0), (1, 1, 1), (2, 2, 2)], _TG, 1.0, "collinear_diag"),
    _chain3([(0, 0, 0), (3, 0, 4), (6, 0, 8)], _TG, 1.0, "collinear_int"),
    _chain3([(0, 0, 0), (3, 0, 4), (6, 0, 8)], _TG, 1.7, "collinear_int"),
    _chain3([(0.1, 0.2, 0.3), (0.4, 0.8, 1.2), (0.7, 1.4, 2.1)], _TG, 1.0, "collinear_decimal"),
    # anchor in the middle of a bent chain parallel to the axes
    _chain3([(1, 0, 0), (0, 0, 0), (0, 1, 0)], _TG, 1.0, "grid"),
    # four atoms, two collinear anchors, targets equidistant from both
    {"n_ref": 4, "graph": "chain", "geom": "collinear_axis", "bonds": [[0, 1], [1, 2], [2, 3]],
     "ref": [[0, 0, 0], [1, 0, 0], [2, 0, 0], [3, 0, 0]], "tgt": [[1.5, 0.5, 0], [1.5, 0, 0.25], [0, 0, 0]], "s": 1.0},
]


def corpus(ctx):
    S = ctx.cov["S"]
    S["corpus"] = 0
    for spec in CORPUS + E.shipped_specs(ctx.n(40, 10 ** 6)):
        bad = oracle_spec(spec)
        S["corpus"] += 1
        if bad:
            ctx.violation("anchor-and-scale law: " + "; ".join(bad), {"kind": "c01", "spec": spec}, key="law")


def correspondence(ctx):
    rs = ctx.np_rng("K")
    items = [(spec, spec["ref"], {"kind": "c01", "stream": "corpus"})
             for spec in CORPUS + [sp for sp in E.shipped_specs(ctx.n(40, 10 ** 6)) if sp["n_ref"] >= 3]]
    for i in range(ctx.n(330, 5000)):
        spec = E.gen_spec(rs, E.GEOMS_GENERIC[i % len(E.GEOMS_GENERIC)])
        items.append((spec, spec["ref"], {"kind": "c01", "stream": "generic"}))
    for i in range(ctx.n(220, 3500)):
        spec = E.gen_spec(rs, E.GEOMS_DYADIC[i % len(E.GEOMS_DYADIC)])
        items.append((spec, spec["ref"], {"kind": "c01", "stream": "dyadic"}))
    # error branch: >= 3 atoms, nobody with two bonds (outside the property's domain; IndexError <-> Err EIndex)
    for _ in range(3):
        spec = E.gen_spec(rs, "generic", n=4)
        spec["bonds"] = [[0, 1], [2, 3]]
        spec["graph"] = "no_anchor"
        items.append((spec, spec["ref"], {"kind": "c01", "stream": "no_anchor"}))
    return E.run_K(ctx, items, lambda d: oracle_spec(d["spec"]))


def oracle(ctx, scale):
    rs = ctx.np_rng("S%d" % scale)
    S = ctx.cov["S"]
    n = ctx.n(500, 8000) * scale
    geoms = ["generic", "generic", "partial", "collinear_decimal"] + E.GEOMS_DYADIC
    fails = 0
    hist = {}
    for i in range(n):
        spec = E.gen_spec(rs, geoms[i % len(geoms)])
        if i % 7 == 0:
            spec["s"] = 1.0
        bad = oracle_spec(spec)
        hist[spec["geom"]] = hist.get(spec["geom"], 0) + 1
        ctx.count(("S", spec["bonds"], spec["ref"], spec["tgt"], spec["s"]))
        if bad:
            fails += 1
            ctx.violation("anchor-and-scale law: " + "; ".join(bad), {"kind": "c01", "spec": spec}, key="law")
    S["law_cases_x%d" % scale] = n
    S["input_distribution"] = hist
    S["failures"] = S.get("failures", 0) + fails


def replay(ctx, obj):
    r = obj["replay"]
    if "spec" not in r:
        print("replay names a proof/correspondence, not an input:", r)
        return False
    bad = oracle_spec(r["spec"])
    print(bad)
    return not bad


def finish(ctx):
    ctx.assumptions = [
        "theorems are exact statements over the real numbers; IEEE rounding is modelled, not verified: the 1e-9 nm tolerance "
        "of the property is checked on the implementation by the S oracle (testing)",
        "the argument of the call has the bond graph of the construction-time reference (same species; C04 owns the species test)",
        "bond graph well formed: one neighbour collection per atom, indices in range, no self bond, no duplicate",
        "references of >= 3 atoms without any atom with two bonds raise IndexError (model: Err EIndex): outside the property's domain",
        "nearest-anchor and collinearity decisions are compared between model and implementation only when their margin is "
        ">= 2^-30 (generic stream); exact ties are compared on the dyadic stream where binary64 distances are exact",
    ]
    return ctx.finish(level="proof", rule=RULE,
                      trusted=["numpy/scipy evaluation order (np.dot, np.cross, np.linalg.norm, scipy euclidean) written out by "
                               "hand in coq/Model/ExchangeMap.v and coq/Model/Aux.v",
                               "Python dict insertion order, tuple comparison and sorted() as modelled in Model/ExchangeMap.v"])
