"""C01 - exchange map reproduces the aligned target (anchor-and-scale law)."""
import numpy as np

import em_common as E

RULE = ("references of 3-40 atoms (random trees, cyclic graphs, chains, stars, random labels), targets of 1-60 atoms near "
        "the reference, s in (0,2] with 1 and 0.5 over-represented plus one in eight a boundary value (0 as int and float, tiny, "
        "negative, 2: K cases; S demands the law for s in (0,2]); one pair in three multi-residue (2-4 residues, same numbers in "
        "reference and target, s != 1); geometry streams: generic (molecule-like walk), "
        "partial (one anchor exactly collinear with its frame neighbours), near (near-collinear, margin 1e-9..1e-3), "
        "nearlinear (anchor bent off the line by sin phi in [2e-5,1e-2]), neartie (target atoms 5e-7..2.5e-4 nm off the "
        "bisector plane of two anchors, s in {0.25,0.5,0.9,2}), elastic (20-40 atoms, elastic-network bond lists with "
        "index gaps 2,3,8,16,32: anchors with 5-8 neighbours), collinear_decimal; dyadic stream (exact binary64 distances): grid (equidistant anchors -> tie rule), collinear "
        "along an axis / a diagonal / an integer direction.  Each case is a call SEQUENCE on one map object: the construction "
        "Molecule object itself, fresh copies / deep copies (own topology) / separately loaded equal molecules at the "
        "construction-time positions, moved copies in between, in-place "
        "excursions of the construction object and back; the law is checked on every call made in the reference "
        "configuration and every call is a correspondence case. "
        "A case is non-trivial when distinct (every case has >= 1 anchor and >= 1 target atom).")


def law_failures(spec, res):
    """the property text on one observed result; [] = holds"""
    n = spec["n_ref"]
    ref, tgt, s = np.array(spec["ref"], dtype=float), np.array(spec["tgt"], dtype=float), float(spec["s"])
    anchors = E.anchors_of(n, [tuple(b) for b in spec["bonds"]])
    if n < 3 or not anchors or E.min_separation(ref) == 0.0 or not (0 < s <= 2):
        return []          # outside the property's domain
    if "err" in res:
        return ["construction raised %s" % res["err"]]
    out = res["out"]
    if out.shape != tgt.shape:
        return ["result has %s atoms, target has %s" % (out.shape, tgt.shape)]
    if not np.isfinite(out).all():
        return ["non-finite result"]
    tol = 1e-9 * max(1.0, s)
    per = E.per_target_anchor(res["eq"], len(tgt), -1)
    bad = []
    for k, p in enumerate(tgt):
        d = np.array([np.sqrt(((p - ref[a]) ** 2).sum()) for a in anchors])
        cands = [a for a, x in zip(anchors, d) if x <= d.min() * (1 + 1e-12)]
        errs = [np.abs(out[k] - (ref[a] + s * (p - ref[a]))).max() for a in cands]
        if min(errs) > tol:
            bad.append("target atom %d at %s: result %s, expected a+s(p-a) = %s (closest anchor %d), off by %.3g" % (
                k, p.tolist(), out[k].tolist(), (ref[cands[0]] + s * (p - ref[cands[0]])).tolist(), cands[0], min(errs)))
        if per[k] not in cands:
            bad.append("equivalences assign target atom %d to %s, closest anchors are %s" % (k, per[k], cands))
        if len(bad) > 3:
            break
    return bad


def moved_conf(rs, spec):
    """another configuration of the same molecule: rotated, translated and slightly deformed copy"""
    ref = np.array(spec["ref"], dtype=float)
    c = ref.mean(axis=0)
    out = (ref - c) @ E.random_rotation(rs).T + c + rs.uniform(-2, 2, size=3) + rs.normal(size=ref.shape) * 0.02 * rs.randint(2)
    return out


def sequence_failures(spec, steps):
    """One map object, the calls of `steps`; the law must hold on EVERY call whose argument is in the
    construction-time reference configuration (whatever object carries it and whatever happened before)."""
    res = E.run_sequence(spec, steps)
    if "err" in res:
        return law_failures(spec, res)
    ref = np.array(spec["ref"], dtype=float)
    bad = []
    for i, c in enumerate(res["calls"]):
        if c["pos"].shape == ref.shape and np.array_equal(c["pos"], ref):
            b = law_failures(spec, E.end_view(res, i))      # the held result, read at the END of the sequence
            bad += ["call %d of the sequence (%s, reference configuration): %s" % (i, c["how"], x) for x in b]
    if not res["tgt_unchanged"]:
        bad.append("the target molecule passed to the constructor was modified by the calls")
    if not res["eq_stable"]:
        bad.append("the public equivalences changed between construction and the end of the sequence")
    bad = res["held_problems"][:3] + bad
    return bad[:6]


def default_steps(spec):
    return [{"how": "copy", "pos": spec["ref"]}]


C01_PATTERNS = [["object"], ["copy0"], ["object", "copy", "object"], ["copy", "object", "copy0"],
                ["object", "inplace", "restore"], ["copy", "copy0", "inplace", "restore", "object"],
                ["deep0"], ["object", "deep0", "sep0"], ["deepcopy", "sep0", "deep0"],
                # the construction molecules modified in place BEFORE the first call (M reference, T target, E: the
                # equivalences read in between); the law refers to the geometry at construction
                ["M:copy0"], ["EM:copy0", "restore"], ["T:object", "copy0"], ["ETM:deep0", "restore", "copy"],
                ["inplace", "copy0", "restore"]]


def gen_steps(rs, spec, pattern=None):
    """"copy0" / "deep0" / "sep0": the argument is in the construction-time configuration"""
    if pattern is None:
        pattern = C01_PATTERNS[rs.randint(len(C01_PATTERNS))]
    steps = []
    for tok in pattern:
        flags, how = E.split_token(tok)
        if how in ("copy0", "deep0", "sep0"):
            # a fresh copy / a deep copy (own topology) / a separately loaded equal molecule, in the construction-time
            # configuration
            st = {"how": {"copy0": "copy", "deep0": "deepcopy", "sep0": "separate"}[how], "pos": spec["ref"]}
            if flags:
                st["pre"] = E.make_pre(rs, spec, moved_conf, flags)
            steps.append(st)
        else:
            steps += E.make_steps(rs, spec, moved_conf, [tok])
    return steps


def oracle_spec(spec, steps=None):
    return sequence_failures(spec, steps if steps is not None else default_steps(spec))


def _chain3(points, tgt, s, geom):
    return {"n_ref": 3, "graph": "chain", "geom": geom, "bonds": [[0, 1], [1, 2]], "ref": [list(map(float, p)) for p in points],
            "tgt": tgt, "s": s}


_TG = [[0.1, 0.2, 0.3], [0.0, 0.5, 1.7], [1.0, 1.0, 1.0], [-0.3, 0.1, 0.9], [2.5, 0.2, 3.9]]
CORPUS = [
    # D1 (calcule_base on collinear triples) as references: NaN / non-unit / non-orthogonal frames before the repair
    _chain3([(0, 0, 0), (0, 0, 1), (0, 0, 2)], _TG, 1.0, "collinear_axis"),
    _chain3([(0, 0, 0), (0, 0, 1), (0, 0, 2)], _TG, 0.5, "collinear_axis"),
    _chain3([(0, 0, 0), (1, 1, 1), (2, 2, 2)], _TG, 1.0, "collinear_diag"),
    _chain3([(0, 0, 0), (3, 0, 4), (6, 0, 8)], _TG, 1.0, "collinear_int"),
    _chain3([(0, 0, 0), (3, 0, 4), (6, 0, 8)], _TG, 1.7, "collinear_int"),
    _chain3([(0.1, 0.2, 0.3), (0.4, 0.8, 1.2), (0.7, 1.4, 2.1)], _TG, 1.0, "collinear_decimal"),
    # anchor in the middle of a bent chain parallel to the axes
    _chain3([(1, 0, 0), (0, 0, 0), (0, 1, 0)], _TG, 1.0, "grid"),
    # four atoms, two collinear anchors, targets equidistant from both
    {"n_ref": 4, "graph": "chain", "geom": "collinear_axis", "bonds": [[0, 1], [1, 2], [2, 3]],
     "ref": [[0, 0, 0], [1, 0, 0], [2, 0, 0], [3, 0, 0]], "tgt": [[1.5, 0.5, 0], [1.5, 0, 0.25], [0, 0, 0]], "s": 1.0},
]


# witness of the seeded change C01-2 (frames not recomputed when the argument is the construction object): branched
# 5-atom reference, 6-atom target; emap(ref), emap(moved copy), emap(ref) again, in-place excursion and back
_W_REF = [[1.00, 2.00, 3.00], [1.12, 2.05, 3.02], [1.18, 2.17, 2.95], [1.21, 1.97, 3.11], [1.33, 2.01, 3.16]]
_W_TGT = [[1.05, 2.03, 2.96], [1.15, 2.10, 3.05], [1.20, 2.00, 3.07], [1.27, 1.93, 3.15], [1.30, 2.06, 3.20],
          [1.09, 2.11, 3.09]]
_W_MOVED = (np.dot(np.array(_W_REF) - np.array(_W_REF[0]), E.rot([0.3, -1.0, 0.5], 0.8).T) + np.array(_W_REF[0])
            + np.array([0.7, -0.4, 1.1])).tolist()
_W_STEPS = [{"how": "object"}, {"how": "copy", "pos": _W_MOVED}, {"how": "object"}, {"how": "inplace", "pos": _W_MOVED},
            {"how": "inplace", "pos": _W_REF}, {"how": "copy", "pos": _W_REF}]
SEQ_CORPUS = [({"n_ref": 5, "graph": "tree", "geom": "generic", "bonds": [[0, 1], [1, 2], [1, 3], [3, 4]], "ref": _W_REF,
                "tgt": _W_TGT, "s": sc}, _W_STEPS) for sc in (1.0, 0.5, 1.7)]


def _witness_c01_3():
    """seeded change C01-3 (frame neighbours from the unsorted bonds set): 40-bead chain with an elastic network (every
    pair closer than 0.6 nm bonded), three target atoms around every bead; the map is applied to ref.deep_copy() and to
    a separately loaded equal molecule in the identical configuration"""
    rng = np.random.RandomState(2021)
    n = 40
    st = rng.normal(size=(n, 3))
    st *= 0.35 / np.linalg.norm(st, axis=1)[:, None]
    ref = np.cumsum(st, axis=0)
    bonds = [(i, i + 1) for i in range(n - 1)]
    bonds += [(i, j) for i in range(n) for j in range(i + 2, n) if np.linalg.norm(ref[i] - ref[j]) < 0.6]
    tgt = np.concatenate([p + rng.uniform(-.12, .12, size=(3, 3)) for p in ref])
    steps = [{"how": "object"}, {"how": "deepcopy", "pos": ref.tolist()}, {"how": "separate", "pos": ref.tolist()}]
    return [({"n_ref": n, "graph": "elastic", "geom": "generic", "bonds": [list(b) for b in bonds], "ref": ref.tolist(),
              "tgt": tgt.tolist(), "s": sc}, steps) for sc in (1.0, 0.5, 2.0)]


def _witness_c01_4():
    """seeded change C01-4 (distances rounded to 1e-3 nm before the minimum): bent 5-bead chain, the last target atom
    2e-4 nm past the mid point of beads 1 and 2 (distances 0.198478 / 0.198133 nm: bead 2 is the closest anchor)"""
    ref = np.array([[0.00, 0.00, 0.00], [0.30, 0.12, 0.00], [0.62, 0.02, 0.07], [0.93, 0.15, 0.00], [1.20, 0.00, 0.10]])
    a1, a2 = ref[1], ref[2]
    axis = (a2 - a1) / np.linalg.norm(a2 - a1)
    perp = np.cross(axis, [0., 0., 1.])
    perp /= np.linalg.norm(perp)
    rng = np.random.RandomState(7)
    ordinary = np.concatenate([p + rng.uniform(-.05, .05, size=(2, 3)) for p in ref])
    out = []
    for sign in (1.0, -1.0):           # both index orders: closer to bead 2, closer to bead 1
        tgt = np.concatenate([ordinary, [(a1 + a2) / 2 + sign * 2e-4 * axis + 0.1 * perp]])
        for sc in (1.0, 0.5, 0.9, 2.0):
            spec = {"n_ref": 5, "graph": "chain", "geom": "neartie", "bonds": [[0, 1], [1, 2], [2, 3], [3, 4]],
                    "ref": ref.tolist(), "tgt": tgt.tolist(), "s": sc}
            out.append((spec, default_steps(spec)))
    return out


def _corpus_items(ctx):
    items = [(spec, default_steps(spec)) for spec in CORPUS + E.shipped_specs(ctx.n(40, 10 ** 6))]
    items += list(SEQ_CORPUS) + _witness_c01_3() + _witness_c01_4()
    # the D1 witnesses through the construction object as well
    items += [(spec, [{"how": "object"}, {"how": "copy", "pos": (np.array(spec["ref"]) + 0.5).tolist()}, {"how": "object"}])
              for spec in CORPUS]
    return items


def corpus(ctx):
    S = ctx.cov["S"]
    S["corpus"] = 0
    for spec, steps in _corpus_items(ctx):
        bad = oracle_spec(spec, steps)
        S["corpus"] += 1
        if bad:
            ctx.violation("anchor-and-scale law: " + "; ".join(bad),
                          {"kind": "c01", "spec": spec, "steps": E.steps_json(steps)}, key="law")


def correspondence(ctx):
    rs = ctx.np_rng("K")
    items = [(spec, steps, {"kind": "c01", "stream": "corpus"}) for spec, steps in _corpus_items(ctx) if spec["n_ref"] >= 3]
    for i in range(ctx.n(200, 3000)):
        spec = E.gen_spec(rs, E.GEOMS_GENERIC[i % len(E.GEOMS_GENERIC)])
        items.append((spec, gen_steps(rs, spec), {"kind": "c01", "stream": "generic"}))
    for i in range(ctx.n(130, 2000)):
        spec = E.gen_spec(rs, E.GEOMS_DYADIC[i % len(E.GEOMS_DYADIC)])
        items.append((spec, gen_steps(rs, spec), {"kind": "c01", "stream": "dyadic"}))
    # error branch: >= 3 atoms, nobody with two bonds (outside the property's domain; IndexError <-> Err EIndex)
    for _ in range(3):
        spec = E.gen_spec(rs, "generic", n=4)
        spec["bonds"] = [[0, 1], [2, 3]]
        spec["graph"] = "no_anchor"
        items.append((spec, default_steps(spec), {"kind": "c01", "stream": "no_anchor"}))
    return E.run_K(ctx, items, lambda d: oracle_spec(d["spec"], d["steps"]))


def oracle(ctx, scale):
    rs = ctx.np_rng("S%d" % scale)
    S = ctx.cov["S"]
    n = ctx.n(400, 6000) * scale
    geoms = ["generic", "generic", "partial", "collinear_decimal", "nearlinear", "neartie", "neartie", "elastic"] + E.GEOMS_DYADIC
    fails = 0
    hist, pats = {}, {}
    ncalls = 0
    for i in range(n):
        spec = E.gen_spec(rs, geoms[i % len(geoms)])
        if i % 7 == 0 and spec["geom"] != "neartie":
            spec["s"] = 1.0
        steps = gen_steps(rs, spec)
        ncalls += len(steps)
        bad = oracle_spec(spec, steps)
        hist[spec["geom"]] = hist.get(spec["geom"], 0) + 1
        pk = ",".join(st["how"] for st in steps)
        pats[pk] = pats.get(pk, 0) + 1
        ctx.count(("S", spec["bonds"], spec["ref"], spec["tgt"], spec["s"], pk))
        if bad:
            fails += 1
            ctx.violation("anchor-and-scale law: " + "; ".join(bad),
                          {"kind": "c01", "spec": spec, "steps": E.steps_json(steps)}, key="law")
    S["law_sequences_x%d" % scale] = n
    S["calls_x%d" % scale] = ncalls
    S["input_distribution"] = hist
    S["sequence_patterns"] = pats
    S["failures"] = S.get("failures", 0) + fails


def replay(ctx, obj):
    r = obj["replay"]
    if "spec" not in r:
        print("replay names a proof/correspondence, not an input:", r)
        return False
    bad = oracle_spec(r["spec"], r.get("steps"))
    print(bad)
    return not bad


def finish(ctx):
    ctx.assumptions = [
        "theorems are exact statements over the real numbers; IEEE rounding is modelled, not verified: the 1e-9 nm tolerance "
        "of the property is checked on the implementation by the S oracle (testing)",
        "the argument of the call has the bond graph of the construction-time reference (same species; C04 owns the species test)",
        "bond graph well formed: one neighbour collection per atom, indices in range, no self bond, no duplicate",
        "references of >= 3 atoms without any atom with two bonds raise IndexError (model: Err EIndex): outside the property's domain",
        "nearest-anchor and collinearity decisions are compared between model and implementation only when their margin is "
        ">= 2^-30 (generic stream); exact ties are compared on the dyadic stream where binary64 distances are exact",
    ]
    return ctx.finish(level="proof", rule=RULE,
                      trusted=["numpy/scipy evaluation order (np.dot, np.cross, np.linalg.norm, scipy euclidean) written out by "
                               "hand in coq/Model/ExchangeMap.v and coq/Model/Aux.v",
                               "Python dict insertion order, tuple comparison and sorted() as modelled in Model/ExchangeMap.v"])
