#!/venv/bin/python
"""Driver: ./check Cxx [--tier quick|thorough] [--replay file]   (see DESIGN.md section 1)"""
import argparse
import importlib
import json
import os
import sys
import traceback

sys.path.insert(0, os.path.dirname(os.path.abspath(__file__)))
import lib  # noqa: E402


def main():
    ap = argparse.ArgumentParser()
    ap.add_argument("cid")
    ap.add_argument("--tier", default=os.environ.get("VERIF_TIER", "quick"), choices=["quick", "thorough"])
    ap.add_argument("--replay", default=None)
    ap.add_argument("--no-proof", action="store_true", help="skip layer P (debugging only)")
    a = ap.parse_args()
    if a.no_proof and "VERIF_OUT" not in os.environ:
        # debugging runs never touch the registered evidence/ and replays/ directories
        lib.OUT = os.path.join(lib.BUILD, "noproof")
    seed = int(os.environ.get("VERIF_SEED", "0") or 0)
    os.environ.setdefault("PYTHONHASHSEED", "0")
    lib.setup_impl_path()
    cid = a.cid.upper()
    mod = importlib.import_module(cid.lower())
    ctx = lib.Ctx(cid, a.tier, seed)
    if a.replay:
        obj = json.load(open(a.replay))
        ok = mod.replay(ctx, obj)
        print("replay %s: %s" % (a.replay, "property holds on this input" if ok else "VIOLATION reproduced"))
        return 0 if ok else 1
    # layer P
    if not a.no_proof:
        ctx.run_P()
        p_ok = ctx.P["ok"]
    else:
        p_ok = True
    # corpus first, then K (+S on the same cases), then S
    kdis = []
    try:
        mod.corpus(ctx)
        kdis = mod.correspondence(ctx) or []
        mod.oracle(ctx, 1)
        if (not p_ok or kdis) and not ctx.violations:
            # broken proof or correspondence: enlarged search for a concrete failing input
            mod.oracle(ctx, 8)
    except Exception:
        tb = traceback.format_exc()
        ctx.violation("harness/implementation crashed while checking: " + tb[-1500:], {"traceback": tb},
                      no_input=True, tag="crash")
    if not ctx.violations:
        if not p_ok:
            ctx.violation("proof obligation no longer checks: %s %s" % (ctx.P.get("broken_at", ctx.P["file"]),
                                                                      ctx.P["log"][-800:]),
                          {"theorem_file": ctx.P["file"], "log": ctx.P["log"][-3000:]}, no_input=True, tag="proof")
        elif kdis:
            ctx.violation("correspondence model<->implementation no longer checks (%d cases), first: %s" %
                          (len(kdis), json.dumps(kdis[0], default=str)[:600]),
                          {"correspondence": cid, "disagreements": kdis[:5]}, no_input=True, tag="corr")
    rc = mod.finish(ctx)
    return rc


if __name__ == "__main__":
    sys.exit(main())
