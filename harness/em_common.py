"""Shared by c01.py, c02.py, c03.py (ExchangeMap geometry): generators of reference/target pairs, the driver of
the real ExchangeMap (with np.random.rand recorded), and the writer of the Coq correspondence cases
(`chk_em`, coq/Corr/CheckC01.v)."""
import numpy as np

import lib
import molgen
from lib import fl, v3

HEADER = """From GM Require Import Corr.CorrBase Model.ExchangeMap Corr.CheckC01.
Open Scope float_scope.
"""

# ------------------------------------------------------------------ molecules (cached per species)
_MOLS = {}


_NAMES = {}


def get_mol(tag, n, bonds, variant=False, resids=None):
    """cached Molecule of the species (tag, n, bonds, residue numbers).  resids: residue number of every atom
    (contiguous blocks; default: one residue, number 1).  variant=True: a SEPARATELY LOADED molecule of the same species
    (same names, indices and residues, so it is == to the first one) whose topology file lists the bonds in reverse order:
    its AtomTop.bonds sets are built by a different insertion history."""
    resids = tuple(int(r) for r in resids) if resids is not None else (1,) * n
    spec_key = (tag, n, tuple(sorted((min(a, b), max(a, b)) for a, b in bonds)), resids)
    key = spec_key + (bool(variant),)
    if key not in _MOLS:
        name = _NAMES.setdefault(spec_key, "%s%d" % (tag, len(_NAMES)))
        atoms = [(an, name[:5], rid) for an, rid in zip(molgen.atom_names(n, prefix=tag), resids)]
        blist = list(spec_key[2])
        if variant:
            blist = [(b, a) for a, b in reversed(blist)]
        pos0 = np.zeros((n, 3)) + np.arange(n)[:, None] * 0.1
        if len(set(resids)) == 1:
            _MOLS[key] = molgen.make_molecule(name[:5], atoms, pos0, blist)
        else:
            _MOLS[key] = build_multi_residue(name[:5], atoms, pos0, blist)
    return _MOLS[key]


def build_multi_residue(name, atoms, positions, bonds):
    """a Molecule with several residues, assembled from the public classes (MoleculeTop from a written .itp, one Residue
    of AtomGro per residue number)"""
    from gaddlemaps.components import AtomGro, Molecule, MoleculeTop, Residue
    itp = molgen.write_itp(molgen.fresh_path("itp", name), name, atoms, bonds)
    mtop = MoleculeTop(itp)
    groups = []
    for i, ((an, rn, rid), pos) in enumerate(zip(atoms, positions)):
        at = AtomGro([rid, rn, an, i + 1] + [float(x) for x in pos])
        if groups and groups[-1][0] == rid:
            groups[-1][1].append(at)
        else:
            groups.append((rid, [at]))
    return Molecule(mtop, [Residue(g) for _, g in groups])


def ref_mol(spec, variant=False):
    return get_mol("R", spec["n_ref"], spec["bonds"], variant=variant, resids=spec.get("ref_res"))


def tgt_mol(spec):
    return get_mol("T", len(spec["tgt"]), chain_bonds(len(spec["tgt"])), resids=spec.get("tgt_res"))


def chain_bonds(n):
    return [(i, i + 1) for i in range(n - 1)]


class RandRecorder:
    """records every value np.random.rand returns while active"""

    def __enter__(self):
        self.calls = []
        self.orig = np.random.rand

        def wrapped(*a):
            r = self.orig(*a)
            self.calls.append(np.array(r, dtype=float).copy())
            return r
        np.random.rand = wrapped
        return self

    def __exit__(self, *a):
        np.random.rand = self.orig


def err_class(ex):
    for cls, name in ((IndexError, "EIndex"), (KeyError, "EKey"), (ZeroDivisionError, "EDiv0"), (ValueError, "EValue"),
                      (TypeError, "EType"), (RecursionError, "ERecursion"), (OSError, "EIO")):
        if isinstance(ex, cls):
            return name
    return "EStop"


def run_sequence(spec, steps):
    """One map object, several calls.  spec: dict(n_ref, bonds, ref (n,3), tgt (m,3), s).  Builds
    ExchangeMap(ref_object, tgt_object, s) and performs the calls in `steps`, each a dict with
      how = "copy"   : the argument is a fresh copy of the reference placed at step["pos"] (shares the topology object);
      how = "deepcopy": the argument is ref_object.deep_copy() placed at step["pos"] (its own copy of the topology);
      how = "separate": the argument is a separately loaded, equal molecule (own topology, bonds listed in reverse order);
      how = "object" : the argument is the very Molecule object the map was built from, as it currently is;
      how = "inplace": that object is first moved in place (ref_object.atoms_positions = step["pos"]), then passed.
    A step may carry "pre": actions done before its call WITHOUT calling the map - {"act": "ref_inplace", "pos", "via"}
    (the construction reference modified in place via atoms_positions / atom by atom / move), {"act": "tgt_inplace", "pos"}
    (the construction target modified in place), {"act": "read_eq"} (the public equivalences read).  The construction-time
    data of the map are, by definition, the geometries at construction (spec["ref"], spec["tgt"]).
    Returns dict(err=..., bondsets) or dict(eq, bondsets, db, map, held, held_problems, calls=[dict(how, pos
    (conformation actually passed), out (positions read right after the call), out_end (positions of the same returned
    Molecule re-read at the END of the sequence), da)])."""
    from gaddlemaps import ExchangeMap
    ref = ref_mol(spec)
    tgt = tgt_mol(spec)
    ref.atoms_positions = np.array(spec["ref"], dtype=float)
    tgt.atoms_positions = np.array(spec["tgt"], dtype=float)
    bondsets = [list(a.bonds) for a in ref]
    with RandRecorder() as rec, np.errstate(all="ignore"):
        try:
            m = ExchangeMap(ref, tgt, spec["s"])
        except Exception as ex:          # error CLASS only (IndexError <-> Err EIndex in the model)
            return {"err": err_class(ex), "bondsets": bondsets}
        db = list(rec.calls)
        calls, held, problems = [], [], []
        tgt_expected = np.array(spec["tgt"], dtype=float)
        eq_reads = []
        for st in steps:
            # things the caller does to the construction molecules between construction / calls, WITHOUT calling the map
            for act in st.get("pre", []):
                if act["act"] == "ref_inplace":
                    apply_inplace(ref, act)
                elif act["act"] == "tgt_inplace":
                    tgt_expected = np.array(act["pos"], dtype=float)
                    tgt.atoms_positions = tgt_expected.copy()
                elif act["act"] == "read_eq":
                    eq_reads.append(m.equivalences)
            if st["how"] == "copy":
                arg = ref.copy()
                arg.atoms_positions = np.array(st["pos"], dtype=float)
            elif st["how"] == "deepcopy":
                arg = ref.deep_copy()
                arg.atoms_positions = np.array(st["pos"], dtype=float)
            elif st["how"] == "separate":
                arg = ref_mol(spec, variant=True)
                arg.atoms_positions = np.array(st["pos"], dtype=float)
            else:
                if st["how"] == "inplace":
                    ref.atoms_positions = np.array(st["pos"], dtype=float)
                arg = ref
            passed = np.array(arg.atoms_positions, dtype=float)
            n0 = len(rec.calls)
            try:
                out = m(arg)
            except Exception as ex:
                return {"err": err_class(ex), "bondsets": bondsets}
            calls.append({"how": st["how"], "pos": passed, "out": np.array(out.atoms_positions, dtype=float),
                          "da": rec.calls[n0:]})
            # every returned Molecule is HELD for the whole sequence: a later call must not touch it
            held.append(out)
            problems += held_problems(held, calls, len(calls) - 1)
    for i, mol in enumerate(held):
        calls[i]["out_end"] = np.array(mol.atoms_positions, dtype=float)
    return {"eq": m.equivalences, "bondsets": bondsets, "db": db, "calls": calls, "map": m,
            "tgt_after": np.array(tgt.atoms_positions, dtype=float), "held": held, "held_problems": problems,
            "tgt_unchanged": bool(np.array_equal(np.array(tgt.atoms_positions, dtype=float), tgt_expected)),
            "eq_stable": all(e == m.equivalences for e in eq_reads)}


def apply_inplace(ref, act):
    """in-place modification of the construction reference through one of the public ways"""
    pos = np.array(act["pos"], dtype=float)
    via = act.get("via", "array")
    if via == "atoms":                      # atom by atom: mol[i].position = ...
        for i in range(len(ref)):
            ref[i].position = pos[i].copy()
    elif via == "move":                     # rigid shift with Molecule.move, then the exact positions
        ref.move(pos[0] - np.array(ref.atoms_positions, dtype=float)[0])
        ref.atoms_positions = pos
    else:
        ref.atoms_positions = pos



def held_problems(held, calls, last):
    """after call `last`: the results of the earlier calls, still held by the caller, must be distinct objects, share
    no position array with the new result, and still carry bit for bit the positions read right after their own call"""
    bad = []
    new = held[last]
    new_arrays = [a.position for a in new]
    for i in range(last):
        if held[i] is new:
            bad.append("call %d returned the very Molecule object already returned by call %d" % (last, i))
        elif any(np.shares_memory(x, y) for x, y in zip([a.position for a in held[i]], new_arrays)):
            bad.append("the results of calls %d and %d share position arrays" % (i, last))
        now = np.array(held[i].atoms_positions, dtype=float)
        if now.shape != calls[i]["out"].shape or not np.array_equal(now, calls[i]["out"]):
            dev = np.abs(now - calls[i]["out"]).max() if now.shape == calls[i]["out"].shape else float("inf")
            bad.append("the molecule returned by call %d (held by the caller) was moved by call %d: max |dx| = %.3g nm" % (
                i, last, dev))
    return bad


def call_view(res, i):
    """the i-th call of a sequence in the shape of a single-call result"""
    if "err" in res:
        return res
    c = res["calls"][i]
    return {"out": c["out"], "out_end": c["out_end"], "eq": res["eq"], "bondsets": res["bondsets"], "db": res["db"],
            "da": c["da"], "map": res["map"], "pos": c["pos"], "how": c["how"]}


def end_view(res, i):
    """as call_view, but the result is what the HELD returned molecule contains at the end of the sequence"""
    v = call_view(res, i)
    if "err" not in v:
        v = dict(v, out=v["out_end"])
    return v


def run_impl(spec, refp, rand_seed=None):
    """single call on a fresh copy of the reference placed at refp"""
    if rand_seed is not None:
        np.random.seed(rand_seed)
    return call_view(run_sequence(spec, [{"how": "copy", "pos": refp}]), 0)


PATTERNS = [["copy"], ["copy"], ["object", "copy", "object"], ["copy", "object"], ["object", "inplace"],
            ["copy", "inplace", "restore"], ["object", "copy", "copy", "object", "inplace", "object"],
            ["deepcopy"], ["separate", "deepcopy"]]


def make_pre(rs, spec, conf_fn, flags):
    """flags: letters before ':' in a pattern token - M: construction reference modified in place (to a new
    conformation), T: construction target modified in place (shifted + jittered), E: equivalences read"""
    pre = []
    if "E" in flags:
        pre.append({"act": "read_eq"})
    if "M" in flags:
        pre.append({"act": "ref_inplace", "pos": np.array(conf_fn(rs, spec), dtype=float).tolist(),
                    "via": str(rs.choice(["array", "atoms", "move"]))})
    if "T" in flags:
        tgt = np.array(spec["tgt"], dtype=float)
        pre.append({"act": "tgt_inplace", "pos": (tgt + rs.normal(size=3) + rs.normal(size=tgt.shape) * 0.05).tolist()})
    return pre


def split_token(tok):
    flags, _, how = tok.rpartition(":")
    return flags, how


PATTERNS += [["inplace"], ["E:inplace", "copy"], ["M:copy", "object"], ["T:copy"], ["TM:deepcopy", "inplace"],
             ["ET:inplace", "object", "copy"]]


def make_steps(rs, spec, conf_fn, pattern=None):
    """a call sequence on one map object; conf_fn(rs, spec) draws a new conformation.  "restore" puts the
    construction-time positions back in place; a token "FLAGS:how" first performs the pre-call actions of make_pre."""
    if pattern is None:
        pattern = PATTERNS[rs.randint(len(PATTERNS))]
    steps = []
    for tok in pattern:
        flags, how = split_token(tok)
        if how == "object":
            st = {"how": "object"}
        elif how == "restore":
            st = {"how": "inplace", "pos": np.array(spec["ref"], dtype=float).tolist()}
        else:
            st = {"how": how, "pos": np.array(conf_fn(rs, spec), dtype=float).tolist()}
        if flags:
            st["pre"] = make_pre(rs, spec, conf_fn, flags)
        steps.append(st)
    return steps


def steps_json(steps):
    return [dict(st, pos=np.array(st["pos"]).tolist()) if "pos" in st else dict(st) for st in steps]


def per_target_anchor(eqv, n_tgt, sentinel):
    """the public dict {anchor: [targets]} as the anchor of every target atom (sentinel when malformed)"""
    per = [None] * n_tgt
    for a, ts in eqv.items():
        for t in ts:
            if not (0 <= t < n_tgt) or per[t] is not None:
                return [sentinel] * n_tgt
            per[t] = int(a)
    return [sentinel if x is None else x for x in per]


def vlist(arr):
    return lib.coq_list([v3(p) for p in arr])


def nat(n):
    return "%d%%nat" % int(n)


def case_term(spec, refp, res, exact):
    g = lib.coq_list([lib.coq_list([nat(j) for j in l]) for l in res["bondsets"]])
    if "err" in res:
        obs = "(ObsErr %s)" % res["err"]
        db = da = "[]"
    else:
        db, da = vlist(res["db"]), vlist(res["da"])
        if not np.isfinite(res["out"]).all():
            obs = "ObsNonFinite"
        else:
            eq = per_target_anchor(res["eq"], len(spec["tgt"]), spec["n_ref"] + 7)
            obs = "(ObsOk %s %s)" % (lib.coq_list([nat(a) for a in eq]), vlist(res["out"]))
    return "chk_em %s %s %s %s %s %s %s %s %s" % (
        "true" if exact else "false", g, vlist(spec["ref"]), vlist(spec["tgt"]), fl(spec["s"]), db,
        vlist(refp), da, obs)


# ------------------------------------------------------------------ generators
def rot(axis, theta):
    """Rodrigues rotation matrix (column-vector convention), written here independently of the package"""
    n = np.array(axis, dtype=float)
    n /= np.linalg.norm(n)
    K = np.array([[0, -n[2], n[1]], [n[2], 0, -n[0]], [-n[1], n[0], 0]])
    return np.eye(3) + np.sin(theta) * K + (1 - np.cos(theta)) * (K @ K)


def random_rotation(rs):
    kind = rs.randint(0, 8)
    if kind == 0:
        axis = np.eye(3)[rs.randint(3)]
        theta = rs.choice([np.pi / 2, np.pi, -np.pi / 2, 2 * np.pi / 3])
    else:
        axis = rs.normal(size=3)
        theta = rs.uniform(-np.pi, np.pi)
    return rot(axis, theta)


def elastic_bonds(rs, n):
    """elastic-network-like bond list on a chain of n >= 20 atoms: backbone, second/third neighbours and long bonds
    with index gaps of 8, 16 and 32: many atoms get 5-8 bonded neighbours whose indices collide in small hash tables"""
    b = set(chain_bonds(n))
    for i in range(n):
        for gap, pr in ((2, 0.7), (3, 0.35), (8, 0.3), (16, 0.45), (32, 0.5)):
            if i + gap < n and rs.uniform() < pr:
                b.add((i, i + gap))
    return sorted(b)


def gen_graph(rs, n, kind=None):
    """connected bond graph on n >= 3 atoms with random labels (elastic networks keep the chain labels)"""
    if kind is None:
        kind = rs.choice(["tree", "cyclic", "chain", "star"], p=[0.4, 0.3, 0.2, 0.1])
    if kind == "elastic":
        return kind, [(int(a), int(b)) for a, b in elastic_bonds(rs, n)]
    if kind == "ring":
        return kind, sorted(chain_bonds(n) + [(0, n - 1)])
    if kind == "tree":
        b = molgen.random_tree(rs, n)
    elif kind == "cyclic":
        b = molgen.random_graph(rs, n, int(rs.randint(1, 4)))
    elif kind == "chain":
        b = chain_bonds(n)
    else:
        b = [(0, i) for i in range(1, n)]
    perm = rs.permutation(n)
    return kind, sorted((int(min(perm[a], perm[b_])), int(max(perm[a], perm[b_]))) for a, b_ in b)


def neighbours(n, bonds):
    nb = [[] for _ in range(n)]
    for a, b in bonds:
        nb[a].append(b)
        nb[b].append(a)
    return [sorted(set(x)) for x in nb]


def anchors_of(n, bonds):
    nb = neighbours(n, bonds)
    return [i for i in range(n) if len(nb[i]) >= 2]


def walk_positions(rs, n, bonds):
    """molecule-like geometry: every atom 0.1-0.4 nm from an already placed bonded atom"""
    nb = neighbours(n, bonds)
    pos = [None] * n
    start = int(rs.randint(n))
    pos[start] = rs.uniform(-5, 5, size=3)
    stack = [start]
    while stack:
        a = stack.pop()
        for b in nb[a]:
            if pos[b] is None:
                d = rs.normal(size=3)
                d /= np.linalg.norm(d)
                pos[b] = pos[a] + d * rs.uniform(0.1, 0.4)
                stack.append(b)
    for k in range(n):
        if pos[k] is None:
            pos[k] = rs.uniform(-5, 5, size=3)
    return np.array(pos)


def int_direction(rs, kind):
    if kind == "axis":
        return np.eye(3)[rs.randint(3)] * rs.choice([-1.0, 1.0])
    if kind == "diag":
        d = rs.choice([-1.0, 0.0, 1.0], size=3)
        while not d.any():
            d = rs.choice([-1.0, 0.0, 1.0], size=3)
        return d
    d = rs.randint(-6, 7, size=3).astype(float)
    while not d.any():
        d = rs.randint(-6, 7, size=3).astype(float)
    return d


def min_separation(pos):
    pos = np.array(pos)
    if len(pos) < 2:
        return 1.0
    d = np.linalg.norm(pos[:, None, :] - pos[None, :, :], axis=-1)
    d[np.diag_indices(len(pos))] = np.inf
    return d.min()


def gen_reference(rs, geom, n=None):
    """returns (n, graph kind, bonds, positions) for a reference of >= 3 atoms"""
    kind = None
    if n is None:
        n = int(rs.randint(3, 11)) if rs.randint(20) else int(rs.randint(20, 41))
        if geom in ("generic", "neartie", "elastic") and (geom == "elastic" or rs.randint(8) == 0):
            n, kind = int(rs.randint(20, 41)), "elastic"
        elif geom == "generic" and rs.randint(10) == 0:
            # ring with chain labels: atom 0 is bonded to {1, n-1}, two indices that collide in an 8-slot hash table
            n, kind = int(rs.choice([10, 18, 26])), "ring"
        elif geom == "neartie" and n < 5:
            n = 5
    gk, bonds = gen_graph(rs, n, kind)
    if geom in ("neartie", "elastic"):
        geom = "generic"
    if geom == "nearlinear":
        # one anchor bent by an angle phi off the straight line, sin(phi) log-uniform in [2e-5, 1e-2]: regular branch
        # of calcule_base with a comfortable margin over its 1e-6 threshold; random orientation, bonds 0.25-0.4 nm
        pos = walk_positions(rs, n, bonds)
        while min_separation(pos) < 1e-3:
            pos = walk_positions(rs, n, bonds)
        nb = neighbours(n, bonds)
        a = int(rs.choice(anchors_of(n, bonds)))
        n1, n2 = nb[a][:2]
        u = pos[n2] - pos[a]
        u /= np.linalg.norm(u)
        pos[n2] = pos[a] + u * rs.uniform(0.25, 0.4)
        w = np.cross(u, rs.normal(size=3))
        w /= np.linalg.norm(w)
        sphi = 10 ** rs.uniform(np.log10(2e-5), -2)
        cphi = np.sqrt(1 - sphi * sphi) * rs.choice([-1.0, -1.0, 1.0])     # mostly ~180 degrees, sometimes ~0
        pos[n1] = pos[a] + (cphi * u + sphi * w) * rs.uniform(0.25, 0.4) * (1.0 if cphi < 0 else 0.5)
    elif geom in ("generic", "partial", "near"):
        pos = walk_positions(rs, n, bonds)
        while min_separation(pos) < 1e-3:
            pos = walk_positions(rs, n, bonds)
        if geom in ("partial", "near"):
            nb = neighbours(n, bonds)
            a = int(rs.choice(anchors_of(n, bonds)))
            n1, n2 = nb[a][:2]
            q = 2.0 ** -10
            pos[a] = np.round(pos[a] / q) * q
            pos[n2] = np.round(pos[n2] / q) * q
            if (pos[n2] == pos[a]).all():
                pos[n2] = pos[a] + np.array([q * 64, 0, 0])
            lam = rs.choice([-1.0, 0.5, 2.0, -0.25, 1.5])
            pos[n1] = pos[a] + lam * (pos[n2] - pos[a])
            if geom == "near":
                w = pos[n2] - pos[a]
                perp = np.cross(w, rs.normal(size=3))
                perp /= np.linalg.norm(perp)
                pos[n1] = pos[n1] + perp * np.linalg.norm(pos[n1] - pos[a]) * 10 ** rs.uniform(-9, -3)
    elif geom in ("collinear_axis", "collinear_diag", "collinear_int", "collinear_decimal"):
        d = int_direction(rs, {"collinear_axis": "axis", "collinear_diag": "diag"}.get(geom, "int"))
        ks = rs.permutation(np.arange(-n, 2 * n))[:n].astype(float)
        base = rs.randint(-8, 9, size=3).astype(float)
        sc = 0.1 if geom == "collinear_decimal" else 2.0 ** rs.randint(-4, 1)
        pos = (base[None, :] + ks[:, None] * d[None, :]) * sc
    elif geom == "grid":
        side = 3 if n <= 20 else 4
        cells = rs.permutation(side ** 3)[:n]
        pos = np.array([[c // (side * side), (c // side) % side, c % side] for c in cells], dtype=float) * 0.25
    else:
        raise ValueError(geom)
    return n, gk, bonds, np.array(pos, dtype=float)


def gen_target(rs, ref, geom):
    m = int(rs.randint(1, 13)) if rs.randint(20) else int(rs.randint(30, 61))
    if geom == "grid":
        side = 8
        return np.array([rs.randint(-1, side, size=3) for _ in range(m)], dtype=float) * 0.125
    if geom.startswith("collinear") and rs.randint(2):
        # dyadic offsets from reference atoms: exact ties between the anchors happen
        q = ref[rs.randint(len(ref), size=m)]
        return q + rs.randint(-4, 5, size=(m, 3)) * (0.1 if geom == "collinear_decimal" else 0.0625)
    q = ref[rs.randint(len(ref), size=m)]
    out = q + rs.normal(size=(m, 3)) * 0.15
    if rs.randint(3) == 0:
        # one target atom exactly ON a reference atom (distance exactly 0.0 to it)
        out[rs.randint(m)] = ref[rs.randint(len(ref))]
    return out


def neartie_targets(rs, ref, anchors, m):
    """target atoms 5e-7..2.5e-4 nm off the bisector plane of an anchor and the anchor nearest to it (their distances
    to the atom differ by about 1e-6..5e-4 nm: far above rounding, below the precision of a .gro file), on either side"""
    out = []
    for _ in range(m):
        a = int(rs.choice(anchors))
        others = [b for b in anchors if b != a]
        b = min(others, key=lambda j: np.linalg.norm(ref[j] - ref[a]))
        axis = ref[b] - ref[a]
        axis /= np.linalg.norm(axis)
        perp = np.cross(axis, rs.normal(size=3))
        perp /= np.linalg.norm(perp)
        delta = rs.choice([-1.0, 1.0]) * 10 ** rs.uniform(np.log10(5e-7), np.log10(2.5e-4))
        out.append((ref[a] + ref[b]) / 2 + delta * axis + rs.uniform(0, 0.12) * perp)
    return np.array(out)


def gen_scale(rs):
    """'all scale factors': 1 and 0.5 over-represented, uniform in (0.02, 2], and one in eight a boundary / unusual value:
    exactly zero (the int 0 and the float 0.0: every mapped atom on its anchor), very small, negative, 2"""
    k = rs.randint(8)
    if k == 0:
        return 1.0
    if k == 1:
        return 0.5
    if k == 2:
        j = rs.randint(9)
        return [0, 0.0, 0, 0.0, 10 ** rs.uniform(-12, -3), 1e-6, -0.5, -float(rs.uniform(0.02, 2.0)), 2.0][j]
    return float(rs.uniform(0.02, 2.0))


def assign_residues(rs, n_ref, n_tgt):
    """k >= 2 residues numbered 1..k in BOTH molecules (overlapping numbers; equal count, as ExchangeMap.__call__ copies
    the residue numbers of the argument onto the result), contiguous blocks with random cut points"""
    k = int(rs.randint(2, min(n_ref, n_tgt, 4) + 1))

    def blocks(n):
        cuts = sorted(rs.permutation(np.arange(1, n))[:k - 1])
        out, r = [], 1
        for i in range(n):
            if r <= len(cuts) and i >= cuts[r - 1]:
                r += 1
            out.append(r)
        return out
    return blocks(n_ref), blocks(n_tgt)


GEOMS_GENERIC = ["generic", "generic", "generic", "partial", "near", "collinear_decimal", "nearlinear", "neartie",
                 "elastic"]
GEOMS_DYADIC = ["grid", "grid", "collinear_axis", "collinear_diag", "collinear_int"]


def gen_spec(rs, geom, n=None):
    n, gk, bonds, ref = gen_reference(rs, geom, n)
    tgt = gen_target(rs, ref, geom)
    s = gen_scale(rs)
    if geom == "neartie":
        anchors = anchors_of(n, bonds)
        if len(anchors) >= 2:
            k = max(1, len(tgt) // 2)
            tgt = np.concatenate([neartie_targets(rs, ref, anchors, k), tgt[k:]])
        s = float(rs.choice([0.25, 0.5, 0.9, 2.0]))
    spec = {"n_ref": n, "graph": gk, "geom": geom, "bonds": [list(b) for b in bonds], "ref": ref.tolist(),
            "tgt": np.array(tgt).tolist(), "s": s}
    if len(tgt) >= 2 and rs.randint(3) == 0:
        # multi-residue reference AND target with the same residue numbers; the target atoms are placed near random
        # reference atoms, so many of them are closest to an anchor of another residue number
        spec["ref_res"], spec["tgt_res"] = assign_residues(rs, n, len(tgt))
        spec["residues"] = max(spec["ref_res"])
        if spec["s"] == 1.0 and geom != "neartie":
            spec["s"] = float(rs.uniform(0.02, 2.0))
    return spec


def gen_small_spec(rs, n):
    """references of one or two atoms (random completion points)"""
    geom = rs.choice(["generic", "axis", "dyadic"])
    if geom == "generic":
        ref = rs.uniform(-3, 3, size=(n, 3))
        if n == 2:
            d = rs.normal(size=3)
            ref[1] = ref[0] + d / np.linalg.norm(d) * rs.uniform(0.1, 0.5)
    elif geom == "axis":
        ref = np.zeros((n, 3)) + rs.randint(-3, 4, size=3)
        if n == 2:
            ref[1] = ref[0] + np.eye(3)[rs.randint(3)] * rs.choice([-1.0, 1.0]) * rs.randint(1, 4)
    else:
        ref = rs.randint(-8, 9, size=(n, 3)) * 0.125
        if n == 2 and (ref[0] == ref[1]).all():
            ref[1, 0] += 0.5
    m = int(rs.randint(1, 9))
    tgt = ref[rs.randint(n, size=m)] + rs.normal(size=(m, 3)) * 0.15
    return {"n_ref": n, "graph": "small", "geom": "small_" + str(geom), "bonds": [[0, 1]] if n == 2 else [],
            "ref": ref.tolist(), "tgt": tgt.tolist(), "s": gen_scale(rs)}


def is_exact(spec):
    return spec["geom"] in ("grid", "collinear_axis", "collinear_diag", "collinear_int")


# ------------------------------------------------------------------ shipped molecule pairs
SHIPPED = [("Protein_CG.gro", "Protein_CG.itp", "Protein_AA.gro", "Protein_AA.itp"),
           ("CUR_map.gro", "CUR_CG.itp", "CUR_AA.gro", "CUR_AA.itp"),
           ("VTE_map.gro", "vitamin_E_CG.itp", "VTE_AA.gro", "VTE_AA.itp"),
           ("BF4_CG.gro", "BF4_CG.itp", "BF4_AA.gro", "BF4_AA.itp"),
           ("DNA_map.gro", "DNA_CG.itp", "DNA_AA.gro", "DNA_AA.itp")]
_SHIPPED_CACHE = []


def shipped_specs(max_ref=10 ** 6):
    """the reference (coarse-grained, overlapped) / target (atomistic) pairs shipped in gaddlemaps/data as specs
    (bond graph and positions read from the loaded Molecule objects); missing files are skipped"""
    import os
    import gaddlemaps
    from gaddlemaps.components import Molecule
    if not _SHIPPED_CACHE:
        d = os.path.join(os.path.dirname(gaddlemaps.__file__), "data")
        for rg, ri, tg, ti in SHIPPED:
            try:
                r = Molecule.from_files(os.path.join(d, rg), os.path.join(d, ri))
                t = Molecule.from_files(os.path.join(d, tg), os.path.join(d, ti))
            except Exception:
                continue
            bonds = sorted({(min(hash(a), b), max(hash(a), b)) for a in r for b in a.bonds})
            for s in (1.0, 0.5):
                _SHIPPED_CACHE.append({"n_ref": len(r), "graph": "shipped", "geom": "shipped_" + rg.split("_")[0],
                                       "bonds": [list(b) for b in bonds],
                                       "ref": np.array(r.atoms_positions, dtype=float).tolist(),
                                       "tgt": np.array(t.atoms_positions, dtype=float).tolist(), "s": s})
    return [sp for sp in _SHIPPED_CACHE if sp["n_ref"] <= max_ref]


# ------------------------------------------------------------------ K driver
def run_K(ctx, items, oracle_on_disagreement):
    """items: list of (spec, steps, meta).  Runs the sequence on one real map object; EVERY call becomes one
    correspondence case (the model is pure: build on the construction-time data, apply on the conformation actually
    passed).  Fills ctx.cov['K'] and returns the disagreeing cases (each carries the whole sequence).
    oracle_on_disagreement(case_meta) -> list of failed clauses."""
    cases, metas, hist, hows = [], [], {}, {}
    for spec, steps, meta in items:
        res = run_sequence(spec, steps)
        sj = steps_json(steps)
        ncalls = 1 if "err" in res else len(res["calls"])
        for i in range(ncalls):
            view = call_view(res, i)
            refp = spec["ref"] if "err" in res else view["pos"]
            cases.append(case_term(spec, refp, view, is_exact(spec)))
            metas.append(dict(meta, spec=spec, steps=sj, call=i, refp=np.array(refp).tolist()))
            how = "err" if "err" in res else "%d:%s" % (min(i, 3), view["how"])
            hows[how] = hows.get(how, 0) + 1
            ctx.count(("K", spec["bonds"], spec["ref"], spec["tgt"], spec["s"], np.array(refp).tolist(), i))
        key = "%s/%s" % (spec["geom"], spec["graph"])
        hist[key] = hist.get(key, 0) + 1
    for mt in (metas[0], metas[len(metas) // 2], metas[-1]):
        ctx.sample({k: v for k, v in mt.items()})
    codes, log = lib.run_coq_cases(ctx.cid, "K", HEADER, cases, shard=60)
    K = ctx.cov["K"]
    K["cases"] = len(cases)
    K["map_objects"] = len(items)
    K["input_distribution"] = hist
    K["call_kind_histogram (position in the sequence:how)"] = hows
    K["residues_histogram"] = _count([it[0].get("residues", 1) for it in items])
    K["scale_classes"] = _count([scale_class(it[0]["s"]) for it in items])
    K["n_ref_histogram"] = _hist([it[0]["n_ref"] for it in items])
    K["n_tgt_histogram"] = _hist([len(it[0]["tgt"]) for it in items], width=10)
    K["log"] = log
    if codes is None:
        K["error"] = log
        return [{"error": "coqc failed on the correspondence cases", "log": log[-1500:]}]
    K["disagree"] = sum(1 for c in codes.values() if c in (1, 3))
    K["indeterminate"] = sum(1 for c in codes.values() if c == 2)
    K["agree"] = len(cases) - len(codes)
    dis = [dict(metas[i], code=c) for i, c in sorted(codes.items()) if c in (1, 3)]
    for d in dis[:40]:
        bad = oracle_on_disagreement(d)
        if bad:
            ctx.violation("exchange map: " + "; ".join(bad), d, key="emap")
    return dis


def scale_class(sc):
    if sc == 0:
        return "zero (int)" if isinstance(sc, int) else "zero (float)"
    if sc < 0:
        return "negative"
    if sc < 1e-2:
        return "tiny"
    return "one" if sc == 1 else "(0.01,2]"


def _count(vals):
    h = {}
    for v in vals:
        h[str(v)] = h.get(str(v), 0) + 1
    return h


def _hist(vals, width=5):
    h = {}
    for v in vals:
        lo = (v // width) * width
        k = "%d-%d" % (lo, lo + width - 1)
        h[k] = h.get(k, 0) + 1
    return h
