"""C10 - restraint pairs always designate the atoms the user (or the guesser) meant.

K: the implementation's observable behaviour vs coq/Model/Restraints.v
   * arguments received by a wrapped gaddlemaps._alignment.minimize_molecules (public seam),
   * return values of remove_hydrogens, AtomGro.element, _split_list, guess_residue_restrains,
     guess_protein_restrains,
   * calls of Alignment.align_molecules made by Manager.align_molecules (wrapped by a recorder).
S: the property text evaluated directly on the implementation (no model involved).
"""
import json

import numpy as np

import lib
import molgen
from lib import coq_list, coq_str, coq_z

HEADER = """From GM Require Import Corr.CheckC10.
Open Scope string_scope.
"""

RULE = ("align cases: start/end molecules of 1..9 atoms (either one larger, equal sizes, single atoms), 1..4 residues, "
        "atom names from a hydrogen-sensitive alphabet (H7, 7H, H_7, HA7, h7, OH7, C7, rarely a name without letters), "
        "restraints None / [] / random in-range pairs with duplicates / rarely negative or out-of-range indices, "
        "deformation types None or explicit, ignore_hydrogens on/off, auto-guess on/off, rarely a disconnected mobile "
        "molecule; guessers: K every (n, parts) and (n1, n2) size pair of the tier's square (12 quick / 40 thorough), S the full "
        "40 x 40 grid in every tier plus two-residue molecules with residue lengths up to 40, random multi-residue pairs "
        "with equal / similar / different residue names and different residue counts; histories: 2-3 consecutive "
        "align_molecules calls sharing one restraint list object (same or fresh Alignment, 60 % start smaller), the "
        "caller's list compared after every call; manager: systems of 2-3 species "
        "(one possibly without end molecule) with option dictionaries valid / unknown names / malformed values, and "
        "parse_restrictions=False with the parsed dictionary permuted / restricted to a subset / reused for a second call "
        "(real Alignment.align_molecules run under a logger). "
        "A case is non-trivial when distinct and it has at least one restraint, a guess, an error or a non-default option.")

ERRMAP = [(KeyError, "EKey"), (IndexError, "EIndex"), (OSError, "EIO"), (ValueError, "EValue"), (TypeError, "EType")]


def err_of(ex):
    for cls, name in ERRMAP:
        if isinstance(ex, cls):
            return name
    return "ESystem"


# ------------------------------------------------------------------ generators
RESPOOL = ["ALA", "SER", "LYS", "TRP", "PHE", "MET", "ASN", "HIS"]
NAME_KINDS = ["C%d", "N%d", "O%d", "H%d", "%dH", "H_%d", "HA%d", "h%d", "OH%d", "H%dC", "_H%d", "HH%d"]
NAME_P = np.array([4, 2, 2, 5, 2, 1, 1, 1, 1, 1, 1, 1], dtype=float)
NAME_P /= NAME_P.sum()


def gen_molspec(rs, n, nres=None, noletter=0.0, resname_pool=None):
    """dict describing a molecule: atoms [(name, resname, resid)], pos, bonds"""
    if nres is None:
        nres = int(rs.choice([1, 1, 1, 2, 3, 4]))
    nres = max(1, min(nres, n))
    cuts = sorted(rs.choice(np.arange(1, n), size=nres - 1, replace=False).tolist()) if nres > 1 else []
    bounds = [0] + cuts + [n]
    atoms = []
    # residue names distinct within a molecule (System cannot load a molecule with two residues of equal
    # (name, length) and different atom names: C11's domain); 2-letter prefixes/suffixes of the pool are distinct too
    pool = resname_pool or RESPOOL
    resnames = [str(x) for x in rs.choice(pool, size=nres, replace=False)]
    for r in range(nres):
        for k in range(bounds[r], bounds[r + 1]):
            kind = str(rs.choice(NAME_KINDS, p=NAME_P))
            name = kind % k
            if rs.uniform() < noletter:
                name = "%d_%d" % (k, k)
            atoms.append([name, resnames[r], r + 1])
    pos = rs.uniform(0.0, 3.0, size=(n, 3))
    bonds = molgen.random_tree(rs, n)
    return {"atoms": atoms, "pos": pos.tolist(), "bonds": [list(b) for b in bonds]}


_BUILDS = [0]


def purge_tmp(every=600):
    """called between cases only (nothing built earlier is still in use): keeps molgen's scratch directory small,
    a directory with 1e5 files makes every file operation and the exit clean-up slow"""
    import os
    if _BUILDS[0] < every:
        return
    _BUILDS[0] = 0
    d = molgen.tmpdir()
    for f in os.listdir(d):
        try:
            os.remove(os.path.join(d, f))
        except OSError:
            pass


def build(spec, molname="MOL"):
    _BUILDS[0] += 1
    return molgen.make_molecule(molname, [tuple(a) for a in spec["atoms"]], np.array(spec["pos"], dtype=float),
                                [tuple(b) for b in spec["bonds"]])


def spec_sizes(spec):
    sizes = []
    last = None
    for _, rn, rid in spec["atoms"]:
        if (rn, rid) != last:
            sizes.append(0)
            last = (rn, rid)
        sizes[-1] += 1
    return sizes


def spec_connected(spec):
    n = len(spec["atoms"])
    adj = {k: set() for k in range(n)}
    for a, b in spec["bonds"]:
        adj[a].add(b)
        adj[b].add(a)
    seen, todo = {0}, [0]
    while todo:
        x = todo.pop()
        for y in adj[x]:
            if y not in seen:
                seen.add(y)
                todo.append(y)
    return len(seen) == n


def gen_restr(rs, ns, ne, wild=False):
    kind = rs.choice(["none", "empty", "random", "random", "random", "dups", "complete"])
    if kind == "none":
        return None
    if kind == "empty":
        return []
    if kind == "complete":
        out = [(i, j) for i in range(ns) for j in range(ne)]
        return out[:30]
    m = int(rs.randint(1, 9))
    out = [(int(rs.randint(0, ns)), int(rs.randint(0, ne))) for _ in range(m)]
    if kind == "dups":
        out = out + [out[int(rs.randint(0, len(out)))] for _ in range(int(rs.randint(1, 4)))]
    if wild:
        for _ in range(int(rs.randint(1, 3))):
            k = int(rs.randint(0, len(out) + 1))
            out.insert(k, (int(rs.randint(-ns - 2, ns + 3)), int(rs.randint(-ne - 2, ne + 3))))
    return out


def gen_align_case(rs):
    mode = rs.choice(["any", "any", "any", "start_small", "start_big", "equal", "single"])
    ns, ne = int(rs.randint(1, 10)), int(rs.randint(1, 10))
    if mode == "start_small":
        ns, ne = min(ns, ne), max(ns, ne) + 1
    elif mode == "start_big":
        ns, ne = max(ns, ne) + 1, min(ns, ne)
    elif mode == "equal":
        ne = ns
    elif mode == "single":
        if rs.randint(2):
            ns = 1
        else:
            ne = 1
    noletter = 0.15 if rs.uniform() < 0.06 else 0.0
    same_res = rs.uniform() < 0.5
    nres = int(rs.choice([1, 1, 2, 3, 4]))
    s = gen_molspec(rs, ns, nres=nres, noletter=noletter)
    if same_res and nres <= ne:
        e = gen_molspec(rs, ne, nres=nres, noletter=noletter)
        # same residue names in the same order (sometimes shortened: substring rule)
        rn = []
        for a in s["atoms"]:
            if not rn or rn[-1][1] != a[2]:
                rn.append((a[1], a[2]))
        short = rs.uniform() < 0.3
        if len(rn) == len(spec_sizes(e)):
            for a in e["atoms"]:
                nm = rn[a[2] - 1][0]
                a[1] = nm[:2] if short else nm
    else:
        e = gen_molspec(rs, ne, noletter=noletter)
    # rarely: disconnect the molecule that will be mobile
    if rs.uniform() < 0.05:
        mob = s if ns < ne else e
        if len(mob["bonds"]) >= 1:
            mob["bonds"].pop(int(rs.randint(0, len(mob["bonds"]))))
    wild = rs.uniform() < 0.08
    restr = gen_restr(rs, ns, ne, wild)
    deform = [None, None, None, (0,), (0, 1, 2), (1, 2), (2,)][int(rs.randint(0, 7))]
    return {"kind": "align", "start": s, "end": e, "restr": [list(p) for p in restr] if restr is not None else None,
            "deform": list(deform) if deform is not None else None, "ign": bool(rs.randint(2)),
            "autog": bool(rs.uniform() < 0.85), "wild": bool(wild and restr is not None)}


# ------------------------------------------------------------------ implementation drivers
def _as_pairs(lst):
    """the caller's list as plain data (whatever the implementation left in it)"""
    out = []
    for p in lst:
        try:
            out.append([int(x) for x in p])
        except Exception:   # noqa
            out.append([repr(p)])
    return out


def _observe(ali, restr_obj, deform, ign, autog):
    """one ali.align_molecules(...) call with the optimiser entry point wrapped.
    Returns a dict: err | nocall | call{fixed_is_start, fixed_tags, mobile_tags, restr, deform} + raw arrays,
    and list_after (the caller's restraint list object as it is after the call)."""
    import gaddlemaps._alignment as A
    rec = []

    def recorder(*args, **kwargs):
        rec.append({"args": args, "kwargs": kwargs,
                    "start_pos": np.array(ali.start.atoms_positions), "end_pos": np.array(ali.end.atoms_positions)})
        return args[1]

    saved = A.minimize_molecules
    A.minimize_molecules = recorder
    out = None
    try:
        try:
            ali.align_molecules(restr_obj, deform, ign, autog)
        except Exception as ex:    # noqa
            out = {"err": err_of(ex), "exc": repr(ex)[:200], "calls": len(rec)}
    finally:
        A.minimize_molecules = saved
    after = _as_pairs(restr_obj) if restr_obj is not None else None
    if out is not None:
        out["list_after"] = after
        return out
    if not rec:
        return {"nocall": True, "list_after": after}
    if len(rec) > 1:
        return {"err": "ESystem", "exc": "optimiser called %d times" % len(rec), "calls": len(rec), "list_after": after}
    r = rec[0]
    a = r["args"]
    if len(a) != 9 or r["kwargs"]:
        return {"err": "ESystem", "exc": "unexpected optimiser signature", "calls": 1, "list_after": after}
    fixed, mobile = np.array(a[0], dtype=float).reshape(-1, 3), np.array(a[1], dtype=float).reshape(-1, 3)

    def tags(arr):
        out_ = []
        for row in arr:
            hit = [k for k, p in enumerate(r["start_pos"]) if (p == row).all()] + \
                  [100 + k for k, p in enumerate(r["end_pos"]) if (p == row).all()]
            out_.append(hit[0] if len(hit) == 1 else 999)
        return out_
    ft, mt = tags(fixed), tags(mobile)
    src = set(t // 100 for t in ft if t != 999)
    if ft:
        fixed_is_start = src == {0}
    else:
        fixed_is_start = not (len(mt) > 0 and all(t < 100 for t in mt))
    try:
        got = [(int(p[0]), int(p[1])) for p in a[5]]
    except Exception:   # noqa
        return {"err": "ESystem", "exc": "restraints received are not pairs of ints", "calls": 1, "list_after": after}
    return {"call": {"fixed_is_start": bool(fixed_is_start), "fixed_tags": ft, "mobile_tags": mt,
                     "restr": got, "deform": [int(x) for x in a[8]]},
            "fixed": fixed, "mobile": mobile, "start_pos": r["start_pos"], "end_pos": r["end_pos"], "list_after": after}


def run_align(case):
    """Alignment(start, end).align_molecules(restr, deform, ign, autog), one call"""
    import gaddlemaps._alignment as A
    start, end = build(case["start"]), build(case["end"])
    ali = A.Alignment(start, end)
    restr = [tuple(p) for p in case["restr"]] if case["restr"] is not None else None
    deform = tuple(case["deform"]) if case["deform"] is not None else None
    return _observe(ali, restr, deform, case["ign"], case["autog"])


def run_history(case):
    """2-3 consecutive align_molecules calls that share ONE restraint list object (same Alignment or a fresh one
    on the same molecules).  Returns one observation per call."""
    import gaddlemaps._alignment as A
    start, end = build(case["start"]), build(case["end"])
    ali = A.Alignment(start, end)
    lst = [tuple(p) for p in case["restr"]]          # the caller's list: built once, passed to every call
    out = []
    for c in case["calls"]:
        if c.get("fresh"):
            ali = A.Alignment(start, end)
        deform = tuple(c["deform"]) if c["deform"] is not None else None
        out.append(_observe(ali, lst, deform, c["ign"], c["autog"]))
    return out


def gen_history_case(rs):
    for _ in range(100):
        case = gen_align_case(rs)
        ns, ne = len(case["start"]["atoms"]), len(case["end"]["atoms"])
        if ne == 1:
            continue
        if rs.uniform() < 0.6 and not ns < ne:
            continue
        break
    restr = None
    while not restr:
        restr = gen_restr(rs, ns, ne, False)
    calls = []
    ign = bool(rs.randint(2))
    for k in range(int(rs.randint(2, 4))):
        deform = [None, (0, 1), (0, 1, 2), (0,), (2,)][int(rs.randint(0, 5))]
        if rs.uniform() < 0.25:
            ign = not ign
        calls.append({"deform": list(deform) if deform is not None else None, "ign": ign, "autog": True,
                      "fresh": bool(k > 0 and rs.uniform() < 0.4)})
    return {"kind": "history", "start": case["start"], "end": case["end"], "restr": [list(p) for p in restr], "calls": calls}


def history_call_case(case, k):
    """the k-th call of a history as a single-call case whose restraint list is the list the caller BUILT"""
    c = case["calls"][k]
    return {"kind": "align", "start": case["start"], "end": case["end"], "restr": case["restr"],
            "deform": c["deform"], "ign": c["ign"], "autog": c["autog"]}


def oracle_history(case, obs=None):
    """designation must hold on EVERY call made with the list, and the caller's list must be unchanged after each"""
    if obs is None:
        obs = run_history(case)
    bad, changed = [], []
    for k, o in enumerate(obs):
        for b in oracle_align(history_call_case(case, k), o):
            bad.append("call #%d: %s" % (k + 1, b))
        if not changed and o.get("list_after") != [list(p) for p in case["restr"]]:
            changed.append("call #%d: the caller's restraint list was changed: %s -> %s" % (k + 1, case["restr"], o.get("list_after")))
    return bad + changed


def run_remove(spec, restr):
    from gaddlemaps._alignment import remove_hydrogens
    mol = build(spec)
    allpos = np.array(mol.atoms_positions)
    try:
        pos, new = remove_hydrogens(mol, [tuple(p) for p in restr])
    except Exception as ex:   # noqa
        return {"err": err_of(ex)}
    tags = []
    for row in np.array(pos, dtype=float).reshape(-1, 3):
        hit = [k for k, p in enumerate(allpos) if (p == row).all()]
        tags.append(hit[0] if len(hit) == 1 else 999)
    return {"tags": tags, "restr": [(int(a), int(b)) for a, b in new]}


def run_element(name):
    from gaddlemaps.components import AtomGro
    try:
        return {"ok": AtomGro([1, "RES", name, 1, 0.0, 0.0, 0.0]).element}
    except Exception as ex:  # noqa
        return {"err": err_of(ex)}


_RESIDUES = {}


def residue_of_len(n):
    """a real Residue object with n atoms"""
    if n not in _RESIDUES:
        atoms = [("C%d" % k, "RES", 1) for k in range(n)]
        pos = np.arange(3 * n, dtype=float).reshape(n, 3) * 0.01
        mol = molgen.make_molecule("RES", atoms, pos, [(k, k + 1) for k in range(n - 1)])
        _RESIDUES[n] = mol.residues[0]
    return _RESIDUES[n]


def run_split(n, parts):
    from gaddlemaps._alignment import _split_list
    return [list(map(int, g)) for g in _split_list(list(range(n)), parts)]


def run_residue(n1, n2, o1, o2):
    from gaddlemaps._alignment import guess_residue_restrains
    return [(int(a), int(b)) for a, b in guess_residue_restrains(residue_of_len(n1), residue_of_len(n2), o1, o2)]


def run_protein(s1, s2):
    from gaddlemaps._alignment import guess_protein_restrains
    m1, m2 = build(s1), build(s2)
    try:
        return {"ok": [(int(a), int(b)) for a, b in guess_protein_restrains(m1, m2)]}
    except Exception as ex:  # noqa
        return {"err": err_of(ex)}


# ---- manager
def gen_system(rs):
    nsp = int(rs.randint(2, 4))
    names = [str(x) for x in rs.choice(["AAA", "BBB", "CCC", "DPPC", "SOL", "PRO"], size=nsp, replace=False)]
    species = []
    for k, nm in enumerate(names):
        ns = int(rs.randint(1, 6))
        s = gen_molspec(rs, ns, nres=1)
        for a in s["atoms"]:
            a[1] = nm
        has_end = not (k == nsp - 1 and rs.uniform() < 0.4)
        e = None
        if has_end:
            e = gen_molspec(rs, int(rs.randint(1, 6)), nres=1)
            for a in e["atoms"]:
                a[1] = nm
                a[0] = "B" + a[0][:4]
        species.append({"name": nm, "start": s, "end": e})
    order = list(range(nsp)) + [int(rs.randint(0, nsp)) for _ in range(int(rs.randint(0, 3)))]
    rs.shuffle(order)
    return {"species": species, "order": [int(o) for o in order]}


def build_manager(sysspec):
    from gaddlemaps import Manager
    recs = []
    aid = 1
    rng = np.random.RandomState(12345)
    for ri, k in enumerate(sysspec["order"]):
        sp = sysspec["species"][k]
        shift = rng.uniform(0, 6, 3)
        for (an, rn, _rid), p in zip(sp["start"]["atoms"], sp["start"]["pos"]):
            recs.append((ri + 1, rn, an, aid, np.array(p) + shift, None))
            aid += 1
    gro = molgen.write_gro(molgen.fresh_path("gro", "sys"), recs)
    itps = [molgen.write_itp(molgen.fresh_path("itp", sp["name"]), sp["name"], [tuple(a) for a in sp["start"]["atoms"]],
                             [tuple(b) for b in sp["start"]["bonds"]]) for sp in sysspec["species"]]
    man = Manager.from_files(gro, *itps)
    for sp in sysspec["species"]:
        if sp["end"] is not None:
            man.add_end_molecule(build(sp["end"], sp["name"]))
    return man


def gen_options(rs, sysspec, flavour):
    """option dictionaries as JSON-able values.  flavour: valid | unknown | malformed | mixed"""
    comp = [sp for sp in sysspec["species"] if sp["end"] is not None]
    allnames = [sp["name"] for sp in sysspec["species"]]
    incomplete = [sp["name"] for sp in sysspec["species"] if sp["end"] is None]

    def some(p=0.6):
        return [sp for sp in comp if rs.uniform() < p]
    restr = deform = ign = None
    if rs.uniform() < 0.8:
        restr = {}
        for sp in some():
            ns, ne = len(sp["start"]["atoms"]), len(sp["end"]["atoms"])
            v = rs.choice(["none", "empty", "list", "list", "neg"])
            if v == "none":
                restr[sp["name"]] = None
            elif v == "empty":
                restr[sp["name"]] = []
            else:
                lst = [[int(rs.randint(0, ns)), int(rs.randint(0, ne))] for _ in range(int(rs.randint(1, 5)))]
                if v == "neg":
                    lst.append([int(rs.randint(-ns, 0)), int(rs.randint(-ne, 0))])
                restr[sp["name"]] = lst
    if rs.uniform() < 0.7:
        deform = {}
        for sp in some():
            deform[sp["name"]] = [None, [], 0, [0], [0, 1], [0, 1, 2], [2, 1], [1]][int(rs.randint(0, 8))]
    if rs.uniform() < 0.7:
        ign = {}
        for sp in some():
            ign[sp["name"]] = bool(rs.randint(2))
    bad = None
    if flavour in ("unknown", "mixed"):
        which = int(rs.randint(0, 3))
        nm = incomplete[0] if incomplete and rs.uniform() < 0.5 else str(rs.choice(["ZZZ", "aaa", "AAA ", ""]))
        if nm in allnames and nm not in incomplete:
            nm = "ZZZ"
        if which == 0:
            restr = dict(restr or {})
            restr[nm] = None
        elif which == 1:
            deform = dict(deform or {})
            deform[nm] = None
        else:
            ign = dict(ign or {})
            ign[nm] = True
        bad = "unknown"
    if flavour in ("malformed", "mixed") and comp:
        sp = comp[int(rs.randint(0, len(comp)))]
        ns, ne = len(sp["start"]["atoms"]), len(sp["end"]["atoms"])
        which = int(rs.randint(0, 8))
        if which == 0:
            restr = dict(restr or {})
            restr[sp["name"]] = [[0, 0], [ns + int(rs.randint(0, 3)), 0]]
        elif which == 1:
            restr = dict(restr or {})
            restr[sp["name"]] = [[0, ne + int(rs.randint(0, 3))]]
        elif which == 2:
            restr = dict(restr or {})
            restr[sp["name"]] = [[0, 0, 0]] if rs.randint(2) else [[0]]
        elif which == 3:
            restr = dict(restr or {})
            restr[sp["name"]] = [[0, 0], 1]
        elif which == 4:
            restr = dict(restr or {})
            restr[sp["name"]] = [[-ns - 1, 0]] if rs.randint(2) else [[0, -ne - 1]]
        elif which == 5:
            deform = dict(deform or {})
            deform[sp["name"]] = [0, 1, 2, 0] if rs.randint(2) else int(rs.randint(1, 4))
        elif which == 6:
            ign = dict(ign or {})
            ign[sp["name"]] = [1, None, "yes", 0][int(rs.randint(0, 4))]
        else:
            deform = dict(deform or {})
            deform[sp["name"]] = [0, 1, 2, 1, 0]
        bad = "mixed" if bad else "malformed"
    return {"restr": restr, "deform": deform, "ign": ign, "bad": bad}


def py_options(opt):
    """JSON-able options -> the Python values handed to Manager.align_molecules"""
    restr = deform = ign = None
    if opt["restr"] is not None:
        restr = {}
        for k, v in opt["restr"].items():
            restr[k] = None if v is None else [tuple(e) if isinstance(e, list) else e for e in v]
    if opt["deform"] is not None:
        deform = {}
        for k, v in opt["deform"].items():
            deform[k] = tuple(v) if isinstance(v, list) else v
    if opt["ign"] is not None:
        ign = {}
        for k, v in opt["ign"].items():
            ign[k] = tuple(v) if isinstance(v, list) else v
    return restr, deform, ign


def run_manager(man, opt):
    """calls of Alignment.align_molecules made by Manager.align_molecules, and the error class"""
    import contextlib
    import io
    from gaddlemaps import Alignment
    calls = []
    owner = {id(ali): name for name, ali in man.molecule_correspondence.items()}

    def recorder(self, *args, **kwargs):
        calls.append({"species": owner.get(id(self), "?"), "args": args, "kwargs": kwargs})
    restr, deform, ign = py_options(opt)
    saved = Alignment.align_molecules
    Alignment.align_molecules = recorder
    err = None
    try:
        try:
            with contextlib.redirect_stdout(io.StringIO()):
                man.align_molecules(restr, deform, ign)
        except Exception as ex:  # noqa
            err = err_of(ex)
    finally:
        Alignment.align_molecules = saved
    return calls, err


def gen_options_np(rs, sysspec, man):
    """parse_restrictions once (real code), then the parsed dictionary re-ordered / restricted to a subset of the
    species and handed to align_molecules(..., parse_restrictions=False) once or twice.  JSON-able."""
    comp = [sp for sp in sysspec["species"] if sp["end"] is not None]
    user = {}
    for sp in comp:
        if rs.uniform() < 0.7:
            ns, ne = len(sp["start"]["atoms"]), len(sp["end"]["atoms"])
            user[sp["name"]] = [(int(rs.randint(0, ns)), int(rs.randint(0, ne))) for _ in range(int(rs.randint(1, 5)))]
    parsed = man.parse_restrictions(user if (user or rs.randint(2)) else None)
    names = list(parsed)
    rs.shuffle(names)
    if len(names) > 1 and rs.uniform() < 0.4:
        names = names[:int(rs.randint(1, len(names)))]
    pairs = [[nm, None if parsed[nm] is None else [list(map(int, p)) for p in parsed[nm]]] for nm in names]
    deform = ign = None
    if rs.uniform() < 0.85:
        deform = {}
        for sp in comp:
            if rs.uniform() < 0.6:
                deform[sp["name"]] = [[0], [0, 1], [0, 1, 2], [2, 1], [1], None][int(rs.randint(0, 6))]
    if rs.uniform() < 0.85:
        ign = {}
        for sp in comp:
            if rs.uniform() < 0.6:
                ign[sp["name"]] = bool(rs.randint(2))
    bad = None
    if rs.uniform() < 0.06:
        incomplete = [sp["name"] for sp in sysspec["species"] if sp["end"] is None]
        pairs.insert(int(rs.randint(0, len(pairs) + 1)), [incomplete[0] if incomplete else "ZZZ", None])
        bad = "np_unknown"
    return {"restr_np": pairs, "deform": deform, "ign": ign, "bad": bad, "ncalls": int(rs.randint(1, 3))}


def run_manager_np(man, opt):
    """man.align_molecules(parsed, deform, ign, parse_restrictions=False), `ncalls` times with the SAME dictionary
    and list objects.  Alignment.align_molecules is wrapped by a logger that snapshots its arguments and then runs
    the real method (with the optimiser entry point replaced by a no-op).  One (calls, err) per manager call."""
    import contextlib
    import copy
    import io
    import gaddlemaps._alignment as A
    from gaddlemaps import Alignment
    owner = {id(ali): name for name, ali in man.molecule_correspondence.items()}
    restr = {}
    for nm, v in opt["restr_np"]:
        restr[nm] = None if v is None else [tuple(p) for p in v]
    _r, deform, ign = py_options({"restr": None, "deform": opt["deform"], "ign": opt["ign"]})
    original = Alignment.align_molecules
    saved_min = A.minimize_molecules
    calls = []

    def logger(self, *args, **kwargs):
        calls.append({"species": owner.get(id(self), "?"), "args": copy.deepcopy(args), "kwargs": copy.deepcopy(kwargs)})
        return original(self, *args, **kwargs)
    out = []
    Alignment.align_molecules = logger
    A.minimize_molecules = lambda *a, **k: a[1]
    try:
        for _ in range(opt.get("ncalls", 1)):
            calls = []
            err = None
            try:
                with contextlib.redirect_stdout(io.StringIO()):
                    man.align_molecules(restr, deform, ign, parse_restrictions=False)
            except Exception as ex:  # noqa
                err = err_of(ex)
            out.append((calls, err))
    finally:
        Alignment.align_molecules = original
        A.minimize_molecules = saved_min
    return out


def oracle_manager_np(sysspec, opt, man=None, obs=None):
    """options given for a species reach the alignment of exactly that species - on every call made with the dictionary"""
    if opt.get("bad"):
        return []
    if obs is None:
        if man is None:
            man = build_manager(sysspec)
        obs = run_manager_np(man, opt)
    given = {nm: (None if v is None else [tuple(p) for p in v]) for nm, v in opt["restr_np"]}
    _r, deform, ign = py_options({"restr": None, "deform": opt["deform"], "ign": opt["ign"]})
    bad = []
    for k, (calls, err) in enumerate(obs):
        tag = "manager call #%d: " % (k + 1)
        if err is not None:
            bad.append(tag + "valid options rejected with %s" % err)
            break
        if sorted(c["species"] for c in calls) != sorted(given):
            bad.append(tag + "alignments called for %s, restraints were given for %s" % ([c["species"] for c in calls], list(given)))
            break
        for c in calls:
            nm = c["species"]
            a = list(c["args"])
            if c["kwargs"] or len(a) != 3:
                bad.append(tag + "unexpected call signature")
                continue
            want_d = (deform or {}).get(nm) or None
            want_i = (ign or {}).get(nm, True)
            got_r = [tuple(p) for p in a[0]] if a[0] is not None else None
            got_d = tuple(a[1]) if a[1] is not None else None
            if got_r != given[nm]:
                bad.append(tag + "species %s aligned with restraints %s, given %s" % (nm, got_r, given[nm]))
            if got_d != want_d:
                bad.append(tag + "species %s aligned with deformation types %s, given %s" % (nm, got_d, want_d))
            if a[2] is not want_i:
                bad.append(tag + "species %s aligned with ignore_hydrogens %s, given %s" % (nm, a[2], want_i))
        if bad:
            break
    return bad


# ------------------------------------------------------------------ Coq terms
def t_nat_list(l):
    return coq_list([str(int(x)) for x in l])


def t_z_list(l):
    return coq_list([coq_z(x) for x in l])


def t_zz_list(l):
    return coq_list(["(%s, %s)" % (coq_z(a), coq_z(b)) for a, b in l])


def t_nn_list(l):
    return coq_list(["(%d, %d)" % (a, b) for a, b in l])


def t_opt(x, f):
    return "None" if x is None else "(Some %s)" % f(x)


def t_bool(b):
    return "true" if b else "false"


def t_mol(spec, tag0):
    res = []
    last = None
    for k, (an, rn, rid) in enumerate(spec["atoms"]):
        if (rn, rid) != last:
            res.append((rn, []))
            last = (rn, rid)
        res[-1][1].append("mkAtom %s %d" % (lib.coq_bytes(an), tag0 + k))
    body = coq_list(["mkRes %s %s" % (lib.coq_bytes(rn), coq_list(ats)) for rn, ats in res])
    return "(mkMol %s %s)" % (body, t_bool(spec_connected(spec)))


def t_obs_align(o):
    if "err" in o:
        return "(OAErr %s)" % o["err"]
    if "nocall" in o:
        return "OANoCall"
    c = o["call"]
    return "(OACall %s %s %s %s %s)" % (t_bool(c["fixed_is_start"]), t_nat_list(c["fixed_tags"]),
                                      t_nat_list(c["mobile_tags"]), t_zz_list(c["restr"]), t_z_list(c["deform"]))


def t_rvalue(v):
    if v is None:
        return "None"
    return "(Some %s)" % coq_list(["(RTuple %s)" % t_z_list(e) if isinstance(e, (list, tuple)) else "RScalar" for e in v])


def t_dvalue(v):
    if v is None:
        return "DNone"
    if isinstance(v, (list, tuple)):
        return "(DSeq %s)" % t_z_list(v)
    return "(DScalar %s)" % coq_z(v)


def t_ivalue(v):
    if isinstance(v, bool):
        return "(IBool %s)" % t_bool(v)
    return "IOther"


def t_dict(d, f):
    if d is None:
        return "None"
    return "(Some %s)" % coq_list(["(%s, %s)" % (lib.coq_bytes(k), f(v)) for k, v in d.items()])


def t_trace(calls):
    out = []
    for c in calls:
        a = list(c["args"]) + [None] * 3
        if c["kwargs"] or len(c["args"]) != 3:
            return None
        restr, deform, ign = a[0], a[1], a[2]
        if not isinstance(ign, bool):
            return None
        out.append("(%s, %s, %s, %s)" % (lib.coq_bytes(c["species"]),
                                         t_opt(restr, lambda r: t_zz_list([(p[0], p[1]) for p in r])),
                                         t_opt(deform, t_z_list), t_bool(ign)))
    return coq_list(out)


def t_history(case, obs):
    entries = []
    for c, o in zip(case["calls"], obs):
        after = o.get("list_after") or []
        if any(len(p) != 2 or not all(isinstance(x, int) for x in p) for p in after):
            after = [[-99, -99]]      # not even a list of int pairs any more: cannot equal the model's list
        entries.append("(%s, %s, %s, %s, %s)" % (t_opt(c["deform"], t_z_list), t_bool(c["ign"]), t_bool(c["autog"]),
                                               t_obs_align(o), t_zz_list(after)))
    return "chk_history %s %s %s %s" % (t_mol(case["start"], 0), t_mol(case["end"], 100), t_zz_list(case["restr"]),
                                       coq_list(entries))


def t_np_dict(pairs):
    return "(Some %s)" % coq_list(["(%s, %s)" % (lib.coq_bytes(nm), t_opt(v, t_zz_list)) for nm, v in pairs])


# ------------------------------------------------------------------ S oracles (property text, no model)
def oracle_is_h(name):
    """the filtered hydrogens: atoms whose element - the first run of letters of the name - is exactly H"""
    run = ""
    for ch in name:
        if ("A" <= ch <= "Z") or ("a" <= ch <= "z"):
            run += ch
        elif run:
            break
    return run == "H"


def has_letter(name):
    return any(("A" <= ch <= "Z") or ("a" <= ch <= "z") for ch in name)


def oracle_align(case, obs=None):
    """every restraint (i, j) reaches the optimiser designating exactly those two atoms ... ; list of failed clauses"""
    if case.get("wild"):
        return []      # indices outside the molecules: outside the property's quantifier
    s, e = case["start"], case["end"]
    ns, ne = len(s["atoms"]), len(e["atoms"])
    if ne == 1:
        return []      # nothing is aligned (a single end atom): the property is about what reaches the optimiser
    if obs is None:
        obs = run_align(case)
    intended = case["restr"]
    if intended is None:
        intended = []
        if len(spec_sizes(s)) > 1 and case["autog"]:
            g = run_protein(s, e)
            if "err" in g:
                return [] if "err" in obs else ["guess refused but the alignment ran"]
            intended = g["ok"]

    def valid_for(swap_):
        mob, fix = (s, e) if swap_ else (e, s)
        return spec_connected(mob) and (not case["ign"] or all(has_letter(a[0]) for a in fix["atoms"]))
    if "call" not in obs:
        # no optimiser call: a violation only if the input is valid whichever molecule is taken as the fixed one
        roles = [ns < ne] if ns != ne else [True, False]
        if not all(valid_for(r) for r in roles):
            return []
        return ["alignment raised %s on a valid input" % obs.get("exc", obs["err"])] if "err" in obs else ["optimiser never called"]
    c = obs["call"]
    bad = []
    # which molecule is the mobile one is read off the call (the property does not fix the choice)
    mob_start = obs["mobile"].shape == obs["start_pos"].shape and bool((obs["mobile"] == obs["start_pos"]).all())
    mob_end = obs["mobile"].shape == obs["end_pos"].shape and bool((obs["mobile"] == obs["end_pos"]).all())
    if mob_start == mob_end:
        return ["the mobile positions are those of neither molecule (or of both)"]
    swap = mob_start
    fixed_spec = e if swap else s
    if not valid_for(swap):
        return []
    fixed_now = obs["end_pos"] if swap else obs["start_pos"]      # positions of the molecules at call time
    mobile_now = obs["start_pos"] if swap else obs["end_pos"]
    expect = []
    for i, j in intended:
        f, m = (j, i) if swap else (i, j)
        if case["ign"] and oracle_is_h(fixed_spec["atoms"][f][0]):
            continue
        expect.append((f, m))
    got = c["restr"]
    if len(got) != len(expect):
        bad.append("%d restraints reach the optimiser, %d expected (dropped iff fixed-side hydrogen)" % (len(got), len(expect)))
        return bad
    for (i2, j2), (f, m) in zip(got, expect):
        if not (0 <= i2 < len(obs["fixed"])) or not (0 <= j2 < len(obs["mobile"])):
            bad.append("received pair (%d, %d) out of range" % (i2, j2))
            break
        if not (obs["fixed"][i2] == fixed_now[f]).all():
            bad.append("pair (%d,%d): fixed_positions[%d] is not the position of the intended atom %d" % (f, m, i2, f))
            break
        if not (obs["mobile"][j2] == mobile_now[m]).all():
            bad.append("pair (%d,%d): mobile index %d is not the intended atom %d" % (f, m, j2, m))
            break
    return bad


def oracle_split(n, parts):
    g = run_split(n, parts)
    bad = []
    if len(g) != parts:
        bad.append("number of parts")
    if any(len(x) == 0 for x in g):
        bad.append("empty part")
    if [x for part in g for x in part] != list(range(n)):
        bad.append("concatenation differs from the input")
    if any(part != list(range(part[0], part[0] + len(part))) for part in g if part):
        bad.append("part not contiguous")
    return bad


def pairs_props(pairs, n1, n2, o1, o2):
    bad = []
    if set(a for a, _ in pairs) != set(range(o1, o1 + n1)):
        bad.append("an atom of the first residue has no partner or an index is out of range")
    if set(b for _, b in pairs) != set(range(o2, o2 + n2)):
        bad.append("an atom of the second residue has no partner or an index is out of range")
    if pairs != sorted(pairs):
        bad.append("atom order not preserved (not lexicographically ordered)")
    if any(a < a2 and b > b2 for a, b in pairs for a2, b2 in pairs):
        bad.append("atom order not preserved (crossing pairs)")
    return bad


def oracle_residue(n1, n2, o1, o2):
    return pairs_props(run_residue(n1, n2, o1, o2), n1, n2, o1, o2)


def oracle_protein(s1, s2):
    z1, z2 = spec_sizes(s1), spec_sizes(s2)
    r = run_protein(s1, s2)
    if len(z1) != len(z2):
        return [] if r.get("err") == "EIO" else ["different residue counts not refused with IOError"]
    if "err" in r:
        return []     # refused for its names: allowed (the property only forbids a silent mis-pairing)
    bad = []
    pairs = r["ok"]
    ri1 = [k for k, z in enumerate(z1) for _ in range(z)]
    ri2 = [k for k, z in enumerate(z2) for _ in range(z)]
    n1, n2 = len(ri1), len(ri2)
    if any(not (0 <= a < n1 and 0 <= b < n2) for a, b in pairs):
        return ["index out of range"]
    if any(ri1[a] != ri2[b] for a, b in pairs):
        bad.append("pair across residues at different sequence positions")
    if set(a for a, _ in pairs) != set(range(n1)) or set(b for _, b in pairs) != set(range(n2)):
        bad.append("an atom has no partner")
    if pairs != sorted(pairs) or any(a < a2 and b > b2 for a, b in pairs for a2, b2 in pairs):
        bad.append("atom order not preserved")
    return bad


def oracle_manager(sysspec, opt, man=None):
    """options reach the alignment of exactly that species; unknown names / malformed values rejected before any alignment"""
    if man is None:
        man = build_manager(sysspec)
    calls, err = run_manager(man, opt)
    comp = [sp["name"] for sp in sysspec["species"] if sp["end"] is not None]
    if opt["bad"]:
        bad = []
        if err is None:
            bad.append("%s option accepted" % opt["bad"])
        if calls:
            bad.append("%d alignments ran before the rejection" % len(calls))
        return bad
    if err is not None:
        return ["valid options rejected with %s" % err]
    bad = []
    if sorted(c["species"] for c in calls) != sorted(comp):
        bad.append("alignments called for %s, species with both resolutions are %s" % ([c["species"] for c in calls], comp))
        return bad
    restr, deform, ign = py_options(opt)
    for c in calls:
        nm = c["species"]
        a = list(c["args"])
        if c["kwargs"] or len(a) != 3:
            bad.append("unexpected call signature")
            continue
        want_r = (restr or {}).get(nm) or None
        want_d = (deform or {}).get(nm) or None
        want_i = (ign or {}).get(nm, True)
        got_r = [tuple(p) for p in a[0]] if a[0] is not None else None
        got_d = tuple(a[1]) if a[1] is not None else None
        if got_r != want_r:
            bad.append("species %s aligned with restraints %s, given %s" % (nm, got_r, want_r))
        if got_d != want_d:
            bad.append("species %s aligned with deformation types %s, given %s" % (nm, got_d, want_d))
        if a[2] is not want_i:
            bad.append("species %s aligned with ignore_hydrogens %s, given %s" % (nm, a[2], want_i))
    return bad


# ------------------------------------------------------------------ corpus (hand-picked witnesses of the anchored mechanisms)
def _spec(names, resn=None, bonds=None, d=0.0):
    n = len(names)
    resn = resn or [("RES", 1)] * n
    pos = [[0.1 * k + 0.013 * (k * k % 7) + d, 0.2 * ((k * 5) % 3) + 0.01 * k + d * d, 0.05 * k * k + 0.3 - 0.7 * d * k]
           for k in range(n)]
    return {"atoms": [[nm, r[0], r[1]] for nm, r in zip(names, resn)], "pos": pos,
            "bonds": bonds or [[k, k + 1] for k in range(n - 1)]}


CORPUS_ALIGN = [
    # start larger, hydrogens before the restrained atoms: the fixed-side index must be renumbered
    {"kind": "align", "start": _spec(["H0", "C1", "H2", "C3", "O4"]), "end": _spec(["B0", "B1", "B2"], d=0.37),
     "restr": [[1, 0], [3, 2], [0, 1], [4, 1], [3, 2]], "deform": None, "ign": True, "autog": True},
    # start smaller: roles swap, pairs reversed, hydrogens filtered out of the END molecule
    {"kind": "align", "start": _spec(["B0", "H1", "B2"]), "end": _spec(["H0", "C1", "1H", "C3", "O4", "HA5"], d=0.37),
     "restr": [[0, 1], [1, 3], [2, 5], [0, 0], [2, 2]], "deform": [0, 1], "ign": True, "autog": True},
    # same without filtering
    {"kind": "align", "start": _spec(["B0", "H1", "B2"]), "end": _spec(["H0", "C1", "1H", "C3", "O4", "HA5"], d=0.37),
     "restr": [[0, 1], [1, 3], [2, 5], [0, 0], [2, 2]], "deform": None, "ign": False, "autog": True},
    # multi-residue start, no restraints given: guessed, then swapped and filtered
    {"kind": "align", "start": _spec(["C0", "C1", "C2"], [("ALA", 1), ("GLY", 2), ("GLY", 2)]),
     "end": _spec(["N0", "H1", "C2", "H3", "O4", "C5", "H6"], [("ALA", 1)] * 4 + [("GLY", 2)] * 3, d=0.37),
     "restr": None, "deform": None, "ign": True, "autog": True},
    # equal sizes: start stays fixed
    {"kind": "align", "start": _spec(["H0", "C1", "C2"]), "end": _spec(["C0", "H1", "C2"], d=0.37),
     "restr": [[0, 0], [1, 1], [2, 2]], "deform": None, "ign": True, "autog": True},
]


def _data(name):
    import os
    import gaddlemaps
    return os.path.join(os.path.dirname(gaddlemaps.__file__), "data", name)


def corpus_demo1():
    """seeded/C10-1 witness: CUR CG (8 beads, start) aligned on CUR AA (41 atoms, end) twice with ONE restraint list
    (rigid pre-alignment, then the full one), hydrogens kept / filtered.  Packaged data."""
    import gaddlemaps._alignment as A
    from gaddlemaps.components import System
    bad = []
    for ign in (False, True):
        end = System(_data("CUR_AA.gro"), _data("CUR_AA.itp"))[0]
        start = System(_data("CUR_map.gro"), _data("CUR_CG.itp"))[0]
        ali = A.Alignment(start=start, end=end)
        heavy = [k for k, at in enumerate(ali.end) if not oracle_is_h(at.name)]
        hydro = [k for k, at in enumerate(ali.end) if oracle_is_h(at.name)]
        user = [(0, heavy[3]), (5, heavy[-1]), (2, hydro[0]), (7, heavy[10]), (1, heavy[1])]
        expected = [p for p in user if not (ign and p[1] in hydro)]
        lst = list(user)
        for n, deform in enumerate([(0, 1), (0, 1, 2)]):
            o = _observe(ali, lst, deform, ign, True)
            if "call" not in o:
                bad.append("ign=%s call #%d: no optimiser call (%s)" % (ign, n + 1, o.get("exc", "")))
                continue
            got = []
            for i2, j2 in o["call"]["restr"]:
                if not (0 <= i2 < len(o["fixed"]) and 0 <= j2 < len(o["mobile"])):
                    got.append(("out of range", i2, j2))
                    continue
                j = [k for k, p in enumerate(o["end_pos"]) if (p == o["fixed"][i2]).all()]
                i = [k for k, p in enumerate(o["start_pos"]) if (p == o["mobile"][j2]).all()]
                got.append((i[0] if len(i) == 1 else None, j[0] if len(j) == 1 else None))
            if got != expected:
                bad.append("ign=%s call #%d: the optimiser restrains (start, end) atoms %s, the user asked for %s"
                           % (ign, n + 1, got, expected))
            if lst != user:
                bad.append("ign=%s call #%d: the caller's restraint list was changed: %s" % (ign, n + 1, lst))
    return bad


def corpus_demo2():
    """seeded/C10-2 witness: BMIM/BF4 manager from the packaged data, restrictions parsed once, dictionary BF4-first,
    non-default options for BMIM only, align_molecules(parse_restrictions=False)."""
    from gaddlemaps import Manager
    from gaddlemaps.components import System
    system = System(_data("system_bmimbf4_cg.gro"), _data("BMIM_CG.itp"), _data("BF4_CG.itp"))
    man = Manager(system)
    man.add_end_molecule(System(_data("BMIM_AA.gro"), _data("BMIM_AA.itp"))[0])
    man.add_end_molecule(System(_data("BF4_AA.gro"), _data("BF4_AA.itp"))[0])
    parsed = man.parse_restrictions({"BF4": [(0, 0)], "BMIM": [(0, 0), (2, 5)]})
    opt = {"restr_np": [["BF4", [list(p) for p in parsed["BF4"]]], ["BMIM", [list(p) for p in parsed["BMIM"]]]],
           "deform": {"BMIM": [0, 1]}, "ign": {"BMIM": False}, "bad": None, "ncalls": 2}
    sysspec = {"species": [{"name": "BMIM", "end": True}, {"name": "BF4", "end": True}]}
    return oracle_manager_np(sysspec, opt, man)


CORPUS_HISTORY = [
    # one list, start smaller (roles swap): rigid pre-alignment then the full one, same Alignment
    {"kind": "history", "start": _spec(["B0", "H1", "B2"]), "end": _spec(["H0", "C1", "1H", "C3", "O4", "HA5"], d=0.37),
     "restr": [[0, 1], [1, 3], [2, 5], [0, 0]],
     "calls": [{"deform": [0, 1], "ign": False, "autog": True, "fresh": False},
               {"deform": [0, 1, 2], "ign": False, "autog": True, "fresh": False},
               {"deform": None, "ign": True, "autog": True, "fresh": True}]},
    # start larger (no swap)
    {"kind": "history", "start": _spec(["H0", "C1", "H2", "C3", "O4"]), "end": _spec(["B0", "B1", "B2"], d=0.37),
     "restr": [[1, 0], [3, 2], [0, 1]],
     "calls": [{"deform": [0, 1], "ign": True, "autog": True, "fresh": False},
               {"deform": None, "ign": True, "autog": True, "fresh": False}]},
]


def corpus(ctx):
    S = ctx.cov["S"]
    S["corpus"] = 0
    for case in CORPUS_ALIGN:
        bad = oracle_align(case)
        S["corpus"] += 1
        if bad:
            ctx.violation("align: " + "; ".join(bad), case, key="align")
    # (15, 11), (30, 13), (39, 37): lengths on which a floating-point part width loses the last atom (seeded/C10-3)
    for n1, n2 in [(1, 1), (3, 2), (2, 3), (7, 3), (3, 7), (40, 39), (15, 11), (11, 15), (30, 13), (39, 37)]:
        bad = oracle_residue(n1, n2, 5, 11)
        S["corpus"] += 1
        if bad:
            ctx.violation("guess_residue_restrains: " + "; ".join(bad), {"kind": "residue", "n1": n1, "n2": n2, "o1": 5, "o2": 11},
                          key="residue")
    bad = oracle_split(15, 11)
    S["corpus"] += 1
    if bad:
        ctx.violation("_split_list: " + "; ".join(bad), {"kind": "split", "n": 15, "parts": 11}, key="split")
    s1, s2 = two_residue_pair(np.random.RandomState(7), [15, 3], [11, 4])
    bad = oracle_protein(s1, s2)
    S["corpus"] += 1
    if bad:
        ctx.violation("guess_protein_restrains: " + "; ".join(bad), {"kind": "protein", "m1": s1, "m2": s2}, key="protein")
    for case in CORPUS_HISTORY:
        bad = oracle_history(case)
        S["corpus"] += 1
        if bad:
            ctx.violation("align history: " + "; ".join(bad), case, key="history")
    for name, fn in (("demo1", corpus_demo1), ("demo2", corpus_demo2)):
        bad = fn()
        S["corpus"] += 1
        if bad:
            ctx.violation("%s (packaged data): %s" % (name, "; ".join(bad)), {"kind": name}, key=name)


# ------------------------------------------------------------------ K
def _hist(h, k):
    h[k] = h.get(k, 0) + 1


def correspondence(ctx):
    rs = ctx.np_rng("K")
    cases, meta = [], []
    hist = {}

    def add(term, m):
        cases.append(term)
        meta.append(m)

    # ---- align
    n_align = ctx.n(700, 9000)
    align_cases = [dict(c) for c in CORPUS_ALIGN] + [gen_align_case(rs) for _ in range(n_align)]
    for case in align_cases:
        purge_tmp()
        obs = run_align(case)
        term = "chk_align %s %s %s %s %s %s %s" % (
            t_mol(case["start"], 0), t_mol(case["end"], 100),
            t_opt(case["restr"], t_zz_list), t_opt(case["deform"], t_z_list),
            t_bool(case["ign"]), t_bool(case["autog"]), t_obs_align(obs))
        add(term, case)
        ns, ne = len(case["start"]["atoms"]), len(case["end"]["atoms"])
        role = "start<end(swap)" if ns < ne else ("start=end" if ns == ne else "start>end")
        what = "err:" + obs["err"] if "err" in obs else ("nocall" if "nocall" in obs else "call")
        _hist(hist, "align/%s/%s/ignH=%d" % (role, what, case["ign"]))
        _hist(hist, "align/restr=" + ("None" if case["restr"] is None else ("[]" if not case["restr"] else
                                                                           ("wild" if case.get("wild") else "pairs"))))
        if "call" in obs:
            dropped = (len(case["restr"]) if case["restr"] is not None else 0) - len(obs["call"]["restr"])
            if case["restr"]:
                _hist(hist, "align/dropped>0" if dropped > 0 else "align/dropped=0")
        nontriv = bool(case["restr"]) or "err" in obs or case["restr"] is None and len(spec_sizes(case["start"])) > 1
        ctx.count(("align", json.dumps(case, sort_keys=True)), nontriv)
        # S on the same cases
        bad = oracle_align(case, obs)
        if bad:
            ctx.violation("align: " + "; ".join(bad), case, key="align")
    ctx.sample({k: align_cases[len(CORPUS_ALIGN)][k] for k in ("restr", "deform", "ign", "autog")})

    # ---- histories: several alignments with ONE restraint list object
    hist_cases = [dict(c) for c in CORPUS_HISTORY] + [gen_history_case(rs) for _ in range(ctx.n(250, 3000))]
    for case in hist_cases:
        purge_tmp()
        obs = run_history(case)
        add(t_history(case, obs), case)
        ns, ne = len(case["start"]["atoms"]), len(case["end"]["atoms"])
        _hist(hist, "history/%s/%d calls%s" % ("swap" if ns < ne else "noswap", len(case["calls"]),
                                               "/fresh" if any(c["fresh"] for c in case["calls"]) else ""))
        ctx.count(("history", json.dumps(case, sort_keys=True)), True)
        bad = oracle_history(case, obs)
        if bad:
            ctx.violation("align history: " + "; ".join(bad), case, key="history")
    ctx.sample({"kind": "history", "restr": hist_cases[-1]["restr"], "calls": hist_cases[-1]["calls"]})

    # ---- remove_hydrogens directly, element
    for _ in range(ctx.n(150, 2000)):
        n = int(rs.randint(1, 10))
        spec = gen_molspec(rs, n, noletter=0.15 if rs.uniform() < 0.1 else 0.0)
        restr = gen_restr(rs, n, 7, wild=rs.uniform() < 0.3) or []
        o = run_remove(spec, restr)
        obs = "(Err %s)" % o["err"] if "err" in o else "(Ok (%s, %s))" % (t_nat_list(o["tags"]), t_zz_list(o["restr"]))
        atoms = coq_list(["mkAtom %s %d" % (lib.coq_bytes(a[0]), k) for k, a in enumerate(spec["atoms"])])
        add("chk_remove %s %s %s" % (atoms, t_zz_list(restr), obs), {"kind": "remove", "mol": spec, "restr": [list(p) for p in restr]})
        _hist(hist, "remove_hydrogens")
        ctx.count(("remove", json.dumps(spec), restr), True)
    alphabet = list("HhCNOAZaz019_*'+- ")
    names = ["H", "1H", "H1", "HA", "h", "123", "_", "1H2", "H_C", "OH", "HH", "", "@H", "[H]", "`H", "{H", "ZH", "zH"]
    for _ in range(ctx.n(150, 1500)):
        names.append("".join(rs.choice(alphabet, size=int(rs.randint(1, 6)))))
    for nm in names:
        o = run_element(nm)
        obs = "(Err %s)" % o["err"] if "err" in o else "(Ok %s)" % lib.coq_bytes(o["ok"])
        add("chk_element %s %s" % (lib.coq_bytes(nm), obs), {"kind": "element", "name": nm})
        _hist(hist, "element")
        ctx.count(("element", nm), True)

    # ---- splitter and residue guesser: every size pair of the square
    N = ctx.n(12, 40)
    for n in range(0, N + 1):
        for parts in range(0, N + 1):
            g = run_split(n, parts)
            add("chk_split %d %d %s" % (n, parts, coq_list([t_nat_list(x) for x in g])), {"kind": "split", "n": n, "parts": parts})
            ctx.count(("split", n, parts), True)
    _hist(hist, "split_list sizes 0..%d x 0..%d" % (N, N))
    for n1 in range(1, N + 1):
        for n2 in range(1, N + 1):
            o1, o2 = int(rs.randint(0, 50)), int(rs.randint(0, 50))
            g = run_residue(n1, n2, o1, o2)
            add("chk_residue %d %d %d %d %s" % (n1, n2, o1, o2, t_nn_list(g)), {"kind": "residue", "n1": n1, "n2": n2, "o1": o1, "o2": o2})
            ctx.count(("residue", n1, n2, o1, o2), True)
            bad = pairs_props(g, n1, n2, o1, o2)
            if bad:
                ctx.violation("guess_residue_restrains: " + "; ".join(bad), meta[-1], key="residue")
    _hist(hist, "guess_residue sizes 1..%d x 1..%d" % (N, N))

    # ---- protein guesser
    for _ in range(ctx.n(250, 3000)):
        purge_tmp()
        s1, s2, kind = gen_protein_pair(rs)
        o = run_protein(s1, s2)
        obs = "(Err %s)" % o["err"] if "err" in o else "(Ok %s)" % t_nn_list(o["ok"])
        add("chk_protein %s %s %s" % (t_mol(s1, 0), t_mol(s2, 100), obs), {"kind": "protein", "m1": s1, "m2": s2})
        _hist(hist, "protein/%s/%s" % (kind, "err" if "err" in o else "ok"))
        ctx.count(("protein", json.dumps(s1), json.dumps(s2)), True)
        bad = oracle_protein(s1, s2)
        if bad:
            ctx.violation("guess_protein_restrains: " + "; ".join(bad), meta[-1], key="protein")

    # ---- manager routing
    n_sys = ctx.n(40, 400)
    untraceable = 0
    for _ in range(n_sys):
        purge_tmp()
        sysspec = gen_system(rs)
        man = build_manager(sysspec)
        names_mc = list(man.molecule_correspondence)
        mc = coq_list(["mkSpecies %s %d %s" % (lib.coq_bytes(nm), len(man.molecule_correspondence[nm].start),
                                                "None" if man.molecule_correspondence[nm].end is None
                                                else "(Some %d)" % len(man.molecule_correspondence[nm].end))
                       for nm in names_mc])
        for _k in range(8):
            flavour = str(rs.choice(["valid", "valid", "unknown", "malformed", "mixed"]))
            opt = gen_options(rs, sysspec, flavour)
            calls, err = run_manager(man, opt)
            tr = t_trace(calls)
            m = {"kind": "manager", "system": sysspec, "options": opt}
            if tr is None:
                untraceable += 1
                tr = "[]"
                err = err or "ESystem"
            add("chk_manager %s %s %s %s %s %s" % (mc, t_dict(opt["restr"], t_rvalue), t_dict(opt["deform"], t_dvalue),
                                                  t_dict(opt["ign"], t_ivalue), tr,
                                                  "None" if err is None else "(Some %s)" % err), m)
            _hist(hist, "manager/%s/%s" % (opt["bad"] or "valid", err or "ok"))
            ctx.count(("manager", json.dumps(m, sort_keys=True, default=str)),
                      bool(opt["bad"]) or any(opt[k] for k in ("restr", "deform", "ign")))
            bad = oracle_manager(sysspec, opt, man)
            if bad:
                ctx.violation("manager routing: " + "; ".join(bad), m, key="manager")
        # parse_restrictions=False: the parsed dictionary in the caller's key order, possibly used twice
        for _k in range(4):
            opt = gen_options_np(rs, sysspec, man)
            obs = run_manager_np(man, opt)
            m = {"kind": "manager_np", "system": sysspec, "options": opt}
            for k2, (calls, err) in enumerate(obs):
                tr = t_trace(calls)
                if tr is None:
                    untraceable += 1
                    tr = "[]"
                    err = err or "ESystem"
                add("chk_manager_np %s %s %s %s %s %s" % (mc, t_np_dict(opt["restr_np"]), t_dict(opt["deform"], t_dvalue),
                                                         t_dict(opt["ign"], t_ivalue), tr,
                                                         "None" if err is None else "(Some %s)" % err), dict(m, call=k2 + 1))
                _hist(hist, "manager_np/%s/call%d/%s" % (opt["bad"] or "valid", k2 + 1, err or "ok"))
            sysorder = [sp["name"] for sp in sysspec["species"] if sp["end"] is not None]
            given = [nm for nm, _v in opt["restr_np"]]
            _hist(hist, "manager_np/order=" + ("system" if given == sysorder else
                                               ("subset" if given == [x for x in sysorder if x in given] else "permuted")))
            ctx.count(("manager_np", json.dumps(m, sort_keys=True, default=str)), True)
            bad = oracle_manager_np(sysspec, opt, man, obs)
            if bad:
                ctx.violation("manager routing (parse_restrictions=False): " + "; ".join(bad), m, key="manager_np")
    ctx.sample({"kind": "manager", "options": [x for x in meta if x.get("kind") == "manager"][-1]["options"]})
    ctx.sample({"kind": "manager_np", "options": meta[-1]["options"]})

    codes, log = lib.run_coq_cases(ctx.cid, "K", HEADER, cases, shard=150)
    K = ctx.cov["K"]
    K["cases"] = len(cases)
    K["input_distribution"] = hist
    K["log"] = log
    K["manager_untraceable_calls"] = untraceable
    if codes is None:
        K["error"] = log
        return [{"error": "coqc failed on the correspondence cases", "log": log[-1500:]}]
    K["disagree"] = sum(1 for c in codes.values() if c in (1, 3))
    K["indeterminate"] = sum(1 for c in codes.values() if c == 2)
    K["agree"] = len(cases) - len(codes)
    dis = [dict(meta[i], code=c) for i, c in sorted(codes.items()) if c in (1, 3)]
    # 4.5: the oracle decides which side is wrong
    for d in dis[:50]:
        bad = oracle_on(d)
        if bad:
            ctx.violation(d["kind"] + ": " + "; ".join(bad), d, key=d["kind"])
    return dis


def gen_protein_pair(rs):
    kind = str(rs.choice(["same", "same", "similar", "different_names", "different_counts"]))
    nres = int(rs.randint(1, 6))
    pool = RESPOOL
    names = [str(x) for x in rs.choice(pool, size=nres, replace=False)]
    sizes1 = [int(rs.randint(1, 7)) for _ in range(nres)]
    nres2 = nres
    if kind == "different_counts":
        nres2 = max(1, nres + int(rs.choice([-2, -1, 1, 2])))
        if nres2 == nres:
            nres2 += 1
    names2 = (names + [x for x in pool if x not in names])[:nres2]
    if kind == "similar":
        cut = int(rs.randint(2))
        names2 = [nm[:2] if cut else nm[1:] for nm in names2]
        if rs.randint(2):
            names, names2 = names2, names
    elif kind == "different_names":
        k = int(rs.randint(0, nres2))
        names2 = list(names2)
        names2[k] = "XYZ" if rs.randint(2) else names2[k][::-1] + "Q"
    sizes2 = [int(rs.randint(1, 7)) for _ in range(nres2)]

    def mk(names_, sizes_):
        atoms = []
        k = 0
        for r, (nm, z) in enumerate(zip(names_, sizes_)):
            for _ in range(z):
                atoms.append(["C%d" % k, nm, r + 1])
                k += 1
        n = len(atoms)
        return {"atoms": atoms, "pos": rs.uniform(0, 3, (n, 3)).tolist(), "bonds": [[i, i + 1] for i in range(n - 1)]}
    return mk(names, sizes1), mk(names2, sizes2), kind


def two_residue_pair(rs, sizes1, sizes2):
    """two molecules with the same residue names and the given residue lengths (chains)"""
    names = [str(x) for x in rs.choice(RESPOOL, size=len(sizes1), replace=False)]

    def mk(sizes_):
        atoms = []
        k = 0
        for r, (nm, z) in enumerate(zip(names, sizes_)):
            for _ in range(z):
                atoms.append(["C%d" % k, nm, r + 1])
                k += 1
        n = len(atoms)
        return {"atoms": atoms, "pos": rs.uniform(0, 3, (n, 3)).tolist(), "bonds": [[i, i + 1] for i in range(n - 1)]}
    return mk(sizes1), mk(sizes2)


def oracle_on(d):
    k = d.get("kind")
    if k == "align":
        return oracle_align(d)
    if k == "split":
        return oracle_split(d["n"], d["parts"]) if 1 <= d["parts"] <= d["n"] else []
    if k == "residue":
        return oracle_residue(d["n1"], d["n2"], d["o1"], d["o2"])
    if k == "protein":
        return oracle_protein(d["m1"], d["m2"])
    if k == "manager":
        return oracle_manager(d["system"], d["options"])
    if k == "manager_np":
        return oracle_manager_np(d["system"], d["options"])
    if k == "history":
        return oracle_history(d)
    if k == "demo1":
        return corpus_demo1()
    if k == "demo2":
        return corpus_demo2()
    if k == "remove":
        # dropped iff the fixed-side atom is a filtered hydrogen, others kept in order, renumbered
        o = run_remove(d["mol"], d["restr"])
        names = [a[0] for a in d["mol"]["atoms"]]
        if not all(has_letter(nm) for nm in names):
            return []
        if "err" in o:
            return ["remove_hydrogens raised on a valid molecule"]
        kept = [k2 for k2, nm in enumerate(names) if not oracle_is_h(nm)]
        bad = []
        if o["tags"] != kept:
            bad.append("kept positions are not those of the non-hydrogen atoms")
        exp = [(kept.index(i), j) for i, j in d["restr"] if 0 <= i < len(names) and i in kept]
        inrange = all(0 <= i < len(names) for i, _ in d["restr"])
        if inrange and o["restr"] != exp:
            bad.append("restraints after filtering %s, expected %s" % (o["restr"], exp))
        return bad
    if k == "element":
        return []
    return []


# ------------------------------------------------------------------ S
def oracle(ctx, scale):
    rs = ctx.np_rng("S%d" % scale)
    S = ctx.cov["S"]
    fails = 0
    n = ctx.n(400, 5000) * scale
    for _ in range(n):
        purge_tmp()
        case = gen_align_case(rs)
        bad = oracle_align(case)
        ctx.count(("salign", json.dumps(case, sort_keys=True)), bool(case["restr"]) or case["restr"] is None)
        if bad:
            fails += 1
            ctx.violation("align: " + "; ".join(bad), case, key="align")
    S["align_x%d" % scale] = n
    nh = ctx.n(150, 2000) * scale
    for _ in range(nh):
        purge_tmp()
        case = gen_history_case(rs)
        bad = oracle_history(case)
        ctx.count(("shist", json.dumps(case, sort_keys=True)), True)
        if bad:
            fails += 1
            ctx.violation("align history: " + "; ".join(bad), case, key="history")
    S["align_history_x%d" % scale] = nh
    N = 40          # pure and cheap: the full grid of the property text in every tier (K's Coq grid stays 12 x 12 in quick)
    cnt = 0
    for nn in range(1, N + 1):
        for parts in range(1, nn + 1):
            bad = oracle_split(nn, parts)
            cnt += 1
            if bad:
                fails += 1
                ctx.violation("_split_list: " + "; ".join(bad), {"kind": "split", "n": nn, "parts": parts}, key="split")
    S["split_exhaustive_1<=parts<=n<=%d" % N] = cnt
    if scale == 1 or "residue_exhaustive_40x40" not in S:
        for n1 in range(1, 41):
            for n2 in range(1, 41):
                bad = oracle_residue(n1, n2, 3, 8)
                ctx.count(("sres", n1, n2), True)
                if bad:
                    fails += 1
                    ctx.violation("guess_residue_restrains: " + "; ".join(bad), {"kind": "residue", "n1": n1, "n2": n2, "o1": 3, "o2": 8},
                                  key="residue")
        S["residue_exhaustive_40x40"] = 1600
    # two-residue molecules with residue lengths up to 40 through guess_protein_restrains
    n2r = ctx.n(200, 1500) * scale
    for _ in range(n2r):
        purge_tmp()
        s1, s2 = two_residue_pair(rs, [int(x) for x in rs.randint(1, 41, size=2)], [int(x) for x in rs.randint(1, 41, size=2)])
        bad = oracle_protein(s1, s2)
        ctx.count(("sprot2", spec_sizes(s1), spec_sizes(s2)), True)
        if bad:
            fails += 1
            ctx.violation("guess_protein_restrains: " + "; ".join(bad), {"kind": "protein", "m1": s1, "m2": s2}, key="protein")
    S["protein_two_residues_len<=40_x%d" % scale] = n2r
    npz = ctx.n(150, 2000) * scale
    for _ in range(npz):
        purge_tmp()
        s1, s2, _kind = gen_protein_pair(rs)
        bad = oracle_protein(s1, s2)
        ctx.count(("sprot", json.dumps(s1), json.dumps(s2)), True)
        if bad:
            fails += 1
            ctx.violation("guess_protein_restrains: " + "; ".join(bad), {"kind": "protein", "m1": s1, "m2": s2}, key="protein")
    S["protein_x%d" % scale] = npz
    nm = ctx.n(25, 250) * scale
    cntm = 0
    for _ in range(nm):
        purge_tmp()
        sysspec = gen_system(rs)
        man = build_manager(sysspec)
        for _k in range(6):
            flavour = str(rs.choice(["valid", "valid", "unknown", "malformed"]))
            opt = gen_options_S(rs, sysspec, flavour)
            bad = oracle_manager(sysspec, opt, man)
            cntm += 1
            ctx.count(("sman", json.dumps([sysspec, opt], sort_keys=True, default=str)), True)
            if bad:
                fails += 1
                ctx.violation("manager routing: " + "; ".join(bad), {"kind": "manager", "system": sysspec, "options": opt}, key="manager")
        for _k in range(3):
            opt = gen_options_np(rs, sysspec, man)
            bad = oracle_manager_np(sysspec, opt, man)
            cntm += 1
            ctx.count(("sman_np", json.dumps([sysspec, opt], sort_keys=True, default=str)), True)
            if bad:
                fails += 1
                ctx.violation("manager routing (parse_restrictions=False): " + "; ".join(bad),
                              {"kind": "manager_np", "system": sysspec, "options": opt}, key="manager_np")
    S["manager_x%d" % scale] = cntm
    S["failures"] = S.get("failures", 0) + fails


def gen_options_S(rs, sysspec, flavour):
    """like gen_options, restricted to values whose reading is not debatable (no empty restraint lists, no
    negative indices, no falsy deformation scalars): the oracle never demands more than the property states"""
    for _ in range(50):
        opt = gen_options(rs, sysspec, flavour)
        ok = True
        for v in (opt["restr"] or {}).values():
            if v is not None and (len(v) == 0 or any(isinstance(e, list) and any(x < 0 for x in e) for e in v)):
                ok = False
        if flavour != "valid" and not opt["bad"]:
            ok = False
        if ok:
            return opt
    return {"restr": None, "deform": None, "ign": None, "bad": None}


def replay(ctx, obj):
    r = obj["replay"]
    if not isinstance(r, dict) or "kind" not in r:
        print("replay names a proof/correspondence, not an input:", r)
        return False
    bad = oracle_on(r)
    print(bad)
    return not bad


def finish(ctx):
    ctx.assumptions = [
        "positions are opaque in the model (an atom's position at the moment the optimiser is called); the geometry of "
        "move_to/minimize_molecules belongs to C06/C08/C09",
        "are_connected(mobile) is an input of the model (C15); translation width / n_steps / centre arguments are not modelled",
        "restraint indices are Python ints; in-range means 0 <= i < len (negative indices are accepted by the manager's "
        "validation through Python indexing and are modelled as such, the designation theorem assumes non-negative indices)",
        "Manager.align_molecules is modelled with parse_restrictions=True (the default) and guess_proteins=False (what it passes)",
        "dictionaries are association lists with unique keys (NoDup hypothesis in C10_routing)",
    ]
    return ctx.finish(level="proof", rule=RULE,
                      trusted=["re.findall('([A-Za-z]+)') written out as a string function (ASCII names)",
                               "Python list slicing / floor division / dict iteration order as transcribed in coq/Model/Restraints.v"])
