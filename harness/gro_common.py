"""Shared machinery of the .gro checks C13 (write/read round trip) and C14 (truncation):
generators, drivers of the real GroFile, Coq term writers, decimal bookkeeping.

Numbers cross the Python/Coq border as scaled integers, never as floats (DESIGN 3.3):
  to the writer model : (sign, mantissa) of  Decimal(format(x, '.<d>f'))  - what Python's own
                        formatting prints for x; that it is the correctly rounded decimal of x
                        is a property of CPython, re-checked here on every value with
                        decimal arithmetic (check_format_rounding).
  from the reader     : (sign, mantissa, decimals) of Decimal(repr(x)); equal in value to the
                        text that float() parsed whenever the text has <= 15 significant
                        digits (checked: cases beyond that are skipped and counted).
"""
import atexit
import decimal
import math
import os
import shutil
import tempfile
from decimal import Decimal

import numpy as np

import lib

decimal.getcontext().prec = 400

_TMP = None


def tmpdir():
    global _TMP
    if _TMP is None:
        # tmpfs when there is one: truncating a file on the ext4 root (mounted with discard) costs a
        # block-device round trip, and the truncation checks rewrite one small file ~10^5 times
        base = "/dev/shm" if os.path.isdir("/dev/shm") and os.access("/dev/shm", os.W_OK) else None
        _TMP = tempfile.mkdtemp(prefix="verif_gro_", dir=base)
        atexit.register(lambda: shutil.rmtree(_TMP, ignore_errors=True))
    return _TMP


def GroFile():
    from gaddlemaps.parsers import GroFile as G
    return G


# ----------------------------------------------------------------------------- decimals
class Skip(Exception):
    """case cannot be compared exactly (more than 15 significant digits, non-finite)"""


def dec_of_float(x, d):
    """(neg, mantissa) of the text Python prints for x with d decimals."""
    s = format(float(x), ".%df" % d)
    t = Decimal(s).as_tuple()
    if not isinstance(t.exponent, int):
        raise Skip("non-finite")
    m = int("".join(map(str, t.digits)))
    if t.exponent > 0:
        m *= 10 ** t.exponent
    elif -t.exponent != d:
        m *= 10 ** (d + t.exponent)
    return bool(t.sign), m


def check_format_rounding(x, d):
    """trusted-base check: format(x,'.df') is the decimal nearest to the exact binary value of x
    (ties to even)."""
    exact = Decimal(float(x))
    q = exact.quantize(Decimal(1).scaleb(-d), rounding=decimal.ROUND_HALF_EVEN)
    return q == Decimal(format(float(x), ".%df" % d))


def pdec_of_float(x):
    """(neg, mantissa, decimals) with the value of the shortest repr of x."""
    x = float(x)
    if not math.isfinite(x):
        raise Skip("non-finite value read")
    t = Decimal(repr(x)).as_tuple()
    digits = "".join(map(str, t.digits)).lstrip("0")
    if len(digits.rstrip("0")) > 15:
        raise Skip("more than 15 significant digits")
    m = int("".join(map(str, t.digits)))
    if t.exponent > 0:
        return bool(t.sign), m * 10 ** t.exponent, 0
    return bool(t.sign), m, -t.exponent


# ----------------------------------------------------------------------------- Coq terms
def cb(v):
    return "true" if v else "false"


def t_dec(x, d):
    neg, m = dec_of_float(x, d)
    return "D %s %d" % (cb(neg), m)


def t_dec3(v, d):
    return "(%s, %s, %s)" % tuple(t_dec(x, d) for x in v)


def t_pdec(x):
    neg, m, k = pdec_of_float(x)
    return "P %s %d %d" % (cb(neg), m, k)


def t_str(s):
    """Coq string term for an ASCII str (control characters allowed)."""
    return lib.coq_bytes(s)


def t_bytes(s):
    return "(bs %s)" % t_str(s)


def t_rec(r, d):
    """r = (resnum, resname, aname, anum, x, y, z[, vx, vy, vz])"""
    vel = "None" if len(r) == 7 else "(Some %s)" % t_dec3(r[7:10], d + 1)
    return "G (%d) %s %s (%d) %s %s" % (r[0], t_str(r[1]), t_str(r[2]), r[3], t_dec3(r[4:7], d), vel)


def t_bentry(x):
    neg, m = dec_of_float(x, 5)
    return "B %s %d %s" % (cb(neg), m, cb(float(x) != 0.0))


def t_box(box):
    """box = ('default',) | ('vec', [a,b,c]) | ('mat', 3x3 list)"""
    if box[0] == "default":
        return "BoxDefault"
    if box[0] == "vec":
        return "(BoxVec (%s) (%s) (%s))" % tuple(t_bentry(x) for x in box[1])
    flat = [x for row in box[1] for x in row]
    return "(BoxMat [%s])" % "; ".join(t_bentry(x) for x in flat)


def t_conf(conf):
    title = "None" if conf["title"] is None else "(Some %s)" % t_bytes(conf["title"])
    nat = "None" if conf["natoms"] is None else "(Some (%d)%%Z)" % conf["natoms"]
    fmt = "None" if conf["fmt"] is None else "(Some (%d, %d))" % tuple(conf["fmt"])
    return "(mkwconf %s %s %s %s)" % (title, nat, fmt, t_box(conf["box"]))


def t_atom(a):
    return "A (%d) %s %s (%d) [%s]" % (a[0], t_str(a[1]), t_str(a[2]), a[3],
                                      "; ".join(t_pdec(x) for x in a[4:]))


def t_robs(obs):
    if obs[0] == "err":
        return "(RErr %d)" % obs[1]
    _, comment, natoms, atoms, box = obs
    return "(ROk %s (%d)%%Z [%s] [%s])" % (
        t_bytes(comment), natoms, ";\n      ".join(t_atom(a) for a in atoms),
        "; ".join(t_pdec(x) for x in np.asarray(box, dtype=float).ravel()))


def t_pobs(obs, full_atoms):
    """partial-file observation for C14"""
    if obs[0] == "err":
        return "PErr %d" % obs[1]
    _, comment, natoms, atoms, box = obs
    same = full_atoms is not None and atoms == full_atoms
    return "PAcc %s (%d)%%Z [%s]" % (cb(same), natoms,
                                     "; ".join(t_pdec(x) for x in np.asarray(box, dtype=float).ravel()))


HEADER13 = """From GM Require Import Corr.CheckC13.
From Coq Require Import String.
Open Scope string_scope.
Notation length := List.length.
"""
HEADER14 = """From GM Require Import Corr.CheckC14.
From Coq Require Import String.
Open Scope string_scope.
Notation length := List.length.
"""


# ----------------------------------------------------------------------------- drivers
def exc_code(e):
    if isinstance(e, OSError):
        return 1
    if isinstance(e, IndexError):
        return 2
    if isinstance(e, ValueError):
        return 3
    if isinstance(e, StopIteration):
        return 4
    return 9


def effective_d(conf):
    return conf["fmt"][1] if conf["fmt"] is not None else GroFile().DEFAULT_POSTION_FORMAT[1]


def effective_w(conf):
    return conf["fmt"][0] if conf["fmt"] is not None else GroFile().DEFAULT_POSTION_FORMAT[0]


def apply_conf(g, conf):
    if conf["title"] is not None:
        g.comment = conf["title"]
    if conf["natoms"] is not None:
        g.natoms = conf["natoms"]
    if conf["fmt"] is not None:
        g.position_format = tuple(conf["fmt"])
    if conf["box"][0] == "vec":
        g.box_matrix = np.array(conf["box"][1], dtype=float)
    elif conf["box"][0] == "mat":
        g.box_matrix = np.array(conf["box"][1], dtype=float)


# first writer run of this process for each (width, decimals, velocities): a failure that depends on what
# the process did before (state shared between GroFile objects) is replayed as [earlier run(s), failing run]
WRITER_HISTORY = []
_history_keys = set()


def note_run(conf, recs):
    if not recs:
        return
    key = (effective_w(conf), effective_d(conf), len(recs[0]))
    if key not in _history_keys:
        _history_keys.add(key)
        WRITER_HISTORY.append((key, conf, [tuple(r) for r in recs[:2]]))


def call_plan(conf, recs):
    """[(style, chunk)]: how the records reach the writer.  conf['calls'] = [[style, size], ...] with style
    'line' (writeline once per record) or 'lines' (one writelines(chunk) call, the chunk may be empty);
    default: writeline for every record.  The model does not distinguish them (writelines is a loop of
    writeline in the code)."""
    calls = conf.get("calls")
    if not calls:
        return [("line", [tuple(r)]) for r in recs]
    out, i = [], 0
    for style, size in calls:
        chunk = [tuple(r) for r in recs[i:i + size]]
        i += size
        if style == "lines":
            out.append(("lines", chunk))
        else:
            out += [("line", [r]) for r in chunk]
    out += [("line", [tuple(r)]) for r in recs[i:]]
    return out


def write_records(g, conf, recs, after=None):
    """feed the records to the writer following the call plan; after(j) is called after each call with the
    number of records handed over so far"""
    j = 0
    for style, chunk in call_plan(conf, recs):
        if style == "lines":
            g.writelines(list(chunk))
        else:
            g.writeline(chunk[0])
        j += len(chunk)
        if after is not None:
            after(j)


def gen_calls(rs, n):
    """a random split of n records into chunks, each written by writeline calls or by one writelines call;
    empty writelines calls and a final writelines call included"""
    calls, left = [], n
    while left > 0:
        size = int(rs.randint(1, left + 1)) if rs.randint(0, 3) else left
        calls.append(["lines" if rs.randint(0, 3) else "line", size])
        left -= size
        if rs.randint(0, 5) == 0:
            calls.append(["lines", 0])
    if rs.randint(0, 2) and calls[-1][0] != "lines":
        calls[-1][0] = "lines"              # the last call is a writelines call
    if rs.randint(0, 6) == 0:
        calls.insert(0, ["lines", 0])
    return calls


def run_writer(path, conf, recs):
    """('file', text) or ('err', code)"""
    note_run(conf, recs)
    g = None
    try:
        g = GroFile()(path, "w")
        apply_conf(g, conf)
        write_records(g, conf, recs)
        g.close()
    except Exception as e:  # noqa: BLE001 - the class is the observation
        try:
            if g is not None:
                g._file.close()
        except Exception:  # noqa: BLE001
            pass
        return ("err", exc_code(e))
    with open(path, "rb") as f:
        data = f.read()
    return ("file", data.decode("latin-1"))


def opened(obs):
    """did GroFile(path) itself succeed (the file was accepted on opening), whatever readlines() did later?"""
    return obs[0] == "ok" or (obs[0] == "err" and len(obs) > 2 and obs[2] == "read")


def run_reader(path):
    """('ok', comment, natoms, atoms, box) or ('err', code, phase) with phase 'open' (GroFile(path) raised) or
    'read' (the file was accepted on opening, readlines() raised)"""
    g = None
    try:
        g = GroFile()(path)
        atoms = g.readlines()
        box = np.array(g.box_matrix, dtype=float)
        out = ("ok", g.comment, g.natoms, [tuple(a) for a in atoms], box)
        g._file.close()
        return out
    except BaseException as e:  # noqa: BLE001
        if isinstance(e, (KeyboardInterrupt, SystemExit)):
            raise
        try:
            if g is not None:
                g._file.close()
        except Exception:  # noqa: BLE001
            pass
        return ("err", exc_code(e), "open" if g is None else "read")


_rp = [None]


def read_text(text):
    """run the real reader on the given file content"""
    if _rp[0] is None:
        _rp[0] = os.path.join(tmpdir(), "partial.gro")
    with open(_rp[0], "wb") as f:
        f.write(text.encode("latin-1"))
    return run_reader(_rp[0])


class SnapFile:
    """Proxy for the writer's file object: forwards everything, records the file content
    (flushed) after every write/seek call."""

    def __init__(self, real, path):
        object.__setattr__(self, "_real", real)
        object.__setattr__(self, "_path", path)
        object.__setattr__(self, "events", [])

    def _snap(self, what):
        self._real.flush()
        with open(self._path, "rb") as f:
            self.events.append((what, f.read().decode("latin-1")))

    def write(self, s):
        r = self._real.write(s)
        self._snap("write")
        return r

    def seek(self, *a):
        r = self._real.seek(*a)
        self._snap("seek")
        return r

    def __getattr__(self, k):
        return getattr(self._real, k)


def run_writer_snapshots(path, conf, recs):
    """Returns (ops, fine): ops = [(j, text)] file after the first j model operations
    (j = 0..len(recs)+3: records, count step, seek, box line written in one operation);
    fine = [(label, text)] the file after every single write/seek call of the file object (finer
    than the model's operations), labelled 'partial' (a later write call is still to come) or
    'complete' (after the last write call)."""
    g = GroFile()(path, "w")
    proxy = SnapFile(g._file, path)
    g._file = proxy
    apply_conf(g, conf)

    def now():
        proxy._real.flush()
        with open(path, "rb") as f:
            return f.read().decode("latin-1")
    ops = [(0, now())]
    write_records(g, conf, recs, after=lambda j: ops.append((j, now())) if j != ops[-1][0] else None)
    n = len(recs)
    mark = len(proxy.events)
    g._write_closing_info()
    proxy._real.flush()
    ev = proxy.events[mark:]
    writes = [t for w, t in ev if w == "write"]
    declared = conf["natoms"] is not None
    # undeclared: write calls of close = [count back-fill, ..., last]; declared: [..., last]
    after_count = ops[-1][1] if declared else writes[0]
    final = now()
    ops += [(n + 1, after_count), (n + 2, after_count), (n + 3, final)]
    last_write = max(k for k, (w, t) in enumerate(proxy.events) if w == "write")
    fine = [("partial" if k < last_write else "complete", t) for k, (w, t) in enumerate(proxy.events)]
    proxy._real.close()
    return ops, fine


# ----------------------------------------------------------------------------- generators
NAME_CHARS = "".join(chr(c) for c in range(33, 127))
NUM_BOUNDARIES = [0, 1, 9, 10, 99998, 99999, 100000, 100001, 199999, 200000, 9999999, 10000000,
                  12345, 54321, 100000 * 37 + 5]


def gen_name(rs, plain=False):
    n = int(rs.randint(1, 6))
    if plain or rs.randint(0, 3):
        alphabet = "ABCDEFGHIJKLMNOPQRSTUVWXYZabcdefghijklmnopqrstuvwxyz0123456789+-*'_"
    else:
        alphabet = NAME_CHARS
    return "".join(alphabet[int(rs.randint(0, len(alphabet)))] for _ in range(n))


def gen_number(rs):
    k = rs.randint(0, 10)
    if k < 3:
        return int(NUM_BOUNDARIES[int(rs.randint(0, len(NUM_BOUNDARIES)))])
    if k < 6:
        return int(rs.randint(0, 100000))
    return int(rs.randint(0, 10 ** 7 + 1))


def gen_value(rs, int_digits, d, allow_wide=False):
    """a float whose '.df' text has at most int_digits integer digits (a sign costs one)."""
    kind = int(rs.randint(0, 12))
    neg = bool(rs.randint(0, 2))
    digits = int_digits - (1 if neg else 0)
    top = 10.0 ** digits
    unit = 10.0 ** (-d)
    if kind == 0:
        x = 0.0
    elif kind == 1:                       # rounding boundary  k + 0.5 units
        k = int(rs.randint(0, min(10 ** (digits + d), 10 ** 9)))
        x = (k + 0.5) * unit
    elif kind == 2:                       # just inside the widest value that fits
        x = top - unit * float(rs.choice([0.51, 0.75, 1.0, 1.5, 3.0]))
    elif kind == 3:                       # tiny, rounds to (-)0.000
        x = unit * float(rs.uniform(0, 0.5))
    elif kind == 4:
        x = float(rs.randint(0, int(top)))
    elif kind == 5:
        x = round(float(rs.uniform(0, top * 0.999)), d)
    else:
        x = 10.0 ** float(rs.uniform(-d - 1, digits)) * 0.999
    if allow_wide and rs.randint(0, 4) == 0:   # too wide for the field (K only)
        x = top * float(rs.choice([1.0, 1.5, 10.0, 123.4]))
    x = -x if neg else x
    # keep only values whose text really has <= int_digits characters before the point
    s = format(x, ".%df" % d)
    if not allow_wide and len(s.split(".")[0]) > int_digits:
        return gen_value(rs, int_digits, d, allow_wide)
    if abs(x) >= 1e8:
        return gen_value(rs, int_digits, d, allow_wide)
    return float(x)


OFF_SLOTS = [(0, 1), (0, 2), (1, 0), (1, 2), (2, 0), (2, 1)]
TINY = [1e-6, 4.9e-6, 5e-6, 5.1e-6, 1e-5, 1e-9]


def gen_box(rs, wide=False):
    """default / 3-vector / diagonal 3x3 / triclinic.  The triclinic ones enumerate the situations the
    3-or-9-numbers rule of dump_lattice_gro has to get right: a single off-diagonal entry (either sign, each
    slot), random subsets with mixed signs, entries that cancel exactly in pairs and in triples (a signed
    sum is 0.0), all-negative entries, tiny entries around the written precision (both signs), zeros and
    negative zeros in some slots, and generic dense matrices."""
    kind = int(rs.randint(0, 16))

    def diagval():
        return abs(gen_value(rs, 3, 5))

    def dyadic():
        return float(int(rs.randint(1, 41))) / 8.0 * float(2 ** int(rs.randint(-2, 3)))

    def offval():
        k = int(rs.randint(0, 6))
        if k == 0:
            return float(rs.choice(TINY)) * float(rs.choice([-1.0, 1.0]))
        if k == 1:
            return dyadic() * float(rs.choice([-1.0, 1.0]))
        return gen_value(rs, 3, 5)
    if kind == 0:
        return ("default",)
    if kind in (1, 2):
        return ("vec", [diagval() for _ in range(3)])
    m = [[0.0] * 3 for _ in range(3)]
    for i in range(3):
        m[i][i] = diagval()
    if kind == 3:
        return ("mat", m)
    slots = [OFF_SLOTS[int(i)] for i in rs.permutation(6)]
    if kind == 4:                          # one entry, either sign
        (i, j) = slots[0]
        m[i][j] = offval() or 0.75
    elif kind == 5:                        # one negative entry
        (i, j) = slots[0]
        m[i][j] = -abs(offval() or 0.75)
    elif kind == 6:                        # random subset, mixed signs
        for (i, j) in slots[:int(rs.randint(1, 7))]:
            m[i][j] = offval()
    elif kind == 7:                        # exactly cancelling pair  a, -a
        a = dyadic() if rs.randint(0, 2) else abs(gen_value(rs, 3, 5)) or 1.5
        (i, j), (k, l) = slots[0], slots[1]
        m[i][j], m[k][l] = a, -a
    elif kind == 8:                        # exactly cancelling triple  a, b, -(a+b)  (dyadic: the sum is exact)
        a, b = dyadic(), dyadic()
        for (i, j), v in zip(slots[:3], [a, b, -(a + b)]):
            m[i][j] = v
    elif kind == 9:                        # two cancelling pairs / pair plus zeros and negative zeros
        a, b = dyadic(), dyadic()
        for (i, j), v in zip(slots[:6], [a, -a, b, -b, -0.0, 0.0]):
            m[i][j] = v
    elif kind == 10:                       # all-negative entries in a subset (or all) of the slots
        for (i, j) in slots[:int(rs.randint(1, 7))]:
            m[i][j] = -abs(offval() or 0.5)
    elif kind == 11:                       # tiny entries around the written precision, both signs
        for (i, j) in slots[:int(rs.randint(1, 4))]:
            m[i][j] = float(rs.choice(TINY)) * float(rs.choice([-1.0, 1.0]))
    elif kind == 12:                       # tiny entries that cancel
        t = float(rs.choice(TINY))
        (i, j), (k, l) = slots[0], slots[1]
        m[i][j], m[k][l] = t, -t
    elif kind == 13:                       # GROMACS-style triclinic (v1(y)=v1(z)=v2(z)=0), tilts of either sign
        m[1][0], m[2][0], m[2][1] = offval(), offval(), offval()
    else:                                  # dense
        for (i, j) in OFF_SLOTS:
            m[i][j] = offval()
    return ("mat", m)


NONASCII_CHARS = "\u00c5\u00b0\u00b5\u00e9\u00fc\u20ac\u6c34\u7bb1\u03b1"   # A-ring degree micro e-acute u-umlaut euro CJK CJK alpha


def nonascii_ok():
    """titles with multi-byte characters are only generated when the interpreter's text encoding (the one
    open() uses for the .gro files) can encode them (UTF-8 here)"""
    import locale
    try:
        NONASCII_CHARS.encode(locale.getpreferredencoding(False))
        return True
    except (UnicodeError, LookupError):
        return False


def gen_title_nonascii(rs):
    """S only (the Coq model is ASCII): 1-3 multi-byte characters among printable ASCII"""
    n = int(rs.randint(1, 30))
    chars = "".join(chr(c) for c in range(32, 127))
    t = [chars[int(rs.randint(0, len(chars)))] for _ in range(n)]
    for _ in range(int(rs.randint(1, 4))):
        t.insert(int(rs.randint(0, len(t) + 1)), NONASCII_CHARS[int(rs.randint(0, len(NONASCII_CHARS)))])
    return "".join(t)


def gen_title(rs):
    k = int(rs.randint(0, 8))
    if k == 0:
        return None
    if k == 6:
        return ""                          # empty title: the title line is a bare newline
    if k == 7:
        return "\n"                        # the setter strips it: same as the empty title
    n = int(rs.randint(1, 40))
    chars = "".join(chr(c) for c in range(32, 127))
    t = "".join(chars[int(rs.randint(0, len(chars)))] for _ in range(n))
    if k == 1:
        t += "\n"                          # the setter strips one newline
    return t


def gen_case(rs, natoms=None, allow_wide=False, fmt_d=None, vel=None, declared=None, nonascii=False):
    """a well-formed writer run: conf + records (all records with or without velocities);
    nonascii: one title in four contains multi-byte characters (S oracles only)"""
    if natoms is None:
        natoms = int(rs.choice([1, 1, 2, 2, 3, 3, 4, 5, 6, 8, 12, 20]))
    if fmt_d is None:
        fmt_d = int(rs.randint(0, 7))      # 0 = leave the default format
    fmt = None if fmt_d == 0 else (fmt_d + 5, fmt_d)
    d = 3 if fmt is None else fmt_d
    if vel is None:
        vel = bool(rs.randint(0, 2))
    if declared is None:
        declared = bool(rs.randint(0, 2))
    recs = []
    for _ in range(natoms):
        r = [gen_number(rs), gen_name(rs), gen_name(rs), gen_number(rs)]
        r += [gen_value(rs, 4, d, allow_wide) for _ in range(3)]
        if vel:
            r += [gen_value(rs, 3, d + 1, allow_wide) for _ in range(3)]
        recs.append(tuple(r))
    title = gen_title(rs)
    if nonascii and rs.randint(0, 4) == 0 and nonascii_ok():
        title = gen_title_nonascii(rs)
    conf = {"title": title, "natoms": natoms if declared else None, "fmt": fmt,
            "box": gen_box(rs)}
    if rs.randint(0, 2):
        conf["calls"] = gen_calls(rs, natoms)   # mixed writeline / writelines call pattern
    return conf, recs


def to_crlf(text):
    """the same file with CRLF line ends (text = bytes as latin-1 characters, no CR in it)"""
    return text.replace("\n", "\r\n")


def run_failclose(path, conf, recs, use_with):
    """Fault sequences around an announced count that differs from len(recs): the records are handed to the
    writer and close() is reached (explicitly, or by leaving a with block - also when a writeline raised inside
    it); the program then drops the writer.  Returns (code of the exception that escaped or None, bytes left on
    disk, the reader's observation on them, whether close() completed)."""
    import gc as _gc
    raised = [None]
    closed = [False]

    def run():
        if use_with:
            out = GroFile()(path, "w")
            try:
                with out:
                    apply_conf(out, conf)
                    write_records(out, conf, recs)
            finally:
                closed[0] = bool(out._file.closed)
        else:
            out = GroFile()(path, "w")
            apply_conf(out, conf)
            write_records(out, conf, recs)
            out.close()
            closed[0] = True
    try:
        run()
    except Exception as e:  # noqa: BLE001
        raised[0] = exc_code(e)
    _gc.collect()                           # whatever was buffered reaches the disk
    with open(path, "rb") as f:
        text = f.read().decode("latin-1")
    return raised[0], text, run_reader(path), closed[0]


def numeric_line(text, index):
    """is the index-th atom line of the file made of numeric tokens only (it then parses as a box line)?"""
    lines = text.split("\n")
    if 2 + index >= len(lines):
        return False
    toks = lines[2 + index].split()
    try:
        [float(t) for t in toks]
        return True
    except ValueError:
        return False


def run_abandoned(path, conf, recs, k, box_late):
    """The scenario of a program that fails while exporting: the writer is created in a function, k records are
    written, the code producing the next record raises, close() is never called and nothing keeps the
    writer; after gc.collect() the file left on disk is opened.  Returns the reader's observation."""
    import gc as _gc

    def produce():
        for i, r in enumerate(recs):
            if i == k:
                raise RuntimeError("record %d could not be computed" % i)
            yield tuple(r)
        raise RuntimeError("failure after the last record, before close")

    def export():
        out = GroFile()(path, "w")
        c = dict(conf)
        if box_late:
            c["box"] = ("default",)         # the caller would have set the box just before close()
        apply_conf(out, c)
        for r in produce():
            out.writeline(r)
        out.close()                         # never reached
    try:
        export()
    except RuntimeError:
        pass
    _gc.collect()
    return run_reader(path)


def case_json(conf, recs):
    return {"conf": conf, "recs": [list(r) for r in recs]}


def case_from_json(o):
    conf = dict(o["conf"])
    conf["box"] = tuple(conf["box"])
    if conf["fmt"] is not None:
        conf["fmt"] = tuple(conf["fmt"])
    return conf, [tuple(r) for r in o["recs"]]


def all_values_ok(conf, recs):
    """trusted-base re-check of Python's formatting on every value of the case"""
    d = effective_d(conf)
    ok = True
    for r in recs:
        for x in r[4:7]:
            ok = ok and check_format_rounding(x, d)
        for x in r[7:10]:
            ok = ok and check_format_rounding(x, d + 1)
    return ok
