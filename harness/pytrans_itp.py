"""Fail-closed translator for the guard-chain text kernel of gaddlemaps/parsers/_itp_parse.py, ItpLine.parse_itp_line,
to Gallina over `str` (= list ascii) (second tie, DESIGN.md section 4.6).

Subset.  The body is a docstring followed by guards `if <cond>: <branch>` and a final `return`.
<branch> ::= return <ret> | raise IOError(...) | <name> = <S>.split('<c>') ; return <ret>
<cond>   ::= not <S>.strip() | re.match(r'\\[.*\\]', <S>) | <S>.startswith('<c>') | '<c>' in <S> | <S>[-1] == '<c>'
<ret>    ::= <S>, <S>
<S>      ::= name | '' | <S>[:] | <S>[1:] | <S>[:-1] | <L>[0] | '<c>'.join(<L>)
<L>      ::= name of a split result | <L>[1:]
`x[-1]` and `l[0]` are translated with their IndexError (py_last / nth_res); the regular expression is accepted only as
the literal pattern \\[.*\\] whose model is Base/StrItp.re_header.  Anything else raises Unsupported, and the generated file
then does not compile.
"""
import ast
import os
import textwrap


class Unsupported(Exception):
    pass


S, L = "S", "L"
HEADER_RE = r"\[.*\]"


def ch(n):
    if isinstance(n, ast.Constant) and isinstance(n.value, str) and len(n.value) == 1 and n.value.isprintable() \
            and n.value != '"':
        return '"%s"%%char' % n.value
    raise Unsupported("not a one-character literal: %s" % ast.dump(n))


def minus1(x):
    return isinstance(x, ast.UnaryOp) and isinstance(x.op, ast.USub) and isinstance(x.operand, ast.Constant) \
        and x.operand.value == 1


def const(x, v):
    return isinstance(x, ast.Constant) and x.value == v and not isinstance(x.value, bool)


class Tr:
    def __init__(self):
        self.fresh = 0

    def new(self, stem):
        self.fresh += 1
        return "%s__%d" % (stem, self.fresh)

    def sexpr(self, n, env, pre):
        """(text, type)"""
        if isinstance(n, ast.Name):
            if n.id not in env:
                raise Unsupported("unknown name %s" % n.id)
            return env[n.id]
        if isinstance(n, ast.Constant) and n.value == "":
            return "[]", S
        if isinstance(n, ast.Subscript):
            t, ty = self.sexpr(n.value, env, pre)
            sl = n.slice
            if isinstance(sl, ast.Slice):
                if sl.step is not None:
                    raise Unsupported("slice step")
                if sl.lower is None and sl.upper is None:
                    return t, ty
                if sl.upper is None and const(sl.lower, 1):
                    return "(skipn 1 %s)" % t, ty
                if sl.lower is None and minus1(sl.upper) and ty == S:
                    return "(removelast %s)" % t, S
                raise Unsupported("slice outside the subset")
            if const(sl, 0) and ty == L:
                nm = self.new("h")
                pre.append((nm, "nth_res %s 0" % t))
                return nm, S
            raise Unsupported("index outside the subset")
        if isinstance(n, ast.Call) and isinstance(n.func, ast.Attribute) and n.func.attr == "join" \
                and len(n.args) == 1 and not n.keywords:
            c = ch(n.func.value)
            t, ty = self.sexpr(n.args[0], env, pre)
            if ty != L:
                raise Unsupported("join of %s" % ty)
            return "(join_on %s %s)" % (c, t), S
        raise Unsupported("expression %s" % type(n).__name__)

    def cond(self, n, env, pre):
        if isinstance(n, ast.UnaryOp) and isinstance(n.op, ast.Not) and isinstance(n.operand, ast.Call) \
                and isinstance(n.operand.func, ast.Attribute) and n.operand.func.attr == "strip" \
                and not n.operand.args and not n.operand.keywords:
            t, ty = self.sexpr(n.operand.func.value, env, pre)
            if ty != S:
                raise Unsupported("strip of %s" % ty)
            return "(is_blank %s)" % t
        if isinstance(n, ast.Call) and isinstance(n.func, ast.Attribute) and isinstance(n.func.value, ast.Name) \
                and n.func.value.id == "re" and n.func.attr == "match" and len(n.args) == 2 and not n.keywords:
            if not const(n.args[0], HEADER_RE):
                raise Unsupported("regular expression %r is not the modelled pattern" % (getattr(n.args[0], "value", None),))
            t, ty = self.sexpr(n.args[1], env, pre)
            if ty != S:
                raise Unsupported("re.match on %s" % ty)
            return "(re_header %s)" % t
        if isinstance(n, ast.Call) and isinstance(n.func, ast.Attribute) and n.func.attr == "startswith" \
                and len(n.args) == 1 and not n.keywords:
            t, ty = self.sexpr(n.func.value, env, pre)
            if ty != S:
                raise Unsupported("startswith on %s" % ty)
            return "(startswith %s %s)" % (ch(n.args[0]), t)
        if isinstance(n, ast.Compare) and len(n.ops) == 1 and isinstance(n.ops[0], ast.In):
            t, ty = self.sexpr(n.comparators[0], env, pre)
            if ty != S:
                raise Unsupported("in on %s" % ty)
            return "(mem %s %s)" % (ch(n.left), t)
        if isinstance(n, ast.Compare) and len(n.ops) == 1 and isinstance(n.ops[0], ast.Eq) \
                and isinstance(n.left, ast.Subscript) and minus1(n.left.slice):
            t, ty = self.sexpr(n.left.value, env, pre)
            if ty != S:
                raise Unsupported("[-1] on %s" % ty)
            nm = self.new("c")
            pre.append((nm, "py_last %s" % t))
            return "(Ascii.eqb %s %s)" % (nm, ch(n.comparators[0]))
        raise Unsupported("condition %s" % ast.dump(n)[:80])

    @staticmethod
    def wrap(pre, body):
        for nm, rhs in reversed(pre):
            body = "let* %s := %s in\n%s" % (nm, rhs, body)
        return body

    def ret(self, n, env):
        if not (isinstance(n, ast.Return) and isinstance(n.value, ast.Tuple) and len(n.value.elts) == 2):
            raise Unsupported("return shape")
        pre = []
        a, ta = self.sexpr(n.value.elts[0], env, pre)
        b, tb = self.sexpr(n.value.elts[1], env, pre)
        if ta != S or tb != S:
            raise Unsupported("returned types")
        return self.wrap(pre, "Ok (%s, %s)" % (a, b))

    def branch(self, stmts, env):
        if len(stmts) == 1 and isinstance(stmts[0], ast.Raise):
            e = stmts[0].exc
            f = e.func if isinstance(e, ast.Call) else e
            if isinstance(f, ast.Name) and f.id in ("IOError", "OSError") and stmts[0].cause is None:
                return "Err EIO"
            raise Unsupported("raise outside the subset")
        if len(stmts) == 1:
            return self.ret(stmts[0], env)
        if len(stmts) == 2 and isinstance(stmts[0], ast.Assign) and len(stmts[0].targets) == 1 \
                and isinstance(stmts[0].targets[0], ast.Name):
            v = stmts[0].value
            if not (isinstance(v, ast.Call) and isinstance(v.func, ast.Attribute) and v.func.attr == "split"
                    and len(v.args) == 1 and not v.keywords):
                raise Unsupported("assignment in a branch is not a split")
            pre = []
            t, ty = self.sexpr(v.func.value, env, pre)
            if ty != S or pre:
                raise Unsupported("split on %s" % ty)
            nm = stmts[0].targets[0].id
            env2 = dict(env)
            env2[nm] = (nm, L)
            return "let %s := split_on %s %s in\n%s" % (nm, ch(v.args[0]), t, self.ret(stmts[1], env2))
        raise Unsupported("branch shape")

    def block(self, stmts, env):
        if not stmts:
            raise Unsupported("function falls off its end")
        s, rest = stmts[0], stmts[1:]
        if isinstance(s, ast.Expr) and isinstance(s.value, ast.Constant) and isinstance(s.value.value, str):
            return self.block(rest, env)
        if isinstance(s, ast.If) and not s.orelse:
            pre = []
            c = self.cond(s.test, env, pre)
            return self.wrap(pre, "if %s then\n%s\nelse\n%s" % (c, textwrap.indent(self.branch(s.body, env), "  "),
                                                               self.block(rest, env)))
        if isinstance(s, ast.Return) and not rest:
            return self.ret(s, env)
        raise Unsupported("statement %s" % type(s).__name__)


HEADER = """(* GENERATED at every run from the source text of /repo by harness/pytrans_itp.py.  Do not edit. *)
From Coq Require Import List Ascii Bool.
From GM Require Import Base.Res Base.StrItp.
Import ListNotations.

(* meaning of the Python primitives of the subset *)
Definition py_last (s : str) : res ascii :=                     (* s[-1] *)
  match last_opt s with Some c => Ok c | None => Err EIndex end.
Fixpoint split_on (d : ascii) (s : str) : list str :=           (* s.split(d), d one character *)
  match s with
  | [] => [[]]
  | c :: r => if Ascii.eqb c d then [] :: split_on d r else cons_first c (split_on d r)
  end.
Fixpoint join_on (d : ascii) (l : list str) : str :=            (* d.join(l) *)
  match l with
  | [] => []
  | [x] => x
  | x :: r => x ++ d :: join_on d r
  end.

"""


def generate(repo):
    src = open(os.path.join(repo, "gaddlemaps", "parsers", "_itp_parse.py")).read()
    tree = ast.parse(src)
    cls = next((n for n in tree.body if isinstance(n, ast.ClassDef) and n.name == "ItpLine"), None)
    if cls is None:
        raise Unsupported("class ItpLine not found")
    fn = next((n for n in cls.body if isinstance(n, ast.FunctionDef) and n.name == "parse_itp_line"), None)
    if fn is None:
        raise Unsupported("ItpLine.parse_itp_line not found")
    if [a.arg for a in fn.args.args] != ["cls", "line"] or fn.args.defaults or fn.args.vararg or fn.args.kwarg:
        raise Unsupported("parse_itp_line: parameters changed")
    if [ast.dump(d) for d in fn.decorator_list] != [ast.dump(ast.Name(id="classmethod", ctx=ast.Load()))]:
        raise Unsupported("parse_itp_line: decorators changed")
    # a subclass overriding the function would bypass it
    for n in ast.walk(tree):
        if isinstance(n, ast.FunctionDef) and n.name == "parse_itp_line" and n is not fn:
            raise Unsupported("parse_itp_line is defined more than once")
    body = Tr().block(fn.body, {"line": ("line", S)})
    return HEADER + "Definition parse_itp_line_gen (line : str) : res (str * str) :=\n%s.\n" % textwrap.indent(body, "  ")


if __name__ == "__main__":
    import sys
    print(generate(sys.argv[1] if len(sys.argv) > 1 else "/repo"))
