"""C08 - the overlap measure chi2 equals its reference definition for all restraint sets."""
import copy
import itertools
import math

import numpy as np

import lib
from lib import fl, v3

HEADER = """From GM Require Import Corr.CorrBase Corr.CheckC08.
Open Scope float_scope.
"""

RULE = ("fixed x mobile sizes 1..40 x 1..25 (a third of the cases biased to <= 6 atoms); geometry: independent clouds, "
        "mobile atoms scattered around a subset of the fixed atoms (many distinct nearest neighbours), mobile atoms in a "
        "tight cluster (large k); restraint lists: empty (None or []), partial, partial with a fixed atom repeated "
        "(different and identical partners), complete, complete with repeats; list order shuffled; evaluation configuration "
        "= independent draw / rigid motion + noise of the construction one (5% the same one). Dyadic stream: integer "
        "coordinates in [-4,4] / 2^k (k <= 3), exact binary64 arithmetic, exact ties frequent. Error stream: a restraint "
        "index out of range on either side. Call sequences: half of the calculators (every restraint kind, hence every path) "
        "are evaluated 2-5 times on the SAME object: independent redraws, the atoms of an earlier configuration with their "
        "positions permuted (nearest-neighbour labels change), rigid motion + noise, and exact returns to an earlier "
        "configuration; every call is one K case and one S evaluation. Coincidence stream: decimal (non-dyadic) coordinates up "
        "to 50 nm from the origin, the mobile configuration contains exact copies of all (perfect overlap) or of a subset of "
        "the fixed atoms, restraints matched to the copies or random, all restraint kinds: S demands value >= 0 with no "
        "tolerance on the sign and exactly 0.0 when every term of the definition is exactly 0; K accepts 0 <= x <= 2^-60 "
        "where the model gives exactly 0. Rigid motions in S: rotation + |t| <= 2 x extent, and rotation + |t| log-uniform in "
        "[1, 1e4] nm, capped per case at the largest |t| for which the a-priori rounding bound of the unchanged algorithm, "
        "8 eps (|t| + extent) sum(d) / sum(d^2), stays below 1e-10 = a tenth of the 1e-9 relative tolerance (measured on the "
        "unchanged tree: worst relative change 1.5e-11 over 14 500 capped motions, 26% of them with |t| >= 1000 nm; uncapped "
        "1.0e-10 at |t| = 1e4 and 1.3e-9 at 1e5 over 3 000 cases); rows with a relative gap < 1e-6 between the two nearest atoms "
        "are excluded from the far motion. Argument types: a third of the generic and dyadic calculators receive their three "
        "coordinate arguments as int64 / int32 / float32 / float64 ndarrays, lists of lists or tuples of tuples (coordinates "
        "rescaled to an extent of 4, integer-typed sets rounded; the reference is computed from the VALUES passed): anything "
        "without restraints; with restraints the fixed and evaluated sets are ndarrays of any dtype (the unchanged code indexes "
        "them with index arrays) and the construction set anything; a third of the typed cases have an integer fixed array; "
        "not generated: fixed and evaluated set BOTH float32 with restraints. In-place sequences: later calls may pass the SAME "
        "ndarray object as the previous call after `x[...] = new` / np.copyto / single-row assignment (translation, rotation "
        "written back, one atom moved), or the very object the calculator was constructed with (also changed in place "
        "afterwards); after the constructor and after every call the caller's fixed, construction and evaluated arrays are "
        "compared bit for bit with snapshots. A case is non-trivial when it is distinct and has more than one atom on some "
        "side; the histogram records path taken, restraint kind, k, ties.")

EPS = 2.0 ** -53
T_FAR = 1e4      # largest translation (nm) of the far rigid-motion oracle
FAR_MARGIN = 0.1  # the a-priori rounding bound of the unchanged algorithm must stay below FAR_MARGIN * TOL
STATS = {"calls_with_every_term_exactly_0": 0, "far_rigid_motions": 0, "far_rigid_motions_beyond_1000nm": 0}
TIE = 1e-9       # relative gap of the two smallest squared distances below which "nearest" is undecided
TOL = 1e-9       # relative tolerance of the S oracle


# ------------------------------------------------------------------ generators
def gen_sizes(rs):
    if rs.randint(3) == 0:
        return int(rs.randint(1, 7)), int(rs.randint(1, 7))
    return int(rs.randint(1, 41)), int(rs.randint(1, 26))


def gen_restr(rs, n1, n2, kind):
    """restraint list (list of (fixed index, mobile index)) of the requested kind"""
    if kind == "empty":
        return []
    if kind in ("partial", "dup_fixed") and n1 == 1:
        kind = "complete" if kind == "partial" else "complete_dup"
    if kind in ("partial", "dup_fixed"):
        p = int(rs.randint(1, n1))
        fixed_idx = list(rs.choice(n1, size=p, replace=False))
    else:
        fixed_idx = list(range(n1))
    r = [(int(i), int(rs.randint(n2))) for i in fixed_idx]
    if kind in ("dup_fixed", "complete_dup"):
        for _ in range(int(rs.randint(1, 4))):
            i, j = r[rs.randint(len(r))]
            if rs.randint(2):
                r.append((i, j))                       # the same pair again
            else:
                r.append((i, int(rs.randint(n2))))     # the same fixed atom, another partner
    rs.shuffle(r)
    return [(int(i), int(j)) for i, j in r]


RESTR_KINDS = ["empty", "partial", "partial", "dup_fixed", "complete", "complete_dup"]


def random_rotation(rs, proper=True):
    q, r = np.linalg.qr(rs.normal(size=(3, 3)))
    q = q * np.sign(np.diag(r))
    if proper and np.linalg.det(q) < 0:
        q[:, 0] = -q[:, 0]
    return q


def gen_geometry(rs, n1, n2):
    scale = 10 ** rs.uniform(-1, 0.7)
    geo = rs.choice(["independent", "around", "around", "cluster"])
    m1 = rs.uniform(-1, 1, size=(n1, 3)) * scale
    if geo == "independent":
        m2 = rs.uniform(-1, 1, size=(n2, 3)) * scale
    elif geo == "around":
        m2 = m1[rs.randint(n1, size=n2)] + rs.normal(size=(n2, 3)) * scale * rs.uniform(0.02, 0.4)
    else:
        m2 = rs.uniform(-1, 1, size=3) * scale + rs.normal(size=(n2, 3)) * scale * 0.05
    if n2 >= 2 and rs.randint(40) == 0:
        # two mobile atoms at (numerically) the same distance from fixed atom 0: mirror images up to 1e-13
        geo = "neartie"
        d = rs.normal(size=3) * 0.01 * scale
        m2[0] = m1[0] + d
        m2[1] = m1[0] - d * (1 + rs.choice([0.0, 1e-13, -1e-13, 1e-11]))
    return geo, scale, m1, m2


def gen_case(rs, rkind=None):
    n1, n2 = gen_sizes(rs)
    geo, scale, m1, m2e = gen_geometry(rs, n1, n2)
    how = rs.randint(20)
    if how == 0:
        m2c = m2e.copy()
    elif how < 10:
        m2c = rs.uniform(-1, 1, size=(n2, 3)) * scale
    else:
        m2c = (m2e - m2e.mean(axis=0)) @ random_rotation(rs).T + rs.uniform(-1, 1, size=3) * scale \
            + rs.normal(size=(n2, 3)) * 0.05 * scale
    rkind = rkind or RESTR_KINDS[rs.randint(len(RESTR_KINDS))]
    restr = gen_restr(rs, n1, n2, rkind)
    return add_types(rs, add_sequence(rs, {"stream": "generic", "geo": geo, "rkind": rkind, "m1": m1.tolist(),
                                           "m2c": m2c.tolist(), "restr": restr, "m2e": m2e.tolist(),
                                           "none_arg": bool(rs.randint(2))}))


def gen_dyadic(rs, rkind=None):
    n1, n2 = gen_sizes(rs)
    if rs.randint(2):
        n1, n2 = min(n1, 12), min(n2, 8)
    den = 2.0 ** rs.randint(0, 4)
    span = int(rs.choice([1, 2, 4]))

    def pts(n):
        return rs.randint(-span, span + 1, size=(n, 3)).astype(float) / den
    rkind = rkind or RESTR_KINDS[rs.randint(len(RESTR_KINDS))]
    return add_types(rs, add_sequence(rs, {"stream": "dyadic", "geo": "lattice%d" % span, "rkind": rkind,
                                           "m1": pts(n1).tolist(), "m2c": pts(n2).tolist(),
                                           "restr": gen_restr(rs, n1, n2, rkind), "m2e": pts(n2).tolist(),
                                           "none_arg": bool(rs.randint(2))}))


def seq_of(case):
    """the configurations the calculator is evaluated on, in call order"""
    return [case["m2e"]] + list(case.get("more", []))


def add_sequence(rs, case, force=False):
    """with probability 1/2: 1-4 further configurations for the same calculator object"""
    if not force and rs.randint(2):
        return case
    n2 = len(case["m2e"])
    dyadic = case["stream"] == "dyadic"
    ext = max(1e-3, float(np.abs(np.array(case["m1"])).max()))
    seq = [np.array(case["m2e"], dtype=float)]
    n_more = int(rs.randint(1, 5))
    kinds = []
    hows = []
    for t in range(n_more):
        how = rs.choice(["redraw", "shuffle", "move", "revisit", "ip_translate", "ip_rotate", "ip_atom", "ip_translate",
                         "construction"])
        if how == "revisit" and len(seq) < 2:
            how = "shuffle"
        if how in ("move", "ip_rotate") and dyadic:
            how = "redraw" if how == "move" else "ip_atom"
        prev = seq[rs.randint(len(seq))]
        last = seq[-1]
        if how == "ip_translate":
            # `pos += shift` on the array object evaluated by the previous call
            shift = rs.randint(-3, 4, size=3) / 2.0 if dyadic else rs.uniform(-0.5, 0.5, size=3) * ext
            new = last + shift
        elif how == "ip_rotate":
            # `pos[:] = rotated` written back into the same array object
            new = (last - last.mean(axis=0)) @ random_rotation(rs).T + last.mean(axis=0)
        elif how == "ip_atom":
            # a single atom moved in place
            new = last.copy()
            new[rs.randint(n2)] += rs.randint(-2, 3, size=3) / 2.0 if dyadic else rs.normal(size=3) * 0.3 * ext
        elif how == "construction":
            # the very object the calculator was built with
            new = np.array(case["m2c"], dtype=float)
        elif how == "redraw":
            if dyadic:
                den = 2.0 ** rs.randint(0, 4)
                new = rs.randint(-4, 5, size=(n2, 3)).astype(float) / den
            else:
                new = rs.uniform(-1, 1, size=(n2, 3)) * ext
        elif how == "shuffle":
            new = prev[rs.permutation(n2)].copy()
        elif how == "move":
            new = (prev - prev.mean(axis=0)) @ random_rotation(rs).T + prev.mean(axis=0) \
                + rs.uniform(-0.3, 0.3, size=3) * ext + rs.normal(size=(n2, 3)) * 0.05 * ext
        else:
            new = seq[rs.randint(len(seq) - 1)].copy()      # an EARLIER configuration, not the last one
        kinds.append(how)
        hows.append({"ip_translate": "inplace", "ip_rotate": "inplace", "ip_atom": "inplace_rows",
                     "construction": "construction"}.get(how, "fresh"))
        seq.append(new)
    case["more"] = [c.tolist() for c in seq[1:]]
    case["more_how"] = hows
    case["seq_kinds"] = kinds
    return case


ND_KINDS = ["float64", "float32", "int64", "int32"]
ALL_KINDS = ND_KINDS + ["list", "tuple"]


def conv(values, kind):
    """the VALUES of a coordinate set in the container / dtype `kind` (float64 when they are not representable)"""
    a = np.array(values, dtype=float).reshape(-1, 3)
    if kind in ("int64", "int32", "float32"):
        b = a.astype(kind)
        if (b.astype(float) == a).all():
            return b
        return a
    if kind == "list":
        return [[float(x) for x in p] for p in a]
    if kind == "tuple":
        return tuple(tuple(float(x) for x in p) for p in a)
    return a


def add_types(rs, case, force=False):
    """with probability 1/3: the three coordinate arguments are passed as int64 / int32 / float32 / float64 ndarrays, lists
    of lists or tuples of tuples - whatever the unchanged code accepts: without restraints anything, with restraints the
    fixed and the evaluated set must be ndarrays (they are indexed with an index array), the construction set may be
    anything (only its length is used).  Not generated: fixed AND evaluated set both float32 with restraints (numpy then
    forms the restrained differences in single precision, 4e-8 relative).  Coordinates are rescaled to an extent of 4 and
    the integer-typed sets rounded, so that the VALUES stored in the case are exactly what is passed."""
    if not force and rs.randint(3):
        return case
    free = not case["restr"]
    kinds = {"m1": (ALL_KINDS if free else ND_KINDS)[rs.randint(6 if free else 4)],
             "m2c": ALL_KINDS[rs.randint(6)],
             "m2e": (ALL_KINDS if free else ND_KINDS)[rs.randint(6 if free else 4)]}
    if rs.randint(3) == 0:
        kinds["m1"] = ["int64", "int32"][rs.randint(2)]      # integer lattice for the fixed molecule, as the suite does
    if not free and kinds["m1"] == "float32" and kinds["m2e"] == "float32":
        kinds["m2e"] = "float64"
    if not free and kinds["m1"] == "float32" and kinds["m2c"] == "float32" and "construction" in case.get("more_how", []):
        kinds["m2c"] = "float64"       # the construction object is evaluated too
    ext = max(1e-9, max(float(np.abs(np.array(a, dtype=float)).max()) for a in [case["m1"], case["m2c"]] + seq_of(case)))
    f = 1.0 if case["stream"] == "dyadic" else 4.0 / ext

    def fix(values, kind):
        a = np.array(values, dtype=float) * f
        if kind in ("int64", "int32"):
            a = np.rint(a)
        elif kind == "float32":
            a = a.astype(np.float32).astype(float)
        return a.tolist()
    case["m1"] = fix(case["m1"], kinds["m1"])
    case["m2c"] = fix(case["m2c"], kinds["m2c"])
    case["m2e"] = fix(case["m2e"], kinds["m2e"])
    if "more" in case:
        case["more"] = [fix(c, kinds["m2e"]) for c in case["more"]]
        how = list(case.get("more_how", []))
        for t, h in enumerate(how):
            if h == "construction":
                case["more"][t] = [list(p) for p in case["m2c"]]
        case["more_how"] = how
    case["types"] = kinds
    return case


def gen_coincide(rs, rkind=None):
    """mobile configurations containing EXACT copies of fixed atoms (perfect overlap = what the optimiser looks for),
    non-dyadic coordinates away from the origin; restraints matched (restrained pairs coincide too: every term of the
    definition is exactly 0 when all fixed atoms are covered) or random."""
    mode = rs.choice(["all", "all", "subset"])
    n1 = int(rs.randint(1, 26)) if mode == "all" else int(rs.randint(1, 41))
    scale = 10 ** rs.uniform(-1, 0.7)
    center = rs.uniform(-1, 1, size=3) * 10 ** rs.uniform(0, 1.7)
    m1 = center + rs.normal(size=(n1, 3)) * scale
    if mode == "all":
        n2 = int(rs.randint(n1, 26))
        covered = list(range(n1))
    else:
        n2 = int(rs.randint(1, 26))
        covered = list(rs.choice(n1, size=int(rs.randint(1, min(n1, n2) + 1)), replace=False))
    labels = rs.permutation(n2)[:len(covered)]
    m2e = center + rs.normal(size=(n2, 3)) * scale
    where = {}
    for i, j in zip(covered, labels):
        m2e[j] = m1[i]
        where[int(i)] = int(j)
    rkind = rkind or RESTR_KINDS[rs.randint(len(RESTR_KINDS))]
    if rs.randint(4) == 0 or rkind == "empty":
        restr = gen_restr(rs, n1, n2, rkind)
        match = "random"
    else:
        # matched restraints: pairs (i, label of the copy of i)
        pool = sorted(where)
        if rkind in ("partial", "dup_fixed") and len(pool) > 1:
            pool = list(rs.choice(pool, size=int(rs.randint(1, len(pool))), replace=False))
        restr = [(int(i), where[int(i)]) for i in pool]
        if rkind in ("dup_fixed", "complete_dup"):
            restr += [restr[rs.randint(len(restr))] for _ in range(int(rs.randint(1, 3)))]
        rs.shuffle(restr)
        restr = [(int(i), int(j)) for i, j in restr]
        match = "matched"
    m2c = center + rs.normal(size=(n2, 3)) * scale
    return add_sequence(rs, {"stream": "coincide", "geo": "coincide_%s_%s" % (mode, match), "rkind": rkind,
                             "m1": m1.tolist(), "m2c": m2c.tolist(), "restr": restr, "m2e": m2e.tolist(),
                             "none_arg": bool(rs.randint(2))})


def gen_error(rs):
    c = gen_case(rs, rkind=["partial", "complete"][rs.randint(2)])
    n1, n2 = len(c["m1"]), len(c["m2e"])
    k = rs.randint(len(c["restr"]))
    i, j = c["restr"][k]
    if rs.randint(2):
        c["restr"][k] = (n1 + int(rs.randint(0, 3)), j)
        c["rkind"] = "bad_fixed_index"
    else:
        c["restr"][k] = (i, n2 + int(rs.randint(0, 3)))
        c["rkind"] = "bad_mobile_index"
    c["stream"] = "error"
    return c


# ------------------------------------------------------------------ implementation driver
def impl_chi2(case, m1=None, m2c=None, m2e=None, restr=None):
    """('val', x) | ('errmake',) | ('errcall',) | ('errvalue',)"""
    from gaddlemaps._backend import Chi2Calculator
    m1 = np.array(case["m1"] if m1 is None else m1, dtype=float).reshape(-1, 3)
    m2c = np.array(case["m2c"] if m2c is None else m2c, dtype=float).reshape(-1, 3)
    m2e = np.array(case["m2e"] if m2e is None else m2e, dtype=float).reshape(-1, 3)
    restr = case["restr"] if restr is None else restr
    if restr:
        arg = [tuple(p) for p in restr]
    else:
        arg = None if case.get("none_arg") else []
    try:
        calc = Chi2Calculator(m1, m2c, arg)
    except IndexError:
        return ("errmake",)
    try:
        with np.errstate(all="ignore"):
            val = calc(m2e)
    except IndexError:
        return ("errcall",)
    except ValueError:
        return ("errvalue",)
    return ("val", float(val))


def snapshot(x):
    if isinstance(x, np.ndarray):
        return (str(x.dtype), x.shape, x.tobytes())
    return copy.deepcopy(x)


def impl_seq(case, notes=None):
    """ONE Chi2Calculator object evaluated on every configuration of the case, in order: list of outcomes (one per
    call), or [('errmake',)] when the construction raised.  The arguments are passed in the containers of case['types'];
    a later call marked 'inplace' / 'inplace_rows' in case['more_how'] CHANGES THE ARRAY OBJECT OF THE PREVIOUS CALL IN PLACE
    and passes that same object again; 'construction' passes the very object the calculator was built with.  After every
    call the caller's three arrays are compared bit for bit with their snapshots (notes receives the differences)."""
    from gaddlemaps._backend import Chi2Calculator
    kinds = case.get("types") or {}
    m1 = conv(case["m1"], kinds.get("m1"))
    m2c = conv(case["m2c"], kinds.get("m2c"))
    restr = case["restr"]
    arg = [tuple(p) for p in restr] if restr else (None if case.get("none_arg") else [])
    snap = [snapshot(m1), snapshot(m2c)]
    try:
        calc = Chi2Calculator(m1, m2c, arg)
    except IndexError:
        return [("errmake",)]
    if notes is not None and (snapshot(m1) != snap[0] or snapshot(m2c) != snap[1]):
        notes.append("the constructor modified the caller's arrays")
    outs = []
    hows = ["fresh"] + list(case.get("more_how", []))
    cur = None
    for t, conf in enumerate(seq_of(case)):
        how = hows[t] if t < len(hows) else "fresh"
        new = np.array(conf, dtype=float).reshape(-1, 3)
        inplace_ok = isinstance(cur, np.ndarray) and cur.dtype == np.float64 and cur.shape == new.shape
        if how == "construction" and np.array_equal(np.array(m2c, dtype=float).reshape(-1, 3), new) and \
                (isinstance(m2c, np.ndarray) or not restr):
            m2 = m2c
        elif how == "inplace_rows" and inplace_ok:
            for r in range(len(new)):
                if not np.array_equal(cur[r], new[r]):
                    cur[r] = new[r]
            m2 = cur
        elif how == "inplace" and inplace_ok:
            if t % 2:
                cur[...] = new
            else:
                np.copyto(cur, new)
            m2 = cur
        else:
            m2 = conv(conf, kinds.get("m2e"))
        snap = [snapshot(m1), snapshot(m2c), snapshot(m2)]
        try:
            with np.errstate(all="ignore"):
                outs.append(("val", float(calc(m2))))
        except IndexError:
            outs.append(("errcall",))
        except ValueError:
            outs.append(("errvalue",))
        if notes is not None:
            for name, x, sn in (("fixed", m1, snap[0]), ("construction", m2c, snap[1]), ("evaluated", m2, snap[2])):
                if snapshot(x) != sn:
                    notes.append("call %d: the calculator modified the caller's %s array" % (t + 1, name))
        cur = m2
    return outs


# ------------------------------------------------------------------ S oracle: the property sentence, naively
def sqdist(a, b):
    return (a[0] - b[0]) ** 2 + (a[1] - b[1]) ** 2 + (a[2] - b[2]) ** 2


def reference(m1, m2, restr, cap=4096, info=None):
    """(S, feasible k values, has_ties): S = sum over restrained pairs + sum over unrestrained fixed atoms of the
    squared distance to the nearest mobile atom; k = number of mobile atoms neither restrained nor nearest to an
    unrestrained fixed atom.  Where two mobile atoms are equally near (relative gap < TIE) the sentence does not say
    which one is 'the nearest': every choice is accepted.  info (a dict) receives the terms and the smallest
    relative gap between the two nearest mobile atoms of an unrestrained fixed atom."""
    terms = []
    gap = 1.0
    restrained_fixed = set()
    restrained_mobile = set()
    for i, j in restr:
        terms.append(sqdist(m1[i], m2[j]))
        restrained_fixed.add(i)
        restrained_mobile.add(j)
    sure = set(restrained_mobile)
    open_rows = []
    for i in range(len(m1)):
        if i in restrained_fixed:
            continue
        d = [sqdist(m1[i], b) for b in m2]
        dmin = min(d)
        terms.append(dmin)
        cand = [j for j in range(len(m2)) if d[j] - dmin <= TIE * d[j]]
        if len(d) > 1:
            second = sorted(d)[1]
            gap = min(gap, (second - dmin) / second if second > 0 else 0.0)
        if len(cand) == 1:
            sure.add(cand[0])
        else:
            open_rows.append(cand)
    S = math.fsum(terms)
    if info is not None:
        info["terms"], info["gap"] = terms, gap
    n2 = len(m2)
    open_rows = [c for c in open_rows if not (set(c) & sure)] + [c for c in open_rows if set(c) & sure]
    if not open_rows:
        return S, {n2 - len(sure)}, False
    size = 1
    for c in open_rows:
        size *= len(c)
        if size > cap:
            break
    if size <= cap:
        ks = set()
        for choice in itertools.product(*open_rows):
            ks.add(n2 - len(sure | set(choice)))
    else:
        allc = set().union(*map(set, open_rows))
        ks = set(range(n2 - len(sure | allc), n2 - len(sure) + 1))
    return S, ks, True


def close(a, b, tol=TOL):
    return abs(a - b) <= tol * max(abs(a), abs(b))


def moved_ok(out, val, size, nterms):
    """value after a rigid motion of all inputs: a valid value (finite, >= 0) equal to val within TOL relative; the
    motion itself perturbs every coordinate by a few ulps of `size`, so atoms that coincided exactly may end up
    (64 eps size) apart: that much squared per term is allowed as an absolute floor (1e-25 nm^2 for size 50 nm)"""
    if out[0] != "val" or not math.isfinite(out[1]) or out[1] < 0:
        return False
    return abs(out[1] - val) <= TOL * max(abs(out[1]), abs(val)) + nterms * (64 * EPS * size) ** 2


def oracle_case(case, rs=None):
    """list of failed clauses of the property on this input (empty = holds)."""
    m1, m2c, m2e, restr = case["m1"], case["m2c"], case["m2e"], [tuple(p) for p in case["restr"]]
    n1, n2 = len(m1), len(m2e)
    seq = seq_of(case)
    if n1 < 1 or n2 < 1 or len(m2c) != n2 or any(len(c) != n2 for c in seq) or \
            any(not (0 <= i < n1 and 0 <= j < n2) for i, j in restr):
        return []          # outside the property's domain
    # the SAME calculator object evaluated on every configuration of the sequence: each value must be the
    # reference value of the configuration passed in, whatever it was evaluated on before
    notes = []
    outs = impl_seq(case, notes)
    bad = list(notes)
    ties = False
    val = None
    for t, (out, conf) in enumerate(zip(outs, seq)):
        tag = "call %d of %d: " % (t + 1, len(seq))
        if out[0] != "val":
            return [tag + "raised %s on a valid input" % out[0]]
        v = out[1]
        if not math.isfinite(v):
            return [tag + "non-finite value %r" % v]
        info = {}
        S, ks, ties_t = reference(m1, conf, restr, info=info)
        if v < 0:
            # no tolerance on the sign: the reference definition is a sum of squares
            bad.append(tag + "negative value %r (reference %r)" % (v, S * 1.1 ** min(ks)))
        if all(x == 0.0 for x in info["terms"]):
            STATS["calls_with_every_term_exactly_0"] += 1
        if all(x == 0.0 for x in info["terms"]) and v != 0.0:
            bad.append(tag + "every term of the reference definition is exactly 0 but the value is %r" % v)
        if t == 0:
            info0 = info
        if not any(close(v, S * 1.1 ** k) for k in ks):
            bad.append(tag + "value %.17g differs from the reference definition: S=%.17g, k in %s -> %s" %
                       (v, S, sorted(ks), [S * 1.1 ** k for k in sorted(ks)][:4]))
        for u in range(t):
            if seq[u] == conf and outs[u][0] == "val" and not close(outs[u][1], v, 1e-12):
                bad.append(tag + "the same configuration gave %r at call %d and %r now" % (outs[u][1], u + 1, v))
        if t == 0:
            val, ties = v, ties_t
    if bad:
        return bad
    # value must not depend on the construction-time coordinates (only on their number)
    out2 = impl_chi2(case, m2c=m2e)
    if out2[0] != "val" or not close(out2[1], val, 1e-12):
        bad.append("value depends on the construction-time configuration: %r vs %r" % (out2, val))
    if rs is None or ties:
        return bad
    # invariance under a common rigid motion (proper rotation + translation)
    A1, A2c, A2e = np.array(m1), np.array(m2c), np.array(m2e)
    ext = max(1e-12, float(np.abs(np.concatenate([A1, A2e])).max()))
    Q = random_rotation(rs)
    t = rs.uniform(-2, 2, size=3) * ext
    out3 = impl_chi2(case, m1=A1 @ Q.T + t, m2c=A2c @ Q.T + t, m2e=A2e @ Q.T + t)
    nterms = max(1, len(info0["terms"]))
    if not moved_ok(out3, val, 3 * ext, nterms):
        bad.append("not invariant under a common rigid motion: %r vs %r" % (out3, val))
    # ... and with a translation at system-box scale and beyond: |t| log-uniform in [1, T_FAR] nm, capped per case
    # where the rounding of the inputs themselves (eps * |t| per coordinate) would exceed a tenth of the tolerance
    roots = [math.sqrt(x) for x in info0["terms"]]
    if info0["gap"] >= 1e-6:
        cap = (FAR_MARGIN * TOL * math.fsum(info0["terms"]) / (8 * EPS * math.fsum(roots)) - ext) if sum(roots) > 0 \
            else T_FAR
        T = min(10 ** rs.uniform(0, math.log10(T_FAR)), cap)
        if T >= 1:
            STATS["far_rigid_motions"] += 1
            STATS["far_rigid_motions_beyond_1000nm"] += int(T >= 1e3)
            d = rs.normal(size=3)
            t = d / np.linalg.norm(d) * T
            Q = random_rotation(rs)
            c0 = A1.mean(axis=0)
            far = [(A - c0) @ Q.T + c0 + t for A in (A1, A2c, A2e)]
            out7 = impl_chi2(case, m1=far[0], m2c=far[1], m2e=far[2])
            if not moved_ok(out7, val, ext + T, nterms):
                bad.append("not invariant under a common rigid motion with |t| = %.4g: %r vs %r (relative change %.3g)" %
                           (T, out7, val, abs(out7[1] - val) / max(abs(val), 1e-300) if out7[0] == "val" else -1))
    # consistent relabelling of mobile atoms, fixed atoms and of the restraint list
    s = rs.permutation(n2)           # new label of mobile atom j is s[j]
    tau = rs.permutation(n1)
    B2e = np.empty_like(A2e)
    B2e[s] = A2e
    B2c = np.empty_like(A2c)
    B2c[s] = A2c
    B1 = np.empty_like(A1)
    B1[tau] = A1
    r_m = [(i, int(s[j])) for i, j in restr]
    out4 = impl_chi2(case, m2c=B2c, m2e=B2e, restr=r_m)
    if out4[0] != "val" or not close(out4[1], val):
        bad.append("not invariant under relabelling of the mobile atoms: %r vs %r" % (out4, val))
    r_f = [(int(tau[i]), j) for i, j in restr]
    out5 = impl_chi2(case, m1=B1, restr=r_f)
    if out5[0] != "val" or not close(out5[1], val):
        bad.append("not invariant under relabelling of the fixed atoms: %r vs %r" % (out5, val))
    if len(restr) > 1:
        r_o = [restr[k] for k in rs.permutation(len(restr))]
        out6 = impl_chi2(case, restr=r_o)
        if out6[0] != "val" or not close(out6[1], val):
            bad.append("depends on the order of the restraint list: %r vs %r" % (out6, val))
    return bad


def drop(case, kind, idx):
    """the case without restraint idx / fixed atom idx / mobile atom idx (restraints re-indexed)"""
    c = dict(case)
    restr = [tuple(p) for p in case["restr"]]
    if kind == "restr":
        c["restr"] = restr[:idx] + restr[idx + 1:]
    elif kind == "m1":
        if len(case["m1"]) <= 1:
            return None
        c["m1"] = case["m1"][:idx] + case["m1"][idx + 1:]
        c["restr"] = [(i - (i > idx), j) for i, j in restr if i != idx]
    elif kind == "call":
        seq = seq_of(case)
        if len(seq) <= 1:
            return None
        hows = ["fresh"] + list(case.get("more_how", ["fresh"] * (len(seq) - 1)))
        seq = seq[:idx] + seq[idx + 1:]
        hows = hows[:idx] + hows[idx + 1:]
        c["m2e"], c["more"], c["more_how"] = seq[0], seq[1:], hows[1:]
    else:
        if len(case["m2e"]) <= 1:
            return None
        c["m2e"] = case["m2e"][:idx] + case["m2e"][idx + 1:]
        c["m2c"] = case["m2c"][:idx] + case["m2c"][idx + 1:]
        if "more" in case:
            c["more"] = [m[:idx] + m[idx + 1:] for m in case["more"]]
        c["restr"] = [(i, j - (j > idx)) for i, j in restr if j != idx]
    return c


def fails(case):
    return bool(oracle_case(case, np.random.RandomState(12345)))


def shrink(case, budget=600):
    """greedy delta-debugging on restraints / fixed atoms / mobile atoms, keeping the oracle failing"""
    if not fails(case):
        return case
    changed = True
    while changed and budget > 0:
        changed = False
        for kind, key in (("call", None), ("restr", "restr"), ("m1", "m1"), ("m2", "m2e")):
            idx = (len(seq_of(case)) if key is None else len(case[key])) - 1
            while idx >= 0 and budget > 0:
                c2 = drop(case, kind, idx)
                budget -= 1
                if c2 is not None and fails(c2):
                    case = c2
                    changed = True
                idx = min(idx, len(seq_of(case)) if key is None else len(case[key])) - 1
    return case


MAX_REPORTS = 5


def report(ctx, case, bad):
    """at most MAX_REPORTS replay files per run; the first one is shrunk"""
    n = getattr(ctx, "_c08_reports", 0)
    ctx._c08_reports = n + 1
    if n >= MAX_REPORTS:
        return
    if n == 0:
        small = shrink(case)
        bad2 = oracle_case(small, np.random.RandomState(12345))
        if bad2:
            case, bad = dict(small, shrunk_from=[len(case["m1"]), len(case["m2e"]), len(case["restr"]),
                                                 len(seq_of(case))]), bad2
    ctx.violation("chi2: " + "; ".join(bad), slim(case), key="chi2")


def slim(case):
    return {k: case[k] for k in ("stream", "geo", "rkind", "m1", "m2c", "restr", "m2e", "more", "more_how", "types", "seq_kinds",
                                     "none_arg", "shrunk_from")
            if k in case}


# ------------------------------------------------------------------ check entry points
def _c(m1, m2c, restr, m2e, rkind, more=None, how=None, types=None):
    c = {"stream": "corpus", "geo": "hand", "rkind": rkind, "m1": m1, "m2c": m2c, "restr": restr, "m2e": m2e,
         "none_arg": False}
    if more:
        c["more"] = more
    if how:
        c["more_how"] = how
    if types:
        c["types"] = types
    return c


# fixed molecule on an integer lattice passed as an INTEGER array (as the package's tests do), float mobile atoms
_LATTICE = [[0, 0, 0], [2, 0, 0], [2, 2, 0], [0, 2, 1], [4, 1, 3]]
_L_START = [[0.5, 0.0, 0.0], [2.0, 1.5, 0.0], [3.0, 1.0, 2.5]]
_L_NEW = [[0.40, 0.30, -0.20], [2.25, 1.75, 0.60], [3.50, 0.75, 2.90]]
# one coordinate array evaluated, changed in place, evaluated again
_F3 = [[0.3, -1.2, 0.7], [1.9, 0.4, -0.8], [-1.1, 1.6, 0.2]]
_FR0 = [[0.1, -0.9, 0.5], [1.5, 0.8, -1.3]]
_FR1 = [[0.8, -1.6, 2.6], [2.2, 0.1, 0.8]]
_FR2 = [[0.8, -1.6, 2.6], [-0.7, 1.2, 0.3]]


_CONF_A = [[0, 0, 1], [10, 0, 1], [30, 0, 0]]
_CONF_B = [[0, 0, 1], [30, 0, 0], [10, 0, 2]]
_FAR_FIXED = [[4000.1, -2499.8, 3000.3], [4001.1, -2500.4, 3000.7], [4002.3, -2499.1, 2999.4]]
_FAR_MOBILE = [[4000.13, -2499.84, 3000.35], [4001.07, -2500.43, 3000.66], [4002.33, -2499.06, 2999.45]]


CORPUS = [
    # the suite's three integer cases, evaluated away from the construction coordinates
    _c([[0, 0, 0], [1, 0, 0], [2, 0, 0]], [[9, 9, 9], [8, 8, 8]], [], [[0, 0, 1], [2, 0, 1]], "empty"),
    _c([[0, 0, 0], [1, 0, 0], [2, 0, 0]], [[9, 9, 9], [8, 8, 8]], [(0, 1)], [[0, 0, 1], [2, 0, 1]], "partial"),
    _c([[0, 0, 0], [1, 0, 0]], [[5, 5, 5], [6, 6, 6], [7, 7, 7]], [(0, 2), (1, 2), (0, 0)],
       [[0, 0, 1], [2, 0, 1], [1, 1, 1]], "complete_dup"),
    # exact tie: the first-arg-min rule decides k (2.2 with this labelling, 2.0 with the mobile labels swapped)
    _c([[0, 0, 0], [2, 0, 0]], [[0, 0, 0], [0, 0, 0]], [], [[1, 0, 0], [-1, 0, 0]], "empty"),
    _c([[0, 0, 0], [2, 0, 0]], [[0, 0, 0], [0, 0, 0]], [], [[-1, 0, 0], [1, 0, 0]], "empty"),
    # one calculator, three calls: the free fixed atom is nearest to mobile atom 1 in A and to atom 2 in B, then A
    # again (2.2, 5.5, 2.2): state carried from one call to the next shows up at the second call
    _c([[0, 0, 0], [10, 0, 0]], _CONF_A, [(0, 0)], _CONF_A, "partial", more=[_CONF_B, _CONF_A]),
    _c([[0, 0, 0], [10, 0, 0]], _CONF_B, [], _CONF_A, "empty", more=[_CONF_B, _CONF_A]),
    _c([[0, 0, 0], [10, 0, 0]], _CONF_B, [(0, 0), (1, 1)], _CONF_A, "complete", more=[_CONF_B, _CONF_A]),
    # mobile atoms sitting EXACTLY on the fixed ones, decimal coordinates away from the origin: every term is exactly 0,
    # the value must be 0.0 (a |a|^2+|b|^2-2a.b expansion of the squared distance gives -4.5e-13 here)
    _c([[13.1, -9.34, 32.16]], [[9.61, -8.07, 31.67]], [], [[13.1, -9.34, 32.16]], "empty"),
    _c([[13.92, -7.34, 30.01], [13.41, -4.88, 32.07]], [[14.49, -7.36, 28.2], [12.66, -4.73, 33.92]], [(0, 0)],
       [[13.92, -7.34, 30.01], [13.41, -4.88, 32.07]], "partial"),
    _c([[13.94, -5.55, 30.03], [15.07, -7.23, 30.62]], [[15.6, -5.67, 29.77], [16.15, -7.42, 31.79]], [(0, 0), (1, 1)],
       [[13.94, -5.55, 30.03], [15.07, -7.23, 30.62]], "complete"),
    # a well-overlapped pair 5 600 nm from the origin (inter-atomic distances 0.07 nm)
    _c(_FAR_FIXED, [[4000.5, -2500.5, 3000.5], [4001.5, -2499.5, 3000.0], [4002.0, -2501.0, 3001.0]], [(0, 0)],
       _FAR_MOBILE, "partial"),
    _c(_FAR_FIXED, [[4000.5, -2500.5, 3000.5], [4001.5, -2499.5, 3000.0], [4002.0, -2501.0, 3001.0]], [],
       _FAR_MOBILE, "empty"),
    # integer-dtype fixed array, restrained mobile atoms with non-integer coordinates (partial / duplicated / complete)
    _c(_LATTICE, _L_START, [(0, 0), (2, 1)], _L_NEW, "partial", types={"m1": "int64"}),
    _c(_LATTICE, _L_START, [(0, 0), (0, 1), (4, 2)], _L_NEW, "dup_fixed", types={"m1": "int32"}),
    _c(_LATTICE, _L_START, [(0, 0), (1, 0), (2, 1), (3, 1), (4, 2)], _L_NEW, "complete",
       types={"m1": "int64", "m2c": "list"}),
    # the same ndarray evaluated, translated in place, evaluated, one atom moved in place, evaluated (all three paths)
    _c(_F3, [[0.0, 0.0, 0.0], [1.0, 1.0, 1.0]], [], _FR0, "empty", more=[_FR1, _FR2], how=["inplace", "inplace_rows"]),
    _c(_F3, [[0.0, 0.0, 0.0], [1.0, 1.0, 1.0]], [(0, 1)], _FR0, "partial", more=[_FR1, _FR2],
       how=["inplace", "inplace_rows"]),
    _c(_F3, [[0.0, 0.0, 0.0], [1.0, 1.0, 1.0]], [(0, 1), (1, 0), (2, 1)], _FR0, "complete", more=[_FR1, _FR2],
       how=["inplace", "inplace_rows"]),
    # one atom on each side
    _c([[0.5, 0.25, 0]], [[0, 0, 0]], [(0, 0)], [[1, 1, 1]], "complete"),
    _c([[0.5, 0.25, 0]], [[0, 0, 0]], [], [[1, 1, 1]], "empty"),
]


def corpus(ctx):
    S = ctx.cov["S"]
    S["corpus"] = 0
    rs = ctx.np_rng("corpus")
    for case in CORPUS:
        bad = oracle_case(case, rs)
        S["corpus"] += 1
        if bad:
            report(ctx, case, bad)


def dyadic_case(case):
    """every coordinate is a multiple of 1/8 of magnitude <= 64: binary64 arithmetic of the model and of numpy is exact"""
    return all(abs(x) <= 64 and float(x * 8).is_integer()
               for conf in [case["m1"]] + seq_of(case) for p in conf for x in p)    # (the construction set is not computed with)


def coq_case(case, out, conf=None):
    exact = "true" if dyadic_case(case) else "false"
    obs = {"val": lambda: "(ObsVal %s)" % fl(out[1]), "errmake": lambda: "ObsErrMake",
           "errcall": lambda: "ObsErrCall", "errvalue": lambda: "ObsErrValue"}[out[0]]()

    def pts(l):
        return lib.coq_list([v3(p) for p in l])
    restr = lib.coq_list(["(%d%%nat, %d%%nat)" % (i, j) for i, j in case["restr"]])
    return "chk_chi2 %s %s %s %s %s %s" % (exact, pts(case["m1"]), pts(case["m2c"]), restr,
                                           pts(case["m2e"] if conf is None else conf), obs)


def assignment(m1, m2, restr):
    """labels of the nearest mobile atom of every unrestrained fixed atom (histogram only)"""
    a1, a2 = np.array(m1, dtype=float).reshape(-1, 3), np.array(m2, dtype=float).reshape(-1, 3)
    free = sorted(set(range(len(a1))) - set(i for i, _ in restr))
    if not free or not len(a2):
        return ()
    return tuple(((a1[free][:, None, :] - a2[None, :, :]) ** 2).sum(-1).argmin(1))


def path_of(case):
    if not case["restr"]:
        return "none"
    n1 = len(case["m1"])
    return "only" if set(i for i, _ in case["restr"]) >= set(range(n1)) else "with"


def correspondence(ctx):
    rs = ctx.np_rng("K")
    rs_o = ctx.np_rng("KS")
    n_gen = ctx.n(1000, 10000)
    n_dy = ctx.n(400, 4000)
    n_err = ctx.n(40, 300)
    n_co = ctx.n(300, 3000)
    todo = [dict(c) for c in CORPUS]
    # every (restraint kind) x (small sizes) appears at least once, then the random streams
    for rk in ("empty", "partial", "dup_fixed", "complete", "complete_dup"):
        todo.append(gen_case(rs, rk))
        todo.append(gen_dyadic(rs, rk))
        todo.append(gen_coincide(rs, rk))
    todo += [gen_case(rs) for _ in range(n_gen)]
    todo += [gen_dyadic(rs) for _ in range(n_dy)]
    todo += [gen_coincide(rs) for _ in range(n_co)]
    todo += [gen_error(rs) for _ in range(n_err)]
    cases, meta = [], []
    hist = {"stream": {}, "path": {}, "rkind": {}, "geo": {}, "k": {}, "ties": 0, "n_fixed": {}, "n_mobile": {},
            "calls_per_calculator": {}, "later_calls_by_path": {}, "revisits": 0, "later_calls_with_changed_assignment": 0,
            "argument_types": {}, "calls_on_an_array_changed_in_place": {}, "calls_on_the_construction_object": 0}

    def bump(d, k):
        d[k] = d.get(k, 0) + 1
    s_fail = 0
    for case in todo:
        outs = impl_seq(case)
        out = outs[0]
        seq = seq_of(case)
        for t, o in enumerate(outs):
            cases.append(coq_case(case, o, seq[t]))
            meta.append(dict(case, call=t + 1))
        n1, n2 = len(case["m1"]), len(case["m2e"])
        bump(hist["calls_per_calculator"], str(len(outs)))
        kinds = case.get("types")
        if kinds:
            bump(hist["argument_types"], "fixed=%s eval=%s" % (kinds.get("m1", "float64"), kinds.get("m2e", "float64")))
            bump(hist["argument_types"], "construction=%s" % kinds.get("m2c", "float64"))
        else:
            bump(hist["argument_types"], "all float64")
        if case["stream"] != "error" and (not kinds or kinds.get("m2e", "float64") == "float64"):
            for h in case.get("more_how", []):
                if h.startswith("inplace"):
                    bump(hist["calls_on_an_array_changed_in_place"], path_of(case))
                hist["calls_on_the_construction_object"] += int(h == "construction")
        if case["stream"] != "error":
            for t in range(1, len(seq)):
                bump(hist["later_calls_by_path"], path_of(case))
                hist["revisits"] += int(any(seq[u] == seq[t] for u in range(t)))
                hist["later_calls_with_changed_assignment"] += int(
                    assignment(case["m1"], seq[t], case["restr"]) != assignment(case["m1"], seq[t - 1], case["restr"]))
        bump(hist["stream"], case["stream"])
        bump(hist["rkind"], case["rkind"])
        bump(hist["geo"], case["geo"])
        bump(hist["n_fixed"], "%d-%d" % (10 * ((n1 - 1) // 10) + 1, 10 * ((n1 - 1) // 10) + 10))
        bump(hist["n_mobile"], "%d-%d" % (5 * ((n2 - 1) // 5) + 1, 5 * ((n2 - 1) // 5) + 5))
        if case["stream"] != "error":
            bump(hist["path"], path_of(case))
            _, ks, ties = reference(case["m1"], case["m2e"], [tuple(p) for p in case["restr"]])
            hist["ties"] += int(ties)
            bump(hist["k"], str(min(ks)) if min(ks) < 10 else "10+")
        else:
            bump(hist["path"], "error:" + out[0])
        for t in range(len(outs)):
            ctx.count(("K", case["m1"], case["m2c"], case["restr"], seq[t], t), nontrivial=(n1 > 1 or n2 > 1))
        # S on the same cases
        bad = oracle_case(case, rs_o)
        if bad:
            s_fail += 1
            report(ctx, case, bad)
    for i in (len(CORPUS), len(CORPUS) + 11, len(todo) - n_err - 1):
        c = todo[i]
        ctx.sample({"stream": c["stream"], "rkind": c["rkind"], "n_fixed": len(c["m1"]), "n_mobile": len(c["m2e"]),
                    "restr": c["restr"][:6], "calls": len(seq_of(c)), "seq_kinds": c.get("seq_kinds", []),
                    "impl_per_call": impl_seq(c)})
    codes, log = lib.run_coq_cases(ctx.cid, "K", HEADER, cases, shard=ctx.n(140, 400))
    K = ctx.cov["K"]
    K["cases"] = len(cases)
    K["calculators"] = len(todo)
    K["input_distribution"] = hist
    K["log"] = log
    K["oracle_failures_on_K_cases"] = s_fail
    ctx.cov["S"]["on_K_cases"] = dict(STATS)
    if codes is None:
        K["error"] = log
        return [{"error": "coqc failed on the correspondence cases", "log": log[-1500:]}]
    K["disagree"] = sum(1 for c in codes.values() if c in (1, 3))
    K["indeterminate"] = sum(1 for c in codes.values() if c == 2)
    K["agree"] = len(cases) - len(codes)
    dis = [dict(slim(meta[i]), call=meta[i]["call"], code=c, impl_per_call=[list(o) for o in impl_seq(meta[i])])
           for i, c in sorted(codes.items()) if c in (1, 3)]
    # DESIGN 4.5: the oracle already ran on every K case above; a disagreement whose input passes the oracle
    # means the model is stale, one whose input fails it has been reported as a violation with that input.
    return dis


def oracle(ctx, scale):
    rs = ctx.np_rng("S%d" % scale)
    S = ctx.cov["S"]
    n = ctx.n(500, 6000) * scale
    nfail = 0
    ties = 0
    ncalls = 0
    for t in range(n):
        case = gen_dyadic(rs) if t % 4 == 3 else gen_coincide(rs) if t % 4 == 1 else gen_case(rs)
        bad = oracle_case(case, rs)
        for t, conf in enumerate(seq_of(case)):
            ctx.count(("S", case["m1"], case["m2c"], case["restr"], conf, t),
                      nontrivial=(len(case["m1"]) > 1 or len(case["m2e"]) > 1))
        ncalls += len(seq_of(case))
        if case["stream"] == "dyadic":
            ties += 1
        if bad:
            nfail += 1
            report(ctx, case, bad)
    S["reference_nonneg_rigid_relabel_x%d" % scale] = n
    S["dyadic_cases_x%d" % scale] = ties
    S["calls_on_those_calculators_x%d" % scale] = ncalls
    S["failures"] = S.get("failures", 0) + nfail
    S["cumulative"] = dict(STATS)


def replay(ctx, obj):
    r = obj["replay"]
    if "m1" not in r:
        print("replay names a proof/correspondence, not an input:", r)
        return False
    bad = oracle_case(r, ctx.np_rng("replay"))
    print(bad)
    return not bad


def finish(ctx):
    ctx.assumptions = [
        "theorems are exact statements over the real numbers; IEEE rounding is modelled, not verified: model (binary64) and "
        "implementation are compared within 2^-40 relative by K, the 1e-9 tolerances of the invariances by the S oracle (testing)",
        "restraint indices are naturals in range (numpy's wrap-around of negative indices is outside the model and the "
        "property's domain); the evaluation configuration has the construction-time number of atoms",
        "with exactly equidistant mobile atoms the code's first-arg-min rule decides k: C08_relabel carries the hypothesis "
        "'row minima unique' (counter-example kept as an Example); the oracle accepts every admissible k on tied inputs",
    ]
    return ctx.finish(level="proof", rule=RULE,
                      trusted=["numpy/scipy evaluation (cdist sqeuclidean, min/argmin, np.sum order, set/union, 1.1**k) "
                               "written out by hand in coq/Model/Chi2.v"])
