"""C07 - single-atom move restores every bond length on acyclic molecules.

K: move_mol_atom / find_atom_random_displ of /repo against the float instance of coq/Model/Transform.v.
S: the property text evaluated on the implementation (written from properties.jsonl, not from the model).
"""
import itertools
import signal

import numpy as np

import lib
import molgen
from lib import fl, v3

HEADER = """From GM Require Import Corr.CorrBase Model.Transform Corr.CheckC07.
Open Scope float_scope.
"""

RULE = ("move cases: every labelled tree on 2..6 atoms (7 in the thorough tier) x every moved atom, random trees and "
        "connected cyclic graphs up to 60 atoms, forests, real Molecule.bonds_distance tables; geometry either a random "
        "walk along the bonds (molecule-like) or uniform in a box, scale 1e-2..1e2; table lengths equal to the geometry, "
        "perturbed by up to 30 %, or arbitrary; neighbour lists ascending or shuffled; displacement random, zero or along a "
        "bond; plus a malformed/degenerate stream (missing key, index out of range, duplicate neighbour, self bond, "
        "coincident atoms on dyadic coordinates, asymmetric tables, negative lengths). A move case is counted non-trivial "
        "when it is distinct and at least one atom other than the moved one is repositioned (or an error branch is taken). "
        "displacement cases: 1, 2, 3+ neighbours, recorded draws of rand/choice/normal, generic and exactly collinear "
        "(dyadic) geometries, negative sigma scale, atoms without neighbours; half of them with table lengths equal to the "
        "geometry, half multiplied by log-uniform factors in [0.3, 3]; the same through move_mol_atom(displ=None) "
        "(terminal atoms for two thirds, trees and cyclic graphs up to 12 atoms). "
        "call histories: 3..9 calls in one process on 1..3 molecules of 2..8 atoms (60 % of the same shape; trees and cyclic "
        "graphs; tables agreeing, perturbed, x0.3..3), each call a move / move with drawn displacement / displacement / "
        "move on a malformed table that raises (7 kinds, at different stages of the walk) / in-place edit of a table's lengths; "
        "input = the molecule's start array or an earlier result (same object, r[:], r[...], r.view(), copy); every array the "
        "caller holds is re-checked after every later call and every result is judged again at the end.")

EXC = {IndexError: "EIndex", KeyError: "EKey", ValueError: "EValue"}
CALL_LIMIT_S = 10      # a call normally takes well under a millisecond per atom
MAX_HANGS = 3
MAX_REPLAYS = 20     # failing inputs beyond this are counted, not written


class Hang(Exception):
    pass


class time_limit:
    """the queue loop of move_mol_atom has no other bound than its visited set: a call that does not return within
    CALL_LIMIT_S is reported as non-termination instead of hanging the check"""
    hangs = 0

    def __enter__(self):
        if time_limit.hangs >= MAX_HANGS:
            raise RuntimeError("the implementation did not terminate on %d inputs (see the replays); giving up" % MAX_HANGS)

        def on_alarm(signum, frame):
            time_limit.hangs += 1
            raise Hang()
        self.old = signal.signal(signal.SIGALRM, on_alarm)
        signal.alarm(CALL_LIMIT_S)

    def __exit__(self, *a):
        signal.alarm(0)
        signal.signal(signal.SIGALRM, self.old)
        return False


# ------------------------------------------------------------------ generators
def rand_dir(rs):
    v = rs.normal(size=3)
    return v / np.linalg.norm(v)


def gen_geometry(rs, n, bonds, kind, scale):
    """kind 'walk': bonded atoms about one bond length apart; 'box': uniform in a box."""
    if kind == "box":
        return rs.uniform(-1, 1, size=(n, 3)) * scale
    adj = {i: [] for i in range(n)}
    for a, b in bonds:
        adj[a].append(b)
        adj[b].append(a)
    pos = np.zeros((n, 3))
    placed = set()
    for root in range(n):
        if root in placed:
            continue
        pos[root] = rs.uniform(-1, 1, size=3) * scale
        placed.add(root)
        todo = [root]
        while todo:
            i = todo.pop()
            for j in adj[i]:
                if j not in placed:
                    pos[j] = pos[i] + rand_dir(rs) * scale * rs.uniform(0.1, 0.2)
                    placed.add(j)
                    todo.append(j)
    return pos


def gen_table(rs, n, bonds, pos, mode, scale, shuffle):
    """dict i -> [(j, length)], symmetric lengths; every atom has a key (possibly an empty list)."""
    length = {}
    for a, b in bonds:
        dist = float(np.linalg.norm(pos[a] - pos[b]))
        if mode == "agree":
            val = dist
        elif mode == "perturbed":
            val = dist * rs.uniform(0.7, 1.3)
        elif mode == "wide":
            val = dist * float(np.exp(rs.uniform(np.log(0.3), np.log(3.0))))
        else:
            val = scale * rs.uniform(0.05, 0.3)
        length[(a, b)] = length[(b, a)] = val
    table = {i: [] for i in range(n)}
    for a, b in sorted(set(bonds)):
        table[a].append((b, length[(a, b)]))
        table[b].append((a, length[(a, b)]))
    for i in table:
        table[i].sort()
        if shuffle:
            table[i] = [table[i][t] for t in rs.permutation(len(table[i]))]
    return table


def gen_displ(rs, pos, table, k, scale):
    r = rs.randint(0, 10)
    if r == 0:
        return np.zeros(3)
    if r == 1 and table.get(k):
        j = table[k][0][0]
        return (pos[j] - pos[k]) * rs.uniform(-0.5, 0.5)
    return rand_dir(rs) * scale * 10 ** rs.uniform(-3, 0) * 0.3


def gen_move_case(rs, n, bonds, tree, gen):
    scale = 10 ** rs.uniform(-2, 2)
    geo = "walk" if rs.randint(0, 3) else "box"
    mode = ["agree", "perturbed", "arbitrary", "wide"][rs.randint(0, 4)]
    pos = gen_geometry(rs, n, bonds, geo, scale)
    table = gen_table(rs, n, bonds, pos, mode, scale, shuffle=bool(rs.randint(0, 2)))
    return {"kind": "move", "gen": gen, "tree": tree, "geo": geo, "mode": mode, "n": n,
            "pos": pos.tolist(), "table": table_json(table, n), "bonds": [list(b) for b in bonds]}


def table_json(table, n):
    """list over atoms: None (key absent) or [[j, b], ...]"""
    m = max([n] + [i + 1 for i in table])
    return [None if i not in table else [[int(j), float(b)] for j, b in table[i]] for i in range(m)]


def table_dict(tj):
    return {i: [(int(j), float(b)) for j, b in l] for i, l in enumerate(tj) if l is not None}


def with_k(case, k, d):
    c = dict(case)
    c["k"] = int(k)
    c["d"] = [float(x) for x in d]
    return c


def gen_malformed(rs):
    """cases outside the property's domain whose behaviour (exception class / nan) the model must reproduce"""
    n = int(rs.randint(2, 7))
    bonds = molgen.random_tree(rs, n)
    case = gen_move_case(rs, n, bonds, False, "malformed")
    tj = case["table"]
    k = int(rs.randint(0, n))
    d = rand_dir(rs) * 0.1
    what = ["missing_key_k", "missing_key_other", "k_out_of_range", "dup_neighbour_k", "self_bond_k", "nbr_out_of_range_k",
            "nbr_out_of_range_other", "dup_neighbour_other", "self_bond_other", "asymmetric", "negative_length",
            "coincident", "coincident_after_move", "forest", "zero_length"][rs.randint(0, 15)]
    other = int((k + 1 + rs.randint(0, n - 1)) % n)
    if what == "missing_key_k":
        tj[k] = None
    elif what == "missing_key_other":
        tj[other] = None
    elif what == "k_out_of_range":
        k = n + int(rs.randint(0, 3))
    elif what == "dup_neighbour_k":
        tj[k] = tj[k] + [list(tj[k][0])]
    elif what == "self_bond_k":
        tj[k] = tj[k] + [[k, 0.1]]
    elif what == "nbr_out_of_range_k":
        tj[k] = tj[k] + [[n + 1, 0.1]]
    elif what == "nbr_out_of_range_other":
        tj[other] = tj[other] + [[n + 2, 0.1]]
    elif what == "dup_neighbour_other":
        tj[other] = tj[other] + [list(tj[other][0])]
    elif what == "self_bond_other":
        tj[other] = [[other, 0.3]] + tj[other]
    elif what == "asymmetric":
        a, b = bonds[rs.randint(0, len(bonds))]
        if rs.randint(0, 2):
            tj[a] = [[j, bb * 1.5] if j == b else [j, bb] for j, bb in tj[a]]
        else:
            tj[a] = [[j, bb] for j, bb in tj[a] if j != b]
    elif what == "negative_length":
        tj[other] = [[j, -bb] for j, bb in tj[other]]
        for i in range(n):
            tj[i] = [[j, -bb] if j == other and bb > 0 else [j, bb] for j, bb in tj[i]]
    elif what == "zero_length":
        a, b = bonds[rs.randint(0, len(bonds))]
        tj[a] = [[j, 0.0] if j == b else [j, bb] for j, bb in tj[a]]
        tj[b] = [[j, 0.0] if j == a else [j, bb] for j, bb in tj[b]]
    elif what in ("coincident", "coincident_after_move"):
        # dyadic coordinates: binary64 arithmetic is exact, the zero distance is hit for a reason
        pos = rs.randint(-8, 9, size=(n, 3)).astype(float) / 4.0
        while len({tuple(p) for p in pos}) < n:
            pos = rs.randint(-8, 9, size=(n, 3)).astype(float) / 4.0
        d = rs.randint(-4, 5, size=3).astype(float) / 4.0
        if tj[k]:
            j = tj[k][int(rs.randint(0, len(tj[k])))][0]
            if what == "coincident":
                pos[j] = pos[k] + d          # the neighbour sits exactly where atom k lands
            else:
                d = pos[j] - pos[k]          # atom k lands exactly on its neighbour
        case["pos"] = pos.tolist()
    elif what == "forest":
        a, b = bonds[rs.randint(0, len(bonds))]
        tj[a] = [[j, bb] for j, bb in tj[a] if j != b]
        tj[b] = [[j, bb] for j, bb in tj[b] if j != a]
    case["what"] = what
    return with_k(case, k, d)


# ------------------------------------------------------------------ implementation drivers
def impl_move(pos, tj, k, d):
    """returns (out or None, error class or None, input_unchanged)"""
    from gaddlemaps import move_mol_atom
    a = np.array(pos, dtype=float).reshape(-1, 3)
    saved = a.copy()
    tb = table_dict(tj)
    try:
        with np.errstate(all="ignore"), time_limit():
            out = move_mol_atom(a, tb, k, np.array(d, dtype=float))
    except Hang:
        return None, "EFuel", True
    except tuple(EXC) as e:
        for cls, name in EXC.items():
            if isinstance(e, cls):
                return None, name, bool((a == saved).all())
    return np.array(out), None, bool((a == saved).all())


class Draws:
    """replaces np.random.rand / choice / normal (the three generators _transform_molecule calls, resolved at call
    time through the numpy module) by wrappers that draw from a private RandomState (or forced values) and record."""

    def __init__(self, rs, force_u=None):
        self.rs = rs
        self.force_u = force_u
        self.u = None
        self.choice = None
        self.g = None
        self.sigma = None
        self.calls = []

    def __enter__(self):
        self.saved = (np.random.rand, np.random.choice, np.random.normal)

        def rand(*shape):
            val = self.rs.rand(*shape)
            if self.force_u is not None:
                val = np.array(self.force_u, dtype=float)
            self.u = val
            self.calls.append("rand")
            return val

        def choice(a, *args, **kw):
            val = self.rs.choice(a, *args, **kw)
            self.choice = val
            self.calls.append("choice")
            return val

        def normal(loc=0.0, scale=1.0, size=None):
            if size is not None or np.ndim(scale) != 0:
                self.calls.append("normal(size=%r)" % (size,))      # not a draw the model knows: K will disagree
                return self.rs.normal(loc, scale, size)
            self.sigma = float(scale)
            self.calls.append("normal")
            val = self.rs.normal(loc, scale)                         # ValueError when scale < 0
            self.g = float(val)
            return val
        np.random.rand, np.random.choice, np.random.normal = rand, choice, normal
        return self

    def __exit__(self, *a):
        np.random.rand, np.random.choice, np.random.normal = self.saved


class Seeded:
    """S runs the implementation on numpy's own global generator, seeded (no wrappers: the oracle must not depend on
    which np.random functions the code calls); the previous global state is restored afterwards"""

    def __init__(self, seed):
        self.seed = seed

    def __enter__(self):
        self.state = np.random.get_state()
        np.random.seed(self.seed)
        return None

    def __exit__(self, *a):
        np.random.set_state(self.state)


def impl_random(which, pos, tj, k, sigma_scale, seed, force_u=None, wrap=True):
    """which = 'displ': find_atom_random_displ(pos, table, k, sigma_scale=..)
       which = 'move' : move_mol_atom(pos, table, k, sigma_scale=..)   (displ=None: the displacement is drawn inside)
    wrap=True records the draws (K); wrap=False only seeds the global generator (S).
    returns (value or None, error class or None, Draws or None, input_unchanged)"""
    import gaddlemaps
    fn = gaddlemaps.find_atom_random_displ if which == "displ" else gaddlemaps.move_mol_atom
    a = np.array(pos, dtype=float).reshape(-1, 3)
    saved = a.copy()
    tb = table_dict(tj)
    out, err = None, None
    with (Draws(np.random.RandomState(seed), force_u) if wrap or force_u is not None else Seeded(seed)) as dr:
        try:
            with np.errstate(all="ignore"), time_limit():
                out = fn(a, tb, k, sigma_scale=sigma_scale)
        except Hang:
            err = "EFuel"
        except tuple(EXC) as e:
            for cls, name in EXC.items():
                if isinstance(e, cls):
                    err = name
    return (None if out is None else np.array(out)), err, dr, bool((a == saved).all())


def impl_displ(pos, tj, k, sigma_scale, seed, force_u=None, wrap=True):
    return impl_random("displ", pos, tj, k, sigma_scale, seed, force_u, wrap)


# ------------------------------------------------------------------ S oracles (property text)
REL = 1e-9


def traversal_tree(tb, k):
    """the tree of first arrivals of the propagation from atom k, reconstructed independently: neighbours of k first (in
    table order), then last-in first-out; an atom is claimed by the first bond that reaches it."""
    seen = {k}
    stack = []
    for j, b in tb.get(k, []):
        seen.add(j)
        stack.append((k, j, b))
    edges = []
    while stack:
        p, c, b = stack.pop()
        edges.append((p, c, b))
        for j, b2 in tb.get(c, []):
            if j not in seen:
                seen.add(j)
                stack.append((c, j, b2))
    return edges


def bond_ok(out, i, j, b):
    return abs(np.linalg.norm(out[i] - out[j]) - b) <= REL * max(abs(b), 1e-300)


def spans(n, k, tb, out):
    """do the exactly restored bonds connect every atom that is connected to k in the bond graph?"""
    def component(edges_ok):
        comp = {k}
        todo = [k]
        while todo:
            i = todo.pop()
            for j, b in tb.get(i, []):
                if j not in comp and edges_ok(i, j, b):
                    comp.add(j)
                    todo.append(j)
        return comp
    return component(lambda i, j, b: True) == component(lambda i, j, b: bond_ok(out, i, j, b))


def judge_move(is_tree, a, tb, k, d, out, err, unchanged):
    """failed clauses of the property text for ONE call move_mol_atom(a, tb, k, d) -> out on a well-formed input
    (connected graph, generic coordinates); a = the input VALUES at the time of the call"""
    if err == "EFuel":
        return ["no result within %d s (the propagation loop does not terminate)" % CALL_LIMIT_S]
    if err is not None:
        return ["raised %s on a well-formed input" % err]
    bad = []
    dd = np.array(d, dtype=float)
    if not unchanged:
        bad.append("input array modified")
    if out.shape != a.shape:
        return bad + ["output shape %s" % (out.shape,)]
    if not np.isfinite(out).all():
        return bad + ["non-finite output"]
    scale = max(np.abs(a).max(), np.abs(dd).max())
    if np.abs(out[k] - (a[k] + dd)).max() > 1e-12 * scale:
        bad.append("moved atom is not displaced by the requested vector (off by %.3g)" % np.abs(out[k] - (a[k] + dd)).max())
    return bad + bond_failures(is_tree, a, out, tb, k)


def oracle_move(case):
    pos, tj, k, d = case["pos"], case["table"], case["k"], case["d"]
    out, err, unchanged = impl_move(pos, tj, k, d)
    return judge_move(case["tree"], np.array(pos, dtype=float), table_dict(tj), k, d, out, err, unchanged)


def bond_failures(is_tree, a, out, tb, k):
    bad = []
    if is_tree:
        wrong = [(i, j, b, float(np.linalg.norm(out[i] - out[j]))) for i in tb for j, b in tb[i] if not bond_ok(out, i, j, b)]
        if wrong:
            bad.append("%d bond(s) of the tree do not have the tabulated length, e.g. atoms %d-%d table %.12g got %.12g"
                       % ((len(wrong),) + wrong[0]))
    else:
        tree = traversal_tree(tb, k)
        wrong = [(p, c, b, float(np.linalg.norm(out[p] - out[c]))) for p, c, b in tree if not bond_ok(out, p, c, b)]
        # the statement does not fix the traversal order: another valid order is not a violation as long as the exactly
        # restored bonds still form a spanning tree rooted at the moved atom
        if wrong and not spans(len(a), k, tb, out):
            bad.append("%d bond(s) of the traversal tree are not exact, e.g. atoms %d-%d table %.12g got %.12g"
                       % ((len(wrong),) + wrong[0]))
    return bad


def perp_failures(pos, nb, k, v, slack=0.0):
    """the perpendicularity clause for a displacement v of atom k whose table neighbours are nb (INPUT positions);
    slack = absolute rounding allowance on the components of v (0 when v is the returned vector itself)"""
    bad = []
    nv = np.linalg.norm(v)

    def perp(w, name):
        nw = np.linalg.norm(w)
        if abs(np.dot(v, w)) > REL * nv * nw + slack * nw:
            bad.append("displacement not perpendicular to %s (cos = %.3g)" % (name, np.dot(v, w) / (nv * nw)))
    if len(nb) == 1:
        perp(pos[nb[0]] - pos[k], "the bond")
    elif len(nb) == 2:
        perp(pos[nb[0]] - pos[nb[1]], "the line through the two neighbours")
    elif len(nb) >= 3:
        perp(pos[nb[1]] - pos[nb[0]], "the plane of the first three neighbours (n1-n0)")
        perp(pos[nb[2]] - pos[nb[0]], "the plane of the first three neighbours (n2-n0)")
        perp(pos[nb[2]] - pos[nb[1]], "the plane of the first three neighbours (n2-n1)")
    return bad


def judge_displ(a, tb, k, out, err, unchanged):
    """generic coordinates, atom with at least one neighbour, sigma_scale >= 0; the table may agree or disagree with
    the geometry (the clause is about the CURRENT positions of the neighbours)"""
    if err is not None:
        return ["raised %s on a well-formed input" % err]
    bad = []
    if not unchanged:
        bad.append("input array modified")
    if out.shape != (3,) or not np.isfinite(out).all():
        return bad + ["displacement not a finite 3-vector: %r" % (out,)]
    nb = [j for j, _ in tb[k]]
    return bad + perp_failures(a, nb, k, out)


def oracle_displ(case):
    pos, tj, k = np.array(case["pos"], dtype=float), case["table"], case["k"]
    out, err, dr, unchanged = impl_displ(pos, tj, k, case["sigma_scale"], case["seed"], case.get("force_u"), wrap=False)
    return judge_displ(pos, table_dict(tj), k, out, err, unchanged)


def judge_move_random(is_tree, a, tb, k, out, err, unchanged):
    """move_mol_atom(pos, table, k, sigma_scale=s) with displ=None: the displacement is drawn inside, so new[k] - old[k]
    must satisfy the perpendicularity clause, and the bonds must be restored as for a given displacement"""
    if err == "EFuel":
        return ["no result within %d s (the propagation loop does not terminate)" % CALL_LIMIT_S]
    if err is not None:
        return ["raised %s on a well-formed input" % err]
    bad = []
    if not unchanged:
        bad.append("input array modified")
    if out.shape != a.shape:
        return bad + ["output shape %s" % (out.shape,)]
    if not np.isfinite(out).all():
        return bad + ["non-finite output"]
    nb = [j for j, _ in tb[k]]
    # out[k] - a[k] carries the rounding of one addition and one subtraction at the magnitude of the coordinates
    bad += perp_failures(a, nb, k, out[k] - a[k], slack=8 * np.finfo(float).eps * np.abs(a).max())
    return bad + bond_failures(is_tree, a, out, tb, k)


def oracle_move_random(case):
    a, tj, k = np.array(case["pos"], dtype=float), case["table"], case["k"]
    out, err, dr, unchanged = impl_random("move", a, tj, k, case["sigma_scale"], case["seed"], wrap=False)
    return judge_move_random(case["tree"], a, table_dict(tj), k, out, err, unchanged)


# ------------------------------------------------------------------ call histories
# A history is a sequence of calls made in ONE process by a caller that keeps what it gets: the start arrays of a few
# molecules (some of the same shape), their bond-table dicts (one dict object per molecule, reused), and every array
# returned so far.  Later calls may take an earlier result as input - the same object, a full view of it (r[:], r[...],
# r.view()) or a copy - may fail (malformed table: the exception is the caller's problem, nothing is required of that
# call) and may follow an in-place edit of a table's lengths.  The property is judged for every well-formed call on the
# values at the time of the call, and every array the caller holds (inputs and all earlier results) must keep its
# values through all later calls.
VIEWS = {"same": lambda r: r, "slice": lambda r: r[:], "ellipsis": lambda r: r[...], "view": lambda r: r.view(),
         "copy": lambda r: r.copy()}


def same_values(x, y):
    return x.shape == y.shape and x.tobytes() == y.tobytes()


def exec_history(hist, wrap):
    """runs the calls of a history against the implementation.  Returns (records, held_failures):
    records[t] = dict(a=input values before the call, out=returned object or None, snap=its values right after the
    call, err, unchanged, dr, tb=table used) or None for a table edit"""
    import gaddlemaps
    starts = [np.array(m["pos"], dtype=float).reshape(-1, 3) for m in hist["molecules"]]
    tables = [table_dict(m["table"]) for m in hist["molecules"]]
    held = [["start array of molecule %d" % i, arr, arr.copy()] for i, arr in enumerate(starts)]
    results, records, failures = {}, [], []
    for t, st in enumerate(hist["steps"]):
        m = st["mol"]
        if st["op"] == "retable":
            tables[m].clear()
            tables[m].update(table_dict(st["table"]))
            records.append(None)
            continue
        src = st.get("input", "start")
        base = results.get(src["result_of"]) if isinstance(src, dict) else None
        inp = VIEWS[src["how"]](base) if base is not None else starts[m]
        tb = table_dict(st["table"]) if st["op"] == "bad_move" else tables[m]
        a = np.array(inp, dtype=float)
        out, err, dr = None, None, None
        ctxm = Draws(np.random.RandomState(st.get("seed", 0))) if wrap else Seeded(st.get("seed", 0))
        with ctxm as dr:
            try:
                with np.errstate(all="ignore"), time_limit():
                    if st["op"] in ("move", "bad_move"):
                        out = gaddlemaps.move_mol_atom(inp, tb, st["k"], np.array(st["d"], dtype=float))
                    elif st["op"] == "move_random":
                        out = gaddlemaps.move_mol_atom(inp, tb, st["k"], sigma_scale=st["sigma_scale"])
                    else:
                        out = gaddlemaps.find_atom_random_displ(inp, tb, st["k"], sigma_scale=st["sigma_scale"])
            except Hang:
                err = "EFuel"
            except tuple(EXC) as e:
                err = [name for cls, name in EXC.items() if isinstance(e, cls)][0]
        unchanged = same_values(np.asarray(inp), a)
        # everything the caller holds keeps its values
        for h in held:
            if not same_values(h[1], h[2]):
                alias = out is not None and isinstance(out, np.ndarray) and np.shares_memory(out, h[1])
                failures.append("call %d (%s, molecule %d) changed the %s%s" % (
                    t, st["op"], m, h[0], " (the returned array shares its memory)" if alias else ""))
                h[2] = h[1].copy()
        rec = {"a": a, "out": out, "snap": None if out is None else np.array(out, dtype=float), "err": err,
               "unchanged": unchanged, "dr": dr, "tb": {i: list(l) for i, l in tb.items()},     # the table as it was at the call
               "tj": st["table"] if st["op"] == "bad_move" else None}
        if tables[m] is tb:
            rec["tj"] = table_json(tb, len(a))
        records.append(rec)
        if isinstance(out, np.ndarray) and out.shape == a.shape:
            results[t] = out
            held.append(["array returned by call %d" % t, out, out.copy()])
    return records, failures


def judge_step(hist, st, rec, out):
    mol = hist["molecules"][st["mol"]]
    if st["op"] == "move":
        return judge_move(mol["tree"], rec["a"], rec["tb"], st["k"], st["d"], out, rec["err"], rec["unchanged"])
    if st["op"] == "move_random":
        return judge_move_random(mol["tree"], rec["a"], rec["tb"], st["k"], out, rec["err"], rec["unchanged"])
    if st["op"] == "displ":
        return judge_displ(rec["a"], rec["tb"], st["k"], out, rec["err"], rec["unchanged"])
    return []          # bad_move: outside the property's domain


def oracle_history(hist):
    records, failures = exec_history(hist, wrap=False)
    bad = list(failures)
    for t, (st, rec) in enumerate(zip(hist["steps"], records)):
        if rec is None:
            continue
        now = judge_step(hist, st, rec, rec["snap"])
        bad += ["call %d (%s, molecule %d): %s" % (t, st["op"], st["mol"], msg) for msg in now]
        # the array the caller still holds at the end of the history, judged again
        if not now and rec["out"] is not None and rec["err"] is None:
            later = judge_step(hist, st, dict(rec, unchanged=True), np.array(rec["out"], dtype=float))
            bad += ["the array returned by call %d (%s, molecule %d), inspected after the later calls: %s"
                    % (t, st["op"], st["mol"], msg) for msg in later]
    return bad


def malform(rs, tj, n, k):
    """a table/atom on which move_mol_atom raises, at different stages of the walk"""
    tj = [None if l is None else [list(x) for x in l] for l in tj]
    what = ["missing_key_other", "nbr_out_of_range_k_last", "nbr_out_of_range_k_first", "dup_neighbour_k", "self_bond_k",
            "k_out_of_range", "missing_key_k"][rs.randint(0, 7)]
    other = int((k + 1 + rs.randint(0, max(1, n - 1))) % n)
    if what == "missing_key_other" and other != k:
        tj[other] = None
    elif what == "nbr_out_of_range_k_last":
        tj[k] = tj[k] + [[n + int(rs.randint(0, 4)), 0.1]]
    elif what == "nbr_out_of_range_k_first":
        tj[k] = [[n + int(rs.randint(0, 4)), 0.1]] + tj[k]
    elif what == "dup_neighbour_k" and tj[k]:
        tj[k] = tj[k] + [list(tj[k][0])]
    elif what == "self_bond_k":
        tj[k] = tj[k] + [[k, 0.1]]
    elif what == "k_out_of_range":
        k = n + int(rs.randint(0, 3))
    else:
        what = "missing_key_k"
        tj[k] = None
    return tj, k, what


def gen_history(rs):
    n0 = int(rs.randint(2, 9))
    mols = []
    for _ in range(int(rs.randint(1, 4))):
        n = n0 if rs.randint(0, 5) < 3 else int(rs.randint(2, 9))        # molecules of the same shape are common
        cyc = n >= 3 and not rs.randint(0, 4)
        bonds = molgen.random_graph(rs, n, int(rs.randint(1, 3))) if cyc else molgen.random_tree(rs, n)
        scale = 10 ** rs.uniform(-1, 1)
        pos = gen_geometry(rs, n, bonds, "walk" if rs.randint(0, 3) else "box", scale)
        mode = ["agree", "perturbed", "wide"][rs.randint(0, 3)]
        table = gen_table(rs, n, bonds, pos, mode, scale, shuffle=bool(rs.randint(0, 2)))
        mols.append({"n": n, "tree": len(bonds) == n - 1, "mode": mode, "scale": scale, "bonds": [list(b) for b in bonds],
                     "pos": np.array(pos).tolist(), "table": table_json(table, n)})
    steps, produced = [], {i: [] for i in range(len(mols))}
    for t in range(int(rs.randint(3, 10))):
        m = int(rs.randint(0, len(mols)))
        mol = mols[m]
        n, a = mol["n"], np.array(mol["pos"])
        op = ["move", "move", "move", "move", "move_random", "move_random", "displ", "bad_move", "bad_move", "retable"][
            rs.randint(0, 10)]
        if op == "retable":
            mode = ["agree", "perturbed", "wide"][rs.randint(0, 3)]
            table = gen_table(rs, n, [tuple(b) for b in mol["bonds"]], a, mode, mol["scale"], shuffle=bool(rs.randint(0, 2)))
            steps.append({"op": op, "mol": m, "table": table_json(table, n)})
            continue
        st = {"op": op, "mol": m, "k": int(rs.randint(0, n)), "seed": int(rs.randint(0, 2 ** 31))}
        if produced[m] and rs.randint(0, 3):
            st["input"] = {"result_of": int(produced[m][rs.randint(0, len(produced[m]))]),
                           "how": ["same", "slice", "ellipsis", "view", "copy"][rs.randint(0, 5)]}
        else:
            st["input"] = "start"
        if op in ("move", "bad_move"):
            st["d"] = [float(x) for x in gen_displ(rs, a, table_dict(mol["table"]), st["k"], np.abs(a).max())]
        else:
            st["sigma_scale"] = float(rs.uniform(0.05, 2))
        if op == "bad_move":
            # the table currently in force for the molecule is not known here (retable): malform the original one
            st["table"], st["k"], st["what"] = malform(rs, mol["table"], n, st["k"])
        if op in ("move", "move_random"):
            produced[m].append(t)
        steps.append(st)
    return {"kind": "history", "gen": "generic", "molecules": mols, "steps": steps}


def corpus_histories():
    """hand-made histories: (1) several conformations of one molecule generated from the same start array and kept, then a
    full view of the last one passed as input; (2) a call that fails half-way (table lacking an atom's entry, index outside
    the array) followed by valid calls on another molecule and on the same one"""
    rs = np.random.RandomState(7)

    def mol(n, bonds, mode):
        pos = gen_geometry(rs, n, bonds, "walk", 1.0)
        table = gen_table(rs, n, bonds, pos, mode, 1.0, shuffle=False)
        return {"n": n, "tree": len(bonds) == n - 1, "mode": mode, "scale": 1.0, "bonds": [list(b) for b in bonds],
                "pos": np.array(pos).tolist(), "table": table_json(table, n)}

    def mv(m, k, inp="start"):
        return {"op": "move", "mol": m, "k": k, "seed": 0, "input": inp, "d": [float(x) for x in rs.normal(0, 0.4, 3)]}
    branched = mol(7, [(0, 1), (1, 2), (2, 3), (1, 4), (2, 5), (5, 6)], "perturbed")
    yield {"kind": "history", "gen": "corpus", "molecules": [branched],
           "steps": [mv(0, 3), mv(0, 0), mv(0, 6), mv(0, 2, {"result_of": 2, "how": "slice"}),
                     mv(0, 4, {"result_of": 3, "how": "same"}), mv(0, 1, {"result_of": 4, "how": "view"})]}
    star = mol(4, [(0, 1), (0, 2), (0, 3)], "agree")
    chain = mol(5, [(0, 1), (1, 2), (2, 3), (3, 4)], "wide")
    for what in ("missing", "outside"):
        tj = [None if l is None else [list(x) for x in l] for l in star["table"]]
        if what == "missing":
            tj[3] = None                       # KeyError when the walk reaches atom 3
        else:
            tj[0] = tj[0] + [[9, 0.1]]         # ValueError after the real neighbours have been queued
        bad = {"op": "bad_move", "mol": 0, "k": 0, "seed": 0, "input": "start", "d": [0.1, -0.2, 0.3], "table": tj,
               "what": what}
        yield {"kind": "history", "gen": "corpus", "molecules": [star, chain],
               "steps": [mv(1, 2), bad, mv(1, 0), mv(0, 1), dict(bad), mv(0, 2), mv(1, 4)]}


def history_cases(ctx, rs, count):
    for _ in range(count):
        yield gen_history(rs)


def history_terms(hist):
    """K: one Coq term per call, the model (pure: value in, value out) evaluated on the input VALUES at call time against
    the values returned; returns [(term, step index)]"""
    records, _ = exec_history(hist, wrap=True)
    terms = []
    for t, (st, rec) in enumerate(zip(hist["steps"], records)):
        if rec is None:
            continue
        pos, tj, k = rec["a"].tolist(), rec["tj"], st["k"]
        out, err, dr = rec["snap"], rec["err"], rec["dr"]
        if st["op"] in ("move", "bad_move"):
            terms.append(("chk_move %s %s %d%%nat %s %s" % (coq_pos(pos), coq_table(tj), k, v3(st["d"]), coq_obs(out, err)), t))
        else:
            terms.append((fmt_random("displ" if st["op"] == "displ" else "move", pos, tj, k, st["sigma_scale"], dr, out, err), t))
    return terms


ORACLES = {"move": (oracle_move, "move_mol_atom: "), "displ": (oracle_displ, "find_atom_random_displ: "),
           "move_random": (oracle_move_random, "move_mol_atom(displ=None): "),
           "history": (oracle_history, "history of calls: ")}


def run_oracle(ctx, case):
    fn, label = ORACLES[case["kind"]]
    bad = fn(case)
    if bad:
        ctx.cov["S"]["failing_inputs"] = ctx.cov["S"].get("failing_inputs", 0) + 1
    if bad and len(ctx.violations) < MAX_REPLAYS:
        ctx.violation(label + "; ".join(bad), case, key=case["kind"])
    return bad


# ------------------------------------------------------------------ case streams
def exhaustive_trees(ctx, rs):
    nmax = ctx.n(6, 7)
    for n in range(2, nmax + 1):
        for bonds in molgen.prufer_trees(n):
            case = gen_move_case(rs, n, bonds, True, "all_trees")
            a = np.array(case["pos"])
            tb = table_dict(case["table"])
            for k in range(n):
                yield with_k(case, k, gen_displ(rs, a, tb, k, np.abs(a).max()))


def random_cases(ctx, rs, count, gens=("tree", "cyclic")):
    for _ in range(count):
        n = int(rs.randint(2, 61)) if rs.randint(0, 3) else int(rs.randint(2, 12))
        g = gens[rs.randint(0, len(gens))]
        if g == "tree" or n < 3:
            bonds, tree, g = molgen.random_tree(rs, n), True, "tree"
        else:
            bonds = molgen.random_graph(rs, n, int(rs.randint(1, max(2, n // 3))))
            tree = len(bonds) == n - 1
        case = gen_move_case(rs, n, bonds, tree, g)
        a = np.array(case["pos"])
        k = int(rs.randint(0, n))
        yield with_k(case, k, gen_displ(rs, a, table_dict(case["table"]), k, np.abs(a).max()))


def molecule_cases(ctx, rs, count):
    """bond table produced by the real Molecule.bonds_distance"""
    for c in range(count):
        n = int(rs.randint(2, 13))
        tree = bool(rs.randint(0, 2)) or n < 3
        bonds = molgen.random_tree(rs, n) if tree else molgen.random_graph(rs, n, 2)
        tree = len(bonds) == n - 1
        pos = gen_geometry(rs, n, bonds, "walk", 1.0)
        mol = molgen.make_molecule("M%d" % c, [(nm, "RES", 1) for nm in molgen.atom_names(n)], pos, bonds)
        table = mol.bonds_distance
        a = np.array(mol.atoms_positions)
        k = int(rs.randint(0, n))
        yield with_k({"kind": "move", "gen": "molecule", "tree": tree, "geo": "walk", "mode": "agree", "n": n,
                      "pos": a.tolist(), "table": table_json(table, n), "bonds": [list(b) for b in bonds]},
                     k, gen_displ(rs, a, table, k, 1.0))


def displ_cases(ctx, rs, count):
    for c in range(count):
        n = int(rs.randint(2, 9))
        kind = ["generic", "generic", "generic", "generic", "collinear", "parallel_u", "no_neighbour", "negative_sigma",
                "missing_key", "nbr_out_of_range"][rs.randint(0, 10)]
        # a star centre gives the >= 3 neighbour branch often enough
        star = not rs.randint(0, 2)
        bonds = [(0, j) for j in range(1, n)] if star else molgen.random_tree(rs, n)
        scale = 10 ** rs.uniform(-2, 2)
        pos = gen_geometry(rs, n, bonds, "walk" if rs.randint(0, 2) else "box", scale)
        mode = "wide" if rs.randint(0, 2) else "agree"       # lengths x 0.3..3: the table disagrees with the geometry
        table = gen_table(rs, n, bonds, pos, mode, scale, shuffle=bool(rs.randint(0, 2)))
        k = 0 if star and rs.randint(0, 3) else int(rs.randint(0, n))
        case = {"kind": "displ", "gen": kind, "n": n, "sigma_scale": float(rs.uniform(0, 2)), "seed": int(rs.randint(0, 2 ** 31)),
                "k": k, "mode": mode}
        if kind in ("collinear", "parallel_u"):
            pos = rs.randint(-8, 9, size=(n, 3)).astype(float) / 4.0
            nb = [j for j, _ in table[k]]
            if kind == "collinear" and len(nb) >= 3:
                dvec = rs.randint(-3, 4, size=3).astype(float)
                dvec[0] = dvec[0] or 1.0
                for t, j in enumerate(nb[:3]):
                    pos[j] = pos[nb[0]] + dvec * t / 2.0
            elif len(nb) == 2:
                while (pos[nb[0]] == pos[nb[1]]).all():
                    pos[nb[1]] = rs.randint(-8, 9, size=3) / 4.0
                w = pos[nb[0]] - pos[nb[1]]
                case["force_u"] = (np.abs(w) / 8.0).tolist() if (w >= 0).all() or (w <= 0).all() else [0.0, 0.0, 0.0]
            elif len(nb) == 1:
                w = pos[nb[0]] - pos[k]
                case["force_u"] = (np.abs(w) / 8.0).tolist() if (w >= 0).all() or (w <= 0).all() else [0.0, 0.0, 0.0]
        tj = table_json(table, n)
        if kind == "no_neighbour":
            tj[k] = []
        elif kind == "missing_key":
            tj[k] = None
        elif kind == "negative_sigma":
            case["sigma_scale"] = -float(rs.uniform(0.1, 2))
        elif kind == "nbr_out_of_range" and tj[k]:
            tj[k][int(rs.randint(0, min(3, len(tj[k]))))][0] = n + 1
        case["pos"] = np.array(pos).tolist()
        case["table"] = tj
        yield case


def move_random_cases(ctx, rs, count):
    """move_mol_atom with displ=None (the displacement is drawn inside): terminal atoms for the larger share, tables that
    agree or disagree (x 0.3..3) with the geometry, trees and cyclic graphs"""
    for c in range(count):
        n = int(rs.randint(2, 13))
        shape = rs.randint(0, 4)
        if shape == 0:
            bonds = [(0, j) for j in range(1, n)]
        elif shape == 1 and n >= 3:
            bonds = molgen.random_graph(rs, n, int(rs.randint(1, 3)))
        else:
            bonds = molgen.random_tree(rs, n)
        tree = len(bonds) == n - 1
        scale = 10 ** rs.uniform(-2, 2)
        pos = gen_geometry(rs, n, bonds, "walk" if rs.randint(0, 3) else "box", scale)
        mode = "wide" if rs.randint(0, 2) else "agree"
        table = gen_table(rs, n, bonds, pos, mode, scale, shuffle=bool(rs.randint(0, 2)))
        terminal = [i for i in range(n) if len(table[i]) == 1]
        k = int(terminal[rs.randint(0, len(terminal))]) if terminal and rs.randint(0, 3) else int(rs.randint(0, n))
        yield {"kind": "move_random", "gen": "generic", "tree": tree, "n": n, "mode": mode, "k": k,
               "sigma_scale": float(rs.uniform(0.05, 2)), "seed": int(rs.randint(0, 2 ** 31)),
               "pos": np.array(pos).tolist(), "table": table_json(table, n)}


# witness of seeded/C07-8: butane-like chain, force-field lengths 1.53 that are not the current distances
DEMO_POS = [[0.13, -0.42, 0.77], [1.48, 0.31, 0.52], [2.35, 1.58, -0.11], [3.91, 1.22, 0.64]]
DEMO_TABLE = [[[1, 1.53]], [[0, 1.53], [2, 1.53]], [[1, 1.53], [3, 1.53]], [[2, 1.53]]]


def demo_cases():
    for k in range(4):
        for seed in (12345, 1, 2, 3):
            for kind in ("displ", "move_random"):
                yield {"kind": kind, "gen": "corpus", "tree": True, "n": 4, "mode": "disagree", "k": k, "sigma_scale": 0.7,
                       "seed": seed, "pos": DEMO_POS, "table": DEMO_TABLE}


CORPUS = [
    # the five-atom molecule of test_transform_molecule.py, every atom moved off-axis
    {"kind": "move", "gen": "corpus", "tree": True, "n": 5,
     "pos": [[0, 0, 0], [1, 0, 0], [2, 0, 0], [1, 1, 0], [1, 0, 1]],
     "table": [[[1, 1.0]], [[0, 1.0], [2, 1.0], [3, 1.0], [4, 1.0]], [[1, 1.0]], [[1, 1.0]], [[1, 1.0]]]},
    # chain of six, table disagreeing with the geometry
    {"kind": "move", "gen": "corpus", "tree": True, "n": 6,
     "pos": [[0.1 * i, 0.03 * i * i, -0.02 * i] for i in range(6)],
     "table": [[[1, 0.15]], [[0, 0.15], [2, 0.2]], [[1, 0.2], [3, 0.12]], [[2, 0.12], [4, 0.3]], [[3, 0.3], [5, 0.11]],
               [[4, 0.11]]]},
    # a six-ring with a tail (cyclic: traversal-tree clause)
    {"kind": "move", "gen": "corpus", "tree": False, "n": 7,
     "pos": [[1, 0, 0.1], [0.5, 0.87, 0], [-0.5, 0.87, 0.2], [-1, 0, 0], [-0.5, -0.87, 0.1], [0.5, -0.87, 0], [2, 0.1, 0.3]],
     "table": [[[1, 1.0], [5, 1.0], [6, 1.1]], [[0, 1.0], [2, 1.0]], [[1, 1.0], [3, 1.0]], [[2, 1.0], [4, 1.0]],
               [[3, 1.0], [5, 1.0]], [[0, 1.0], [4, 1.0]], [[0, 1.1]]]},
]


def corpus_cases():
    for c in CORPUS:
        for k in range(c["n"]):
            for d in ([0.3, -0.2, 0.5], [0.0, 0.0, 0.0], [-1.0, 0.25, 0.125]):
                case = with_k(c, k, d)
                case["mode"], case["geo"] = "corpus", "corpus"
                yield case


def corpus(ctx):
    S = ctx.cov["S"]
    S["corpus"] = 0
    for case in itertools.chain(corpus_cases(), demo_cases(), corpus_histories()):
        S["corpus"] += 1
        run_oracle(ctx, case)


# ------------------------------------------------------------------ Coq terms
def coq_pos(p):
    return lib.coq_list([v3(x) for x in p])


def coq_table(tj):
    items = []
    for l in tj:
        if l is None:
            items.append("None")
        else:
            items.append("Some " + lib.coq_list(["(%d%%nat, %s)" % (j, fl(b)) for j, b in l]))
    return lib.coq_list(items)


def coq_obs(out, err, one=False):
    if err is not None:
        return "(Err %s)" % err
    if not np.isfinite(out).all():
        return "(Err EDiv0)"
    return "(Ok %s)" % (v3(out) if one else coq_pos(out))


def term_move(case):
    out, err, unchanged = impl_move(case["pos"], case["table"], case["k"], case["d"])
    t = "chk_move %s %s %d%%nat %s %s" % (coq_pos(case["pos"]), coq_table(case["table"]), case["k"], v3(case["d"]),
                                         coq_obs(out, err))
    return t, out, err, unchanged


def fmt_random(which, pos, tj, k, sigma_scale, dr, out, err):
    u = dr.u if dr.u is not None else np.zeros(3)
    neg = dr.choice is not None and int(dr.choice) == -1
    g = dr.g if dr.g is not None else 0.0
    draws = "%s %s %s" % (v3(u), "true" if neg else "false", fl(g))
    if which == "displ":
        return "chk_displ %s %s %d%%nat %s %s %s %s" % (
            coq_pos(pos), coq_table(tj), k, fl(sigma_scale), draws,
            "None" if dr.sigma is None else "(Some %s)" % fl(dr.sigma), coq_obs(out, err, one=True))
    return "chk_move_random %s %s %d%%nat %s %s %s" % (coq_pos(pos), coq_table(tj), k, fl(sigma_scale), draws, coq_obs(out, err))


def term_displ(case):
    which = "displ" if case["kind"] == "displ" else "move"
    out, err, dr, unchanged = impl_random(which, case["pos"], case["table"], case["k"], case["sigma_scale"], case["seed"],
                                          case.get("force_u"))
    t = fmt_random(which, case["pos"], case["table"], case["k"], case["sigma_scale"], dr, out, err)
    return t, out, err, dr, unchanged


# ------------------------------------------------------------------ check entry points
def well_formed(case):
    return case["gen"] in ("all_trees", "tree", "cyclic", "molecule", "corpus") or \
        (case["kind"] in ("displ", "move_random") and case["gen"] == "generic")


def correspondence(ctx):
    rs = ctx.np_rng("K")
    K = ctx.cov["K"]
    hist = {}

    def h(key):
        hist[key] = hist.get(key, 0) + 1

    stream = itertools.chain(
        corpus_cases(),
        exhaustive_trees(ctx, rs),
        random_cases(ctx, rs, ctx.n(300, 4000)),
        molecule_cases(ctx, rs, ctx.n(12, 100)),
        (gen_malformed(rs) for _ in range(ctx.n(300, 3000))),
        displ_cases(ctx, rs, ctx.n(600, 8000)),
        demo_cases(),
        move_random_cases(ctx, rs, ctx.n(400, 5000)))
    cases, meta = [], []
    for case in stream:
        if case["kind"] == "move":
            t, out, err, unchanged = term_move(case)
            a = np.array(case["pos"], dtype=float)
            moved = 0
            if out is not None and out.shape == a.shape and np.isfinite(out).all():
                moved = int((np.abs(out - a).max(axis=1) > 0).sum()) - 1
            h("move/%s/n=%s" % (case["gen"], case["n"] if case["n"] <= 7 else "8-60"))
            h("move/table=%s" % case.get("mode"))
            h("move/outcome=%s" % (err or ("nan" if not np.isfinite(out).all() else "ok")))
            if case["gen"] == "malformed":
                h("move/malformed/%s" % case["what"])
            ctx.count(("move", case["pos"], case["table"], case["k"], case["d"]), nontrivial=(moved > 0 or err is not None))
        else:
            t, out, err, dr, unchanged = term_displ(case)
            nb = case["table"][case["k"]]
            h("%s/%s/neighbours=%s" % (case["kind"], case["gen"], "none" if nb is None else min(len(nb), 3)))
            h("%s/table=%s" % (case["kind"], case.get("mode")))
            h("%s/outcome=%s" % (case["kind"], err or ("nan" if not np.isfinite(out).all() else "ok")))
            ctx.count((case["kind"], case["pos"], case["table"], case["k"], case["sigma_scale"], case["seed"]))
        cases.append(t)
        meta.append(case)
        # S on the same cases (only where the property text speaks: well-formed inputs)
        if well_formed(case):
            run_oracle(ctx, case)
            ctx.cov["S"]["on_K_cases"] = ctx.cov["S"].get("on_K_cases", 0) + 1
    nh = 0
    for hcase in itertools.chain(corpus_histories(), history_cases(ctx, rs, ctx.n(300, 3000))):
        nh += 1
        for t, step in history_terms(hcase):
            cases.append(t)
            meta.append({"kind": "history_step", "gen": "history", "step": step, "history": hcase})
            st = hcase["steps"][step]
            src = st.get("input", "start")
            h("history/%s/input=%s" % (st["op"], src if isinstance(src, str) else src["how"]))
        h("history/calls=%d" % len(hcase["steps"]))
        ctx.count(("history", hcase["molecules"][0]["pos"], len(hcase["steps"]), hcase["steps"][0].get("seed")))
        run_oracle(ctx, hcase)
        ctx.cov["S"]["histories_on_K_cases"] = ctx.cov["S"].get("histories_on_K_cases", 0) + 1
    K["histories"] = nh
    for i in (0, 60, len(cases) // 2, len(cases) - 1):
        m = dict(meta[i])
        if m["kind"] == "history_step":
            m = {"kind": "history_step", "step": m["step"], "steps": m["history"]["steps"][:4]}
        elif len(m["pos"]) > 8:
            m = {key: m[key] for key in m if key not in ("pos", "table", "bonds")}
        ctx.sample(m)
    codes, log = lib.run_coq_cases(ctx.cid, "K", HEADER, cases, shard=ctx.n(300, 1000))
    K["cases"] = len(cases)
    K["input_distribution"] = dict(sorted(hist.items()))
    K["log"] = log
    if codes is None:
        K["error"] = log
        return [{"error": "coqc failed on the correspondence cases", "log": log[-1500:]}]
    K["disagree"] = sum(1 for c in codes.values() if c in (1, 3))
    K["indeterminate"] = sum(1 for c in codes.values() if c == 2)
    K["agree"] = len(cases) - len(codes)
    dis = [dict(meta[i], code=c) for i, c in sorted(codes.items()) if c in (1, 3)]
    # DESIGN 4.5: the oracle decides which side is wrong
    for dcase in dis[:50]:
        if well_formed(dcase):
            run_oracle(ctx, dcase)
    return dis


def oracle(ctx, scale):
    rs = ctx.np_rng("S%d" % scale)
    S = ctx.cov["S"]
    fails = 0
    n_move = ctx.n(400, 6000) * scale
    n_displ = ctx.n(300, 4000) * scale
    hist = {}
    for case in random_cases(ctx, rs, n_move):
        ctx.count(("smove", case["pos"], case["table"], case["k"], case["d"]))
        hist["tree" if case["tree"] else "cyclic"] = hist.get("tree" if case["tree"] else "cyclic", 0) + 1
        fails += bool(run_oracle(ctx, case))
    nd = 0
    for case in displ_cases(ctx, rs, n_displ * 2):
        if case["gen"] != "generic":
            continue
        nd += 1
        ctx.count(("sdispl", case["pos"], case["table"], case["k"], case["seed"]))
        fails += bool(run_oracle(ctx, case))
    nr = 0
    for case in move_random_cases(ctx, rs, ctx.n(300, 4000) * scale):
        nr += 1
        ctx.count(("smove_random", case["pos"], case["table"], case["k"], case["seed"]))
        fails += bool(run_oracle(ctx, case))
    S["move_random_x%d" % scale] = nr
    nh = 0
    for hcase in history_cases(ctx, rs, ctx.n(300, 3000) * scale):
        nh += 1
        ctx.count(("shistory", hcase["molecules"][0]["pos"], len(hcase["steps"]), hcase["steps"][0].get("seed")))
        fails += bool(run_oracle(ctx, hcase))
    S["histories_x%d" % scale] = nh
    if scale > 1:
        # enlarged search: the exhaustive tree family again with fresh geometry
        for case in exhaustive_trees(ctx, rs):
            fails += bool(run_oracle(ctx, case))
    S["move_x%d" % scale] = n_move
    S["move_distribution_x%d" % scale] = hist
    S["displ_x%d" % scale] = nd
    S["failures"] = S.get("failures", 0) + fails


def replay(ctx, obj):
    r = obj["replay"]
    if r.get("kind") in ORACLES:
        bad = ORACLES[r["kind"]][0](r)
        print(bad)
        return not bad
    print("replay names a proof/correspondence, not an input:", str(r)[:600])
    return False


def finish(ctx):
    ctx.assumptions = [
        "theorems are exact statements over the real numbers about coq/Model/Transform.v; IEEE rounding is modelled, not "
        "verified: the 1e-9 relative tolerance on bond lengths and on perpendicularity is checked on the implementation by "
        "the S oracle (testing)",
        "'generic coordinates' is the hypothesis that the run returns Ok (no processed pair of atoms coincides, the cross "
        "product is non-zero); Err EDiv0 of the model corresponds to nan in the numpy output and is compared in K",
        "the random draws of find_atom_random_displ are explicit arguments of the model (recorded by wrapping np.random.rand / "
        "choice / normal); nothing is claimed about their distribution",
        "np.copy of the input (purity, fresh result, no state kept between calls) is outside the value-semantics model; it is "
        "checked on every K and S case and over call histories (inputs and all earlier results keep their values)",
        "negative atom indices (Python wrap-around) and non-float arrays are outside the model",
    ]
    return ctx.finish(level="proof", rule=RULE,
                      trusted=["numpy evaluation order of norm/cross and deque/dict semantics written out by hand in "
                               "coq/Model/Transform.v"])
