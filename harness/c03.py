"""C03 - exchange map is local and shape-preserving under deformation."""
import numpy as np

import em_common as E

RULE = ("as C01 (references of 3-40 atoms; generic, partially collinear, collinear, grid geometries); the map is applied to a "
        "new conformation: every reference atom displaced independently (sigma 0.05-0.3 nm), or, for collinear references, a "
        "new collinear conformation (anchors stay in the fallback branch at the call).  Each case is a call SEQUENCE on "
        "one map object (fresh copies, the construction Molecule object itself, in-place deformations of it); the laws are "
        "checked on every call against the conformation actually passed.  S additionally displaces each "
        "reference atom in turn (locality), alternately on a copy and in place on the construction object.  A case is non-trivial when distinct.")

TOL = 1e-9
TOL_LOCAL = 1e-12


def deform(rs, spec):
    ref = np.array(spec["ref"], dtype=float)
    n = len(ref)
    if spec["geom"].startswith("collinear") and rs.randint(2):
        d = E.int_direction(rs, "int")
        ks = rs.permutation(np.arange(-n, 2 * n))[:n].astype(float)
        return (rs.randint(-8, 9, size=3).astype(float)[None, :] + ks[:, None] * d[None, :]) * 0.125
    refp = ref + rs.normal(size=ref.shape) * rs.uniform(0.05, 0.3)
    while E.min_separation(refp) < 1e-3:
        refp = ref + rs.normal(size=ref.shape) * rs.uniform(0.05, 0.3)
    return refp


def _call_failures(spec, nb, per, pos, out, label):
    """radius and cluster clauses for one call: `out` is the result for the conformation `pos` actually passed"""
    ref, tgt, s = np.array(spec["ref"], dtype=float), np.array(spec["tgt"], dtype=float), float(spec["s"])
    if not np.isfinite(out).all():
        return ["%s: non-finite result" % label]
    bad = []
    for k in range(len(tgt)):
        a = per[k]
        got, want = np.linalg.norm(out[k] - pos[a]), abs(s) * np.linalg.norm(tgt[k] - ref[a])     # |s|: a distance
        if abs(got - want) > TOL:
            bad.append("%s: mapped atom %d: distance to its anchor %d is %.12g, s * construction distance is %.12g" % (
                label, k, a, got, want))
    for j in range(len(tgt)):
        for k in range(j + 1, len(tgt)):
            if per[j] == per[k]:
                got, want = np.linalg.norm(out[j] - out[k]), abs(s) * np.linalg.norm(tgt[j] - tgt[k])
                if abs(got - want) > TOL:
                    bad.append("%s: mapped atoms %d,%d share anchor %d: distance %.12g, s * construction distance %.12g" % (
                        label, j, k, per[j], got, want))
    return bad


def shape_failures(spec, steps, probes, rs_seed=0):
    """The property text for one pair and a call sequence on ONE map object (fresh copies, the construction Molecule
    object itself, in-place deformations of it): radius and cluster on EVERY call against the conformation actually
    passed; then locality around the last conformation: the atoms in `probes` are displaced one at a time
    (alternately on a fresh copy and in place on the construction object) and the same map is called again."""
    n = spec["n_ref"]
    ref, tgt = np.array(spec["ref"], dtype=float), np.array(spec["tgt"], dtype=float)
    bonds = [tuple(b) for b in spec["bonds"]]
    if n < 3 or not E.anchors_of(n, bonds) or E.min_separation(ref) == 0.0:
        return []
    if any("pos" in st and E.min_separation(st["pos"]) == 0.0 for st in steps):
        return []
    if any(a["act"] == "ref_inplace" and E.min_separation(a["pos"]) == 0.0 for st in steps for a in st.get("pre", [])):
        return []
    res = E.run_sequence(spec, steps)
    if "err" in res:
        return ["raised %s" % res["err"]]
    nb = E.neighbours(n, bonds)
    per = E.per_target_anchor(res["eq"], len(tgt), -1)
    for k in range(len(tgt)):
        if per[k] < 0 or len(nb[per[k]]) < 2:
            return ["target atom %d has no valid anchor (%s)" % (k, per[k])]
    bad = []
    for i, c in enumerate(res["calls"]):
        # judged on the HELD result, read at the end of the sequence
        bad += _call_failures(spec, nb, per, c["pos"], c["out_end"], "call %d of the sequence (%s)" % (i, c["how"]))
    if not res["tgt_unchanged"]:
        bad.append("the target molecule passed to the constructor was modified by the calls")
    if not res["eq_stable"]:
        bad.append("the public equivalences changed between construction and the end of the sequence")
    bad = res["held_problems"][:3] + bad
    if bad or not probes:
        return bad[:5]
    # locality: displace one reference atom at a time, call the same map again
    rs = np.random.RandomState(rs_seed)
    m = res["map"]
    refmol = E.ref_mol(spec)
    refp, out = res["calls"][-1]["pos"], res["calls"][-1]["out"]
    for idx, j in enumerate(probes):
        refq = refp.copy()
        refq[j] += rs.normal(size=3) * 0.2
        if idx % 2:
            refmol.atoms_positions = refq
            arg, how = refmol, "in place on the construction object"
        else:
            arg, how = refmol.copy(), "on a fresh copy"
            arg.atoms_positions = refq
        with np.errstate(all="ignore"):
            out2 = np.array(m(arg).atoms_positions, dtype=float)
        for k in range(len(tgt)):
            a = per[k]
            if j in (a, nb[a][0], nb[a][1]):
                continue
            dev = np.abs(out2[k] - out[k]).max()
            if not dev <= TOL_LOCAL:
                bad.append("mapped atom %d (anchor %d, frame neighbours %d,%d) moved by %.3g when reference atom %d was displaced %s" % (
                    k, a, nb[a][0], nb[a][1], dev, j, how))
    # the result of the last call of the sequence is still held: the probe calls must not have touched it
    still = np.array(res["held"][-1].atoms_positions, dtype=float)
    if still.shape != out.shape or not np.array_equal(still, out):
        bad.append("the molecule returned by the last call of the sequence (held by the caller) was moved by later calls")
    return bad[:5]


def gen_steps(rs, spec):
    return E.make_steps(rs, spec, deform)


def _probes(rs, n):
    return list(range(n)) if n <= 8 else sorted(int(x) for x in rs.permutation(n)[:8])


def _chain(points, tgt, s, geom):
    n = len(points)
    return {"n_ref": n, "graph": "chain", "geom": geom, "bonds": [[i, i + 1] for i in range(n - 1)],
            "ref": [list(map(float, p)) for p in points], "tgt": tgt, "s": s}


_TG = [[0.1, 0.2, 0.3], [0.0, 0.5, 1.7], [1.0, 1.0, 1.0], [-0.3, 0.1, 0.9], [0.2, 0.1, 0.4]]
CORPUS = [
    # D1 witnesses as construction-time reference and as new conformation
    (_chain([(0, 0, 0), (0, 0, 1), (0, 0, 2)], _TG, 1.0, "collinear_axis"), [[1, 1, 1], [2, 2, 2], [3, 3, 3]]),
    (_chain([(0, 0, 0), (1, 1, 1), (2, 2, 2)], _TG, 0.5, "collinear_diag"), [[0, 0, 0], [3, 0, 4], [6, 0, 8]]),
    (_chain([(0, 0, 0), (3, 0, 4), (6, 0, 8)], _TG, 1.0, "collinear_int"), [[0.1, 0.2, 0.3], [0.4, 0.8, 1.2], [0.7, 1.4, 2.1]]),
    (_chain([(0, 0, 0), (0.1, 0.05, 0), (0.2, 0, 0.03), (0.3, 0.1, 0.1), (0.4, 0, 0)], _TG, 0.7, "generic"),
     [[0, 0, 0], [0, 0, 0.1], [0, 0, 0.2], [0, 0, 0.3], [0.1, 0, 0.3]]),
]


def _single(refp):
    return [{"how": "copy", "pos": np.array(refp, dtype=float).tolist()}]


# witness of the seeded change C03-2 (frames not recomputed when the argument is the construction object): 5-chain,
# 6-atom target; construction object, three deformed+moved copies, construction object again, in-place deformation
_W_REF = np.array([[1.00, 1.00, 1.00], [1.15, 1.02, 0.97], [1.17, 1.16, 1.03], [1.02, 1.15, 1.06], [0.98, 1.27, 1.15]])
_W_TGT = np.array([_W_REF[1] + [0.03, 0.02, -0.01], _W_REF[1] + [-0.02, 0.03, 0.02], _W_REF[2] + [0.01, -0.03, 0.03],
                   _W_REF[3] + [-0.03, -0.01, -0.02], _W_REF[3] + [0.02, -0.03, 0.01], _W_REF[3] + [0.03, 0.01, -0.03]])


def _witness_sequences():
    rng = np.random.RandomState(99)
    out = []
    for sc in (1.0, 0.5, 1.3):
        steps = [{"how": "object"}]
        for _ in range(3):
            steps.append({"how": "copy", "pos": (_W_REF + rng.uniform(-0.04, 0.04, _W_REF.shape) + rng.uniform(-2, 2, 3)).tolist()})
        steps.append({"how": "object"})
        steps.append({"how": "inplace", "pos": (_W_REF + rng.uniform(-0.04, 0.04, _W_REF.shape)).tolist()})
        steps.append({"how": "object"})
        out.append((_chain(_W_REF, _W_TGT.tolist(), sc, "generic"), steps))
    return out


def _witness_c03_8():
    """seeded change C03-8 (projections computed lazily at the first call from the live construction objects): the
    shipped curcumin pair, s = 0.5; the equivalences are read, the construction reference is given its next
    conformation in place (every atom displaced independently) and only then the map is applied for the first time -
    on that object, then on an independent copy in the same conformation; also with the target moved in place"""
    rng = np.random.RandomState(7)
    out = []
    for spec in E.shipped_specs(40):
        if spec["geom"] != "shipped_CUR" or spec["s"] != 0.5:
            continue
        ref = np.array(spec["ref"], dtype=float)
        tgt = np.array(spec["tgt"], dtype=float)
        new = (ref + rng.normal(scale=0.05, size=ref.shape)).tolist()
        out.append((spec, [{"how": "inplace", "pos": new, "pre": [{"act": "read_eq"}]}, {"how": "copy", "pos": new}]))
        out.append((spec, [{"how": "copy", "pos": new, "pre": [{"act": "read_eq"}, {"act": "tgt_inplace", "pos": (tgt + [1.0, -2.0, 0.5]).tolist()}]},
                           {"how": "object"}]))
        out.append((spec, [{"how": "copy", "pos": spec["ref"], "pre": [{"act": "ref_inplace", "pos": new, "via": "atoms"}]},
                           {"how": "object"}]))
    return out


def _shipped(ctx):
    """the shipped pairs with a deformed conformation of the coarse-grained molecule"""
    rs = ctx.np_rng("shipped")
    return [(sp, deform(rs, sp)) for sp in E.shipped_specs(ctx.n(40, 10 ** 6)) if sp["n_ref"] >= 3 and sp["s"] == 0.5]


def _corpus_items(ctx):
    items = [(spec, _single(refp)) for spec, refp in CORPUS + _shipped(ctx)]
    items += [(spec, [{"how": "object"}] + _single(refp) + [{"how": "object"}, {"how": "inplace", "pos": np.array(refp, dtype=float).tolist()}])
              for spec, refp in CORPUS]
    items += _witness_sequences() + _witness_c03_8()
    return items


def corpus(ctx):
    S = ctx.cov["S"]
    S["corpus"] = 0
    for spec, steps in _corpus_items(ctx):
        probes = list(range(min(spec["n_ref"], 40)))
        bad = shape_failures(spec, steps, probes)
        S["corpus"] += 1
        if bad:
            ctx.violation("deformation: " + "; ".join(bad),
                          {"kind": "c03", "spec": spec, "steps": E.steps_json(steps), "probes": probes}, key="shape")


def correspondence(ctx):
    rs = ctx.np_rng("K")
    items = [(spec, steps, {"kind": "c03", "stream": "corpus"}) for spec, steps in _corpus_items(ctx)]
    for i in range(ctx.n(200, 3000)):
        spec = E.gen_spec(rs, E.GEOMS_GENERIC[i % len(E.GEOMS_GENERIC)])
        items.append((spec, gen_steps(rs, spec), {"kind": "c03", "stream": "generic"}))
    for i in range(ctx.n(130, 2000)):
        spec = E.gen_spec(rs, E.GEOMS_DYADIC[i % len(E.GEOMS_DYADIC)])
        items.append((spec, gen_steps(rs, spec), {"kind": "c03", "stream": "dyadic"}))
    return E.run_K(ctx, items, lambda d: shape_failures(d["spec"], d["steps"], _probes(np.random.RandomState(0), d["spec"]["n_ref"])))


def oracle(ctx, scale):
    rs = ctx.np_rng("S%d" % scale)
    S = ctx.cov["S"]
    n = ctx.n(300, 5000) * scale
    geoms = ["generic", "generic", "generic", "partial", "collinear_decimal", "collinear_axis", "collinear_diag",
             "collinear_int", "grid", "nearlinear", "elastic"]
    fails = 0
    hist, pats = {}, {}
    nprobe = ncalls = 0
    for i in range(n):
        spec = E.gen_spec(rs, geoms[i % len(geoms)])
        steps = gen_steps(rs, spec)
        probes = _probes(rs, spec["n_ref"])
        nprobe += len(probes)
        ncalls += len(steps)
        bad = shape_failures(spec, steps, probes, rs_seed=i)
        hist[spec["geom"]] = hist.get(spec["geom"], 0) + 1
        pk = ",".join(st["how"] for st in steps)
        pats[pk] = pats.get(pk, 0) + 1
        ctx.count(("S", spec["bonds"], spec["ref"], spec["tgt"], spec["s"], E.steps_json(steps)))
        if bad:
            fails += 1
            ctx.violation("deformation: " + "; ".join(bad),
                          {"kind": "c03", "spec": spec, "steps": E.steps_json(steps), "probes": probes, "rs_seed": i}, key="shape")
    S["deformation_sequences_x%d" % scale] = n
    S["calls_x%d" % scale] = ncalls
    S["locality_probes_x%d" % scale] = nprobe
    S["input_distribution"] = hist
    S["sequence_patterns"] = pats
    S["failures"] = S.get("failures", 0) + fails


def replay(ctx, obj):
    r = obj["replay"]
    if "spec" not in r:
        print("replay names a proof/correspondence, not an input:", r)
        return False
    probes = r.get("probes", list(range(r["spec"]["n_ref"])))
    steps = r["steps"] if "steps" in r else _single(r["refp"])
    bad = shape_failures(r["spec"], steps, probes, rs_seed=r.get("rs_seed", 0))
    print(bad)
    return not bad


def finish(ctx):
    ctx.assumptions = [
        "theorems are exact statements over the real numbers; IEEE rounding is modelled, not verified: the 1e-9 / 1e-12 nm "
        "tolerances of the property are checked on the implementation by the S oracle (testing)",
        "the new conformation has pairwise distinct atom positions (coincident frame atoms give NaN in numpy, Err EDiv0 in the model)",
        "the argument of the call has the bond graph of the construction-time reference (same species)",
        "radius and cluster laws are stated with |s| (equal to s on the property's range s > 0)",
        "locality is proved for references of >= 3 atoms; 1-/2-atom references use fresh random points at every call",
    ]
    return ctx.finish(level="proof", rule=RULE,
                      trusted=["numpy/scipy evaluation order (np.dot, np.cross, np.linalg.norm, scipy euclidean) written out by "
                               "hand in coq/Model/ExchangeMap.v and coq/Model/Aux.v"])
