"""C03 - exchange map is local and shape-preserving under deformation."""
import numpy as np

import em_common as E

RULE = ("as C01 (references of 3-40 atoms; generic, partially collinear, collinear, grid geometries); the map is applied to a "
        "new conformation: every reference atom displaced independently (sigma 0.05-0.3 nm), or, for collinear references, a "
        "new collinear conformation (anchors stay in the fallback branch at the call).  S additionally displaces each "
        "reference atom in turn (locality).  A case is non-trivial when distinct.")

TOL = 1e-9
TOL_LOCAL = 1e-12


def deform(rs, spec):
    ref = np.array(spec["ref"], dtype=float)
    n = len(ref)
    if spec["geom"].startswith("collinear") and rs.randint(2):
        d = E.int_direction(rs, "int")
        ks = rs.permutation(np.arange(-n, 2 * n))[:n].astype(float)
        return (rs.randint(-8, 9, size=3).astype(float)[None, :] + ks[:, None] * d[None, :]) * 0.125
    refp = ref + rs.normal(size=ref.shape) * rs.uniform(0.05, 0.3)
    while E.min_separation(refp) < 1e-3:
        refp = ref + rs.normal(size=ref.shape) * rs.uniform(0.05, 0.3)
    return refp


def shape_failures(spec, refp, probes, rs_seed=0):
    """the property text for one pair and one new conformation; probes = reference atoms to displace in turn"""
    n = spec["n_ref"]
    ref, tgt, s = np.array(spec["ref"], dtype=float), np.array(spec["tgt"], dtype=float), float(spec["s"])
    refp = np.array(refp, dtype=float)
    bonds = [tuple(b) for b in spec["bonds"]]
    if n < 3 or not E.anchors_of(n, bonds) or E.min_separation(ref) == 0.0 or E.min_separation(refp) == 0.0:
        return []
    r = E.run_impl(spec, refp)
    if "err" in r:
        return ["raised %s" % r["err"]]
    out = r["out"]
    if not np.isfinite(out).all():
        return ["non-finite result"]
    nb = E.neighbours(n, bonds)
    per = E.per_target_anchor(r["eq"], len(tgt), -1)
    bad = []
    for k in range(len(tgt)):
        a = per[k]
        if a < 0 or len(nb[a]) < 2:
            return ["target atom %d has no valid anchor (%s)" % (k, a)]
        got, want = np.linalg.norm(out[k] - refp[a]), s * np.linalg.norm(tgt[k] - ref[a])
        if abs(got - want) > TOL:
            bad.append("mapped atom %d: distance to its anchor %d is %.12g, s * construction distance is %.12g" % (k, a, got, want))
    for j in range(len(tgt)):
        for k in range(j + 1, len(tgt)):
            if per[j] == per[k]:
                got, want = np.linalg.norm(out[j] - out[k]), s * np.linalg.norm(tgt[j] - tgt[k])
                if abs(got - want) > TOL:
                    bad.append("mapped atoms %d,%d share anchor %d: distance %.12g, s * construction distance %.12g" % (
                        j, k, per[j], got, want))
    # locality: displace one reference atom at a time, call the same map again
    rs = np.random.RandomState(rs_seed)
    m = r["map"]
    refmol = E.get_mol("R", n, spec["bonds"])
    for j in probes:
        refq = refp.copy()
        refq[j] += rs.normal(size=3) * 0.2
        arg = refmol.copy()
        arg.atoms_positions = refq
        with np.errstate(all="ignore"):
            out2 = np.array(m(arg).atoms_positions, dtype=float)
        for k in range(len(tgt)):
            a = per[k]
            if j in (a, nb[a][0], nb[a][1]):
                continue
            dev = np.abs(out2[k] - out[k]).max()
            if not dev <= TOL_LOCAL:
                bad.append("mapped atom %d (anchor %d, frame neighbours %d,%d) moved by %.3g when reference atom %d was displaced" % (
                    k, a, nb[a][0], nb[a][1], dev, j))
    return bad[:5]


def _probes(rs, n):
    return list(range(n)) if n <= 8 else sorted(int(x) for x in rs.permutation(n)[:8])


def _chain(points, tgt, s, geom):
    n = len(points)
    return {"n_ref": n, "graph": "chain", "geom": geom, "bonds": [[i, i + 1] for i in range(n - 1)],
            "ref": [list(map(float, p)) for p in points], "tgt": tgt, "s": s}


_TG = [[0.1, 0.2, 0.3], [0.0, 0.5, 1.7], [1.0, 1.0, 1.0], [-0.3, 0.1, 0.9], [0.2, 0.1, 0.4]]
CORPUS = [
    # D1 witnesses as construction-time reference and as new conformation
    (_chain([(0, 0, 0), (0, 0, 1), (0, 0, 2)], _TG, 1.0, "collinear_axis"), [[1, 1, 1], [2, 2, 2], [3, 3, 3]]),
    (_chain([(0, 0, 0), (1, 1, 1), (2, 2, 2)], _TG, 0.5, "collinear_diag"), [[0, 0, 0], [3, 0, 4], [6, 0, 8]]),
    (_chain([(0, 0, 0), (3, 0, 4), (6, 0, 8)], _TG, 1.0, "collinear_int"), [[0.1, 0.2, 0.3], [0.4, 0.8, 1.2], [0.7, 1.4, 2.1]]),
    (_chain([(0, 0, 0), (0.1, 0.05, 0), (0.2, 0, 0.03), (0.3, 0.1, 0.1), (0.4, 0, 0)], _TG, 0.7, "generic"),
     [[0, 0, 0], [0, 0, 0.1], [0, 0, 0.2], [0, 0, 0.3], [0.1, 0, 0.3]]),
]


def _shipped(ctx):
    """the shipped pairs with a deformed conformation of the coarse-grained molecule"""
    rs = ctx.np_rng("shipped")
    return [(sp, deform(rs, sp)) for sp in E.shipped_specs(ctx.n(40, 10 ** 6)) if sp["n_ref"] >= 3 and sp["s"] == 0.5]


def corpus(ctx):
    S = ctx.cov["S"]
    S["corpus"] = 0
    for spec, refp in CORPUS + _shipped(ctx):
        probes = list(range(min(spec["n_ref"], 40)))
        bad = shape_failures(spec, refp, probes)
        S["corpus"] += 1
        if bad:
            ctx.violation("deformation: " + "; ".join(bad),
                          {"kind": "c03", "spec": spec, "refp": np.array(refp).tolist(), "probes": probes}, key="shape")


def correspondence(ctx):
    rs = ctx.np_rng("K")
    items = [(spec, refp, {"kind": "c03", "stream": "corpus"})
             for spec, refp in CORPUS + _shipped(ctx)]
    for i in range(ctx.n(330, 5000)):
        spec = E.gen_spec(rs, E.GEOMS_GENERIC[i % len(E.GEOMS_GENERIC)])
        items.append((spec, deform(rs, spec), {"kind": "c03", "stream": "generic"}))
    for i in range(ctx.n(220, 3500)):
        spec = E.gen_spec(rs, E.GEOMS_DYADIC[i % len(E.GEOMS_DYADIC)])
        items.append((spec, deform(rs, spec), {"kind": "c03", "stream": "dyadic"}))
    return E.run_K(ctx, items, lambda d: shape_failures(d["spec"], d["refp"], _probes(np.random.RandomState(0), d["spec"]["n_ref"])))


def oracle(ctx, scale):
    rs = ctx.np_rng("S%d" % scale)
    S = ctx.cov["S"]
    n = ctx.n(300, 5000) * scale
    geoms = ["generic", "generic", "generic", "partial", "collinear_decimal", "collinear_axis", "collinear_diag",
             "collinear_int", "grid"]
    fails = 0
    hist = {}
    nprobe = 0
    for i in range(n):
        spec = E.gen_spec(rs, geoms[i % len(geoms)])
        refp = deform(rs, spec)
        probes = _probes(rs, spec["n_ref"])
        nprobe += len(probes)
        bad = shape_failures(spec, refp, probes, rs_seed=i)
        hist[spec["geom"]] = hist.get(spec["geom"], 0) + 1
        ctx.count(("S", spec["bonds"], spec["ref"], spec["tgt"], spec["s"], refp.tolist()))
        if bad:
            fails += 1
            ctx.violation("deformation: " + "; ".join(bad),
                          {"kind": "c03", "spec": spec, "refp": refp.tolist(), "probes": probes, "rs_seed": i}, key="shape")
    S["deformation_cases_x%d" % scale] = n
    S["locality_probes_x%d" % scale] = nprobe
    S["input_distribution"] = hist
    S["failures"] = S.get("failures", 0) + fails


def replay(ctx, obj):
    r = obj["replay"]
    if "spec" not in r:
        print("replay names a proof/correspondence, not an input:", r)
        return False
    probes = r.get("probes", list(range(r["spec"]["n_ref"])))
    bad = shape_failures(r["spec"], r["refp"], probes, rs_seed=r.get("rs_seed", 0))
    print(bad)
    return not bad


def finish(ctx):
    ctx.assumptions = [
        "theorems are exact statements over the real numbers; IEEE rounding is modelled, not verified: the 1e-9 / 1e-12 nm "
        "tolerances of the property are checked on the implementation by the S oracle (testing)",
        "the new conformation has pairwise distinct atom positions (coincident frame atoms give NaN in numpy, Err EDiv0 in the model)",
        "the argument of the call has the bond graph of the construction-time reference (same species)",
        "radius and cluster laws are stated with |s| (equal to s on the property's range s > 0)",
        "locality is proved for references of >= 3 atoms; 1-/2-atom references use fresh random points at every call",
    ]
    return ctx.finish(level="proof", rule=RULE,
                      trusted=["numpy/scipy evaluation order (np.dot, np.cross, np.linalg.norm, scipy euclidean) written out by "
                               "hand in coq/Model/ExchangeMap.v and coq/Model/Aux.v"])
