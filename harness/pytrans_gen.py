"""Fail-closed translator for the offset generator of gaddlemaps/components/_system.py,
SystemGro._molecules_ordered_all_gen, to Gallina over nat (second tie, DESIGN.md section 4.6).

A generator is the list of what it yields.  The source of (index, amount) pairs, self._pk_ammount_ordered_gen(), is a
parameter `pairs : list (nat * nat)`; `len(self.different_molecules[i])` reads a parameter `lens : list nat` (the sizes
of the templates) with Python's IndexError.  Shape accepted:

    <acc> = <k>
    for <a>, <b> in self._pk_ammount_ordered_gen():
        <m> = len(self.different_molecules[<a>])
        for _ in range(<b>):
            yield (<x>, <y>, <z>)        # names among <a>, <acc>, <m>
            <acc> += <m>

Anything else raises Unsupported, and the generated file then does not compile.
"""
import ast
import os


class Unsupported(Exception):
    pass


def nm(n):
    if isinstance(n, ast.Name):
        return n.id
    raise Unsupported("name expected, found %s" % type(n).__name__)


def generate(repo):
    src = open(os.path.join(repo, "gaddlemaps", "components", "_system.py")).read()
    tree = ast.parse(src)
    cls = next((n for n in tree.body if isinstance(n, ast.ClassDef) and n.name == "SystemGro"), None)
    if cls is None:
        raise Unsupported("class SystemGro not found")
    fns = [n for n in cls.body if isinstance(n, ast.FunctionDef) and n.name == "_molecules_ordered_all_gen"]
    if len(fns) != 1 or fns[0].decorator_list or [a.arg for a in fns[0].args.args] != ["self"]:
        raise Unsupported("SystemGro._molecules_ordered_all_gen: not exactly one plain method")
    body = [s for s in fns[0].body if not (isinstance(s, ast.Expr) and isinstance(s.value, ast.Constant))]
    if len(body) != 2:
        raise Unsupported("body is not <acc> = k; for ...")
    init, outer = body
    if not (isinstance(init, ast.Assign) and len(init.targets) == 1 and isinstance(init.value, ast.Constant)
            and isinstance(init.value.value, int) and not isinstance(init.value.value, bool) and init.value.value >= 0):
        raise Unsupported("initialisation of the accumulator")
    acc, k0 = nm(init.targets[0]), init.value.value
    if not (isinstance(outer, ast.For) and not outer.orelse and isinstance(outer.target, ast.Tuple)
            and len(outer.target.elts) == 2 and ast.unparse(outer.iter) == "self._pk_ammount_ordered_gen()"):
        raise Unsupported("outer loop is not `for a, b in self._pk_ammount_ordered_gen():`")
    a, b = nm(outer.target.elts[0]), nm(outer.target.elts[1])
    if len(outer.body) != 2:
        raise Unsupported("outer loop body")
    getlen, inner = outer.body
    if not (isinstance(getlen, ast.Assign) and len(getlen.targets) == 1
            and ast.unparse(getlen.value) == "len(self.different_molecules[%s])" % a):
        raise Unsupported("template size is not len(self.different_molecules[<a>])")
    m = nm(getlen.targets[0])
    if not (isinstance(inner, ast.For) and not inner.orelse and ast.unparse(inner.iter) == "range(%s)" % b
            and isinstance(inner.target, ast.Name) and inner.target.id not in (a, b, m, acc) and len(inner.body) == 2):
        raise Unsupported("inner loop is not `for _ in range(<b>):` with two statements")
    y, upd = inner.body
    if not (isinstance(y, ast.Expr) and isinstance(y.value, ast.Yield) and isinstance(y.value.value, ast.Tuple)
            and len(y.value.value.elts) == 3):
        raise Unsupported("first inner statement is not a yield of a triple")
    trip = [nm(e) for e in y.value.value.elts]
    if any(t not in (a, acc, m) for t in trip):
        raise Unsupported("yielded names")
    if not (isinstance(upd, ast.AugAssign) and isinstance(upd.op, ast.Add) and nm(upd.target) == acc and nm(upd.value) == m):
        raise Unsupported("second inner statement is not <acc> += <m>")
    if len({a, b, m, acc}) != 4:
        raise Unsupported("names are not distinct")
    return """(* GENERATED at every run from the source text of /repo by harness/pytrans_gen.py.  Do not edit. *)
From Coq Require Import List Arith.
From GM Require Import Base.Res.
Import ListNotations.

(* for _ in range(k): yield (...); %(acc)s += %(m)s      -- state: the accumulator and the list yielded so far *)
Fixpoint all_gen_inner (k %(a)s %(m)s %(acc)s : nat) (out : list (nat * nat * nat)) : nat * list (nat * nat * nat) :=
  match k with
  | O => (%(acc)s, out)
  | S k' => let out := out ++ [(%(t0)s, %(t1)s, %(t2)s)] in
            let %(acc)s := %(acc)s + %(m)s in
            all_gen_inner k' %(a)s %(m)s %(acc)s out
  end.

(* for %(a)s, %(b)s in pairs: %(m)s = len(different_molecules[%(a)s]); <inner loop> *)
Fixpoint all_gen_outer (lens : list nat) (pairs : list (nat * nat)) (%(acc)s : nat) (out : list (nat * nat * nat))
  : res (list (nat * nat * nat)) :=
  match pairs with
  | [] => Ok out
  | (%(a)s, %(b)s) :: rest =>
      let* %(m)s := nth_res lens %(a)s in
      let st := all_gen_inner %(b)s %(a)s %(m)s %(acc)s out in
      all_gen_outer lens rest (fst st) (snd st)
  end.

Definition molecules_ordered_all_gen (lens : list nat) (pairs : list (nat * nat)) : res (list (nat * nat * nat)) :=
  all_gen_outer lens pairs %(k0)d [].
""" % {"a": a, "b": b, "m": m, "acc": acc, "t0": trip[0], "t1": trip[1], "t2": trip[2], "k0": k0}


if __name__ == "__main__":
    import sys
    print(generate(sys.argv[1] if len(sys.argv) > 1 else "/repo"))
