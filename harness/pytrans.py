"""Fail-closed translator from a small, typed subset of Python/numpy to Gallina (DESIGN.md section 10,
"second tie").  Used for the straight-line numeric kernels of /repo: gaddlemaps/_auxilliary.py
(rotation_matrix, calcule_base) and gaddlemaps/_backend.py (accept_metropolis).

Every run regenerates coq/Gen/KernelsGen.v from the CURRENT source text; coq/Proofs/KernelsGenEq.v (committed)
proves that each generated definition equals the hand-written model definition the property theorems are about,
for every Scalar instance.  A change of the source therefore changes the generated definitions and either the
equality lemmas still go through (harmless rewrite that translates to the same term) or a proof obligation of
C17 / C09 breaks.  Anything outside the supported subset raises Unsupported (fail closed: the obligation breaks).

Subset.  Types: S (float scalar), V (3-vector), M (3x3 matrix), B (bool).  Statements: assignment, tuple
unpacking of a 3-vector or of the 3-point list parameter, `x /= e`, if/else (also `if c: return`), return.
Expressions: names, numeric literals, + - * / (typed), unary -, `x**2`, comparisons, v[i], np.linalg.norm,
np.cross, np.outer, np.eye(3), np.sqrt, np.array([...]) (3-vector or 3x3), np.cos/np.sin of a parameter and
np.random.rand() (each becomes an explicit extra parameter of the generated function).
Convention (the same the hand-written models follow): every division by a non-literal scalar is CHECKED
(`Err EDiv0` when the denominator is zero; numpy would produce nan/inf there), and it must be the whole right-hand
side of an assignment / branch value / return.
"""
import ast
import inspect
import textwrap
from fractions import Fraction


class Unsupported(Exception):
    pass


S, V, M, B = "S", "V", "M", "B"


class Fn:
    def __init__(self, name, params, ret):
        self.name = name          # generated Coq name
        self.params = params      # list of (pyname, type) ; type "V3LIST" = list of three points
        self.ret = ret
        self.extra = []           # extra parameters discovered (cos_x, sin_x, u_rand)
        self.notes = set()        # recognised idioms, e.g. ("coerce", "residue", "geometric_center")
        self.attrs = {}           # "self.geometric_center" -> (coq name, type)
        self.ignored_params = set()   # python parameters used only inside recognised access paths


def coq_const(node):
    v = node.value
    if isinstance(v, bool):
        return ("true" if v else "false"), B
    if isinstance(v, int):
        if v == 0:
            return "s0", S
        if v == 1:
            return "s1", S
        return "(sofZ (%d)%%Z)" % v, S
    if isinstance(v, float):
        fr = Fraction(repr(v))
        return "(sofQ (%d)%%Z (%d)%%Z)" % (fr.numerator, fr.denominator), S
    raise Unsupported("constant %r" % (v,))


def is_np(node, *names):
    """node is the attribute chain np.a.b"""
    parts = []
    while isinstance(node, ast.Attribute):
        parts.append(node.attr)
        node = node.value
    if isinstance(node, ast.Name) and node.id in ("np", "numpy"):
        return tuple(reversed(parts)) == names
    return False


class Tr:
    def __init__(self, fn):
        self.fn = fn

    # ------------------------------------------------------------------ expressions
    def expr(self, n, env):
        """returns (text, type, partial)"""
        if not isinstance(n, (ast.Name, ast.Constant)):
            key = ast.unparse(n)
            if key in env and key in self.fn.attrs:      # a recognised access path, passed as a parameter
                return env[key][0], env[key][1], False
        if isinstance(n, ast.Name):
            if n.id not in env:
                raise Unsupported("unknown name %s" % n.id)
            return env[n.id][0], env[n.id][1], False
        if isinstance(n, ast.Constant):
            t, ty = coq_const(n)
            return t, ty, False
        if isinstance(n, ast.UnaryOp) and isinstance(n.op, ast.USub):
            t, ty, p = self.expr(n.operand, env)
            self.pure(p, n)
            if ty == S:
                return "(sopp %s)" % t, S, False
            if ty == V:
                return "(vneg %s)" % t, V, False
            raise Unsupported("unary minus on %s" % ty)
        if isinstance(n, ast.BinOp):
            return self.binop(n, env)
        if isinstance(n, ast.Compare):
            if len(n.ops) != 1:
                raise Unsupported("chained comparison")
            a, ta, pa = self.expr(n.left, env)
            b, tb, pb = self.expr(n.comparators[0], env)
            self.pure(pa or pb, n)
            if ta != S or tb != S:
                raise Unsupported("comparison of non-scalars")
            op = n.ops[0]
            if isinstance(op, ast.LtE):
                return "(sleb %s %s)" % (a, b), B, False
            if isinstance(op, ast.GtE):
                return "(sleb %s %s)" % (b, a), B, False
            if isinstance(op, ast.Lt):
                return "(sltb %s %s)" % (a, b), B, False
            if isinstance(op, ast.Gt):
                return "(sltb %s %s)" % (b, a), B, False
            raise Unsupported("comparison operator")
        if isinstance(n, ast.Subscript):
            t, ty, p = self.expr(n.value, env)
            self.pure(p, n)
            idx = n.slice
            if ty == V and isinstance(idx, ast.Constant) and idx.value in (0, 1, 2):
                return "(%s %s)" % (("vx", "vy", "vz")[idx.value], t), S, False
            raise Unsupported("subscript")
        if isinstance(n, ast.Call):
            return self.call(n, env)
        if isinstance(n, ast.Attribute) and isinstance(n.value, ast.Name):
            key = "%s.%s" % (n.value.id, n.attr)
            if key in env:
                return env[key][0], env[key][1], False
        raise Unsupported("expression %s" % type(n).__name__)

    def pure(self, partial, node):
        if partial:
            raise Unsupported("checked division nested inside an expression (line %d)" % getattr(node, "lineno", 0))

    def binop(self, n, env):
        a, ta, pa = self.expr(n.left, env)
        if isinstance(n.op, ast.Pow):
            self.pure(pa, n)
            if ta == S and isinstance(n.right, ast.Constant) and n.right.value == 2:
                return "(smul %s %s)" % (a, a), S, False
            raise Unsupported("power")
        b, tb, pb = self.expr(n.right, env)
        self.pure(pa or pb, n)
        op = n.op
        if isinstance(op, (ast.Add, ast.Sub)):
            f = {(S, S): "s", (V, V): "v", (M, M): "m"}.get((ta, tb))
            if f is None:
                raise Unsupported("add/sub of %s and %s" % (ta, tb))
            return "(%s%s %s %s)" % (f, "add" if isinstance(op, ast.Add) else "sub", a, b), ta, False
        if isinstance(op, ast.Mult):
            if (ta, tb) == (S, S):
                return "(smul %s %s)" % (a, b), S, False
            if (ta, tb) == (S, V):
                return "(vscale %s %s)" % (a, b), V, False
            if (ta, tb) == (V, S):
                return "(vscaler %s %s)" % (a, b), V, False
            if (ta, tb) == (S, M):
                return "(mscale %s %s)" % (a, b), M, False
            raise Unsupported("product of %s and %s" % (ta, tb))
        if isinstance(op, ast.Div):
            if tb != S:
                raise Unsupported("division by a non-scalar")
            if isinstance(n.right, ast.Constant):
                raise Unsupported("division by a literal (not needed so far)")
            if ta == S:
                return "(sdiv_chk %s %s)" % (a, b), S, True
            if ta == V:
                return "(vdiv_chk %s %s)" % (a, b), V, True
            raise Unsupported("division of %s" % ta)
        raise Unsupported("operator %s" % type(op).__name__)

    def call(self, n, env):
        f = n.func
        args = n.args

        def ev(k, want):
            t, ty, p = self.expr(args[k], env)
            self.pure(p, n)
            if ty != want:
                raise Unsupported("argument %d of %s has type %s, expected %s" % (k, ast.unparse(f), ty, want))
            return t
        if isinstance(f, ast.Attribute) and f.attr == "dot" and len(args) == 1 and not is_np(f, "dot"):
            a, ta, pa = self.expr(f.value, env)
            self.pure(pa, n)
            if ta == V:
                return "(vecm %s %s)" % (a, ev(0, M)), V, False
            raise Unsupported(".dot on %s" % ta)
        if is_np(f, "dot") and len(args) == 2:
            a, ta, pa = self.expr(args[0], env)
            b, tb, pb = self.expr(args[1], env)
            self.pure(pa or pb, n)
            if (ta, tb) == (V, M):
                return "(vecm %s %s)" % (a, b), V, False
            if (ta, tb) == (M, V):
                return "(mvec %s %s)" % (a, b), V, False
            raise Unsupported("np.dot of %s and %s" % (ta, tb))
        if is_np(f, "array") and len(args) == 1 and not isinstance(args[0], ast.List):
            a, ta, pa = self.expr(args[0], env)
            self.pure(pa, n)
            if ta == M:
                return a, M, False       # np.array(tuple of three row vectors)
            raise Unsupported("np.array of %s" % ta)
        if is_np(f, "linalg", "inv") and len(args) == 1:
            return "(minv %s)" % ev(0, M), M, True
        if is_np(f, "round") and len(args) == 1:
            return "(vround %s)" % ev(0, V), V, False
        if is_np(f, "linalg", "norm") and len(args) == 1:
            return "(vnorm %s)" % ev(0, V), S, False
        if is_np(f, "cross") and len(args) == 2:
            return "(vcross %s %s)" % (ev(0, V), ev(1, V)), V, False
        if is_np(f, "outer") and len(args) == 2:
            return "(mouter %s %s)" % (ev(0, V), ev(1, V)), M, False
        if is_np(f, "sqrt") and len(args) == 1:
            return "(ssqrt %s)" % ev(0, S), S, False
        if is_np(f, "eye") and args and isinstance(args[0], ast.Constant) and args[0].value == 3:
            return "mid", M, False
        if (is_np(f, "cos") or is_np(f, "sin")) and len(args) == 1 and isinstance(args[0], ast.Name):
            name = "%s_%s" % (f.attr, args[0].id)
            if name not in self.fn.extra:
                self.fn.extra.append(name)
            return name, S, False
        if is_np(f, "random", "rand") and not args:
            if "u_rand" not in self.fn.extra:
                self.fn.extra.append("u_rand")
            return "u_rand", S, False
        if is_np(f, "array") and args and isinstance(args[0], ast.List):
            elts = args[0].elts
            if len(elts) != 3:
                raise Unsupported("np.array of length %d" % len(elts))
            if all(isinstance(e, ast.List) for e in elts):
                rows = []
                for e in elts:
                    if len(e.elts) != 3:
                        raise Unsupported("matrix row length")
                    cs = []
                    for c in e.elts:
                        t, ty, p = self.expr(c, env)
                        self.pure(p, n)
                        if ty != S:
                            raise Unsupported("matrix entry type")
                        cs.append(t)
                    rows.append("(mk3 %s %s %s)" % tuple(cs))
                return "(mkM %s %s %s)" % tuple(rows), M, False
            cs = []
            for c in elts:
                t, ty, p = self.expr(c, env)
                self.pure(p, n)
                if ty != S:
                    raise Unsupported("vector entry type")
                cs.append(t)
            return "(mk3 %s %s %s)" % tuple(cs), V, False
        raise Unsupported("call %s" % ast.unparse(f))

    # ------------------------------------------------------------------ statements
    def assigned(self, stmts):
        out = []
        for s in stmts:
            if isinstance(s, ast.Assign):
                for t in s.targets:
                    if isinstance(t, ast.Name):
                        out.append(t.id)
                    elif isinstance(t, ast.Tuple):
                        out += [e.id for e in t.elts if isinstance(e, ast.Name)]
            elif isinstance(s, ast.AugAssign) and isinstance(s.target, ast.Name):
                out.append(s.target.id)
            elif isinstance(s, ast.If):
                out += [x for x in self.assigned(s.body) if x in self.assigned(s.orelse)]
        return out

    def block(self, stmts, env, tail):
        """translate statements followed by `tail(env) -> text` (the continuation)"""
        if not stmts:
            return tail(env)
        s, rest = stmts[0], stmts[1:]
        if isinstance(s, ast.Expr) and isinstance(s.value, ast.Constant) and isinstance(s.value.value, str):
            return self.block(rest, env, tail)      # docstring
        if isinstance(s, ast.Return):
            if rest:
                raise Unsupported("statements after return")
            return self.ret(s.value, env)
        if isinstance(s, ast.AugAssign):
            if not isinstance(s.target, ast.Name):
                raise Unsupported("augmented assignment target")
            op = ast.BinOp(left=ast.Name(id=s.target.id, ctx=ast.Load()), op=s.op, right=s.value)
            return self.bind(s.target.id, op, env, rest, tail)
        if isinstance(s, ast.Assign):
            if len(s.targets) != 1:
                raise Unsupported("multiple assignment targets")
            t = s.targets[0]
            if isinstance(t, ast.Name):
                return self.bind(t.id, s.value, env, rest, tail)
            if isinstance(t, ast.Tuple) and isinstance(s.value, ast.Name) and s.value.id in env:
                src, ty = env[s.value.id]
                names = [e.id for e in t.elts]
                if len(names) != 3:
                    raise Unsupported("unpacking into %d names" % len(names))
                env2 = dict(env)
                if ty == "V3LIST":
                    for k, nm in enumerate(names):
                        env2[nm] = ("%s_%d" % (src, k), V)
                    return self.block(rest, env2, tail)
                if ty == V:
                    txt = ""
                    for k, nm in enumerate(names):
                        if nm == "_":
                            continue
                        txt += "let %s := %s %s in\n" % (nm, ("vx", "vy", "vz")[k], src)
                        env2[nm] = (nm, S)
                    return txt + self.block(rest, env2, tail)
            raise Unsupported("assignment form")
        if isinstance(s, ast.If) and isinstance(s.test, ast.Call) and isinstance(s.test.func, ast.Name) \
                and s.test.func.id == "isinstance":
            # `if isinstance(x, C): x = x.attr`  where the generated function already receives x.attr's value
            a = s.test.args
            ok = (len(a) == 2 and isinstance(a[0], ast.Name) and len(s.body) == 1 and not s.orelse
                  and isinstance(s.body[0], ast.Assign) and len(s.body[0].targets) == 1
                  and isinstance(s.body[0].targets[0], ast.Name) and s.body[0].targets[0].id == a[0].id
                  and isinstance(s.body[0].value, ast.Attribute) and isinstance(s.body[0].value.value, ast.Name)
                  and s.body[0].value.value.id == a[0].id
                  and ("coerce", a[0].id, s.body[0].value.attr) in self.fn.notes)
            if not ok:
                raise Unsupported("isinstance test outside the recognised coercion pattern")
            return self.block(rest, env, tail)
        if isinstance(s, ast.If) and isinstance(s.test, ast.Compare) and len(s.test.ops) == 1 \
                and isinstance(s.test.ops[0], ast.IsNot) and isinstance(s.test.comparators[0], ast.Constant) \
                and s.test.comparators[0].value is None and isinstance(s.test.left, ast.Name):
            nm = s.test.left.id
            if nm not in env or not env[nm][1].startswith("O"):
                raise Unsupported("`is not None` on a non-optional name")
            if s.orelse:
                raise Unsupported("else branch of an `is not None` test")
            inner = env[nm][1][1:]
            outs = [x for x in dict.fromkeys(self.assigned(s.body)) if x in env and x != nm]
            env_in = dict(env)
            env_in[nm] = (nm, inner)
            tys = {}

            def btail(e):
                for o in outs:
                    tys[o] = e[o][1]
                return "Ok (%s)" % ", ".join(e[o][0] for o in outs)
            tb = self.block(s.body, env_in, btail)
            for o in outs:
                if tys[o] != env[o][1]:
                    raise Unsupported("type of %s changes in the optional branch" % o)
            pat = outs[0] if len(outs) == 1 else "(%s)" % ", ".join(outs)
            none = "Ok (%s)" % ", ".join(env[o][0] for o in outs)
            return "let* %s := (match %s with\n| Some %s =>\n%s\n| None => %s\nend) in\n%s" % (
                pat, env[nm][0], nm, tb, none, self.block(rest, env, tail))
        if isinstance(s, ast.If):
            c, tc, pc = self.expr(s.test, env)
            self.pure(pc, s)
            if tc != B:
                raise Unsupported("condition is not a boolean")
            if isinstance(s.test, ast.Name):
                c = "%s" % c
            # `if c: return X` followed by more statements
            if s.body and isinstance(s.body[-1], ast.Return) and not s.orelse:
                return "if %s then\n%s\nelse\n%s" % (c, self.block(s.body, env, None), self.block(rest, env, tail))
            if not s.orelse:
                raise Unsupported("if without else")
            ab, ae = self.assigned(s.body), self.assigned(s.orelse)
            # live-out: assigned in both branches, or assigned in one and already defined before the `if`
            outs = [x for x in dict.fromkeys(ab + ae) if (x in ab and x in ae) or x in env]
            if not outs:
                raise Unsupported("if/else assigning no common variable")
            tys = {}

            def branch_tail(e):
                for o in outs:
                    tys[o] = e[o][1]
                return "Ok (%s)" % ", ".join(e[o][0] for o in outs)
            tb = self.block(s.body, env, branch_tail)
            t1 = dict(tys)
            te = self.block(s.orelse, env, branch_tail)
            if t1 != tys:
                raise Unsupported("branches give different types")
            env2 = dict(env)
            for o in outs:
                env2[o] = (o, tys[o])
            pat = outs[0] if len(outs) == 1 else "(%s)" % ", ".join(outs)
            return "let* %s := (if %s then\n%s\nelse\n%s) in\n%s" % (pat, c, tb, te, self.block(rest, env2, tail))
        raise Unsupported("statement %s" % type(s).__name__)

    def bind(self, name, value, env, rest, tail):
        t, ty, p = self.expr(value, env)
        env2 = dict(env)
        env2[name] = (name, ty)
        return "let%s %s := %s in\n%s" % ("*" if p else "", name, t, self.block(rest, env2, tail))

    def ret(self, v, env):
        if isinstance(v, ast.Tuple):
            flat = []
            for e in v.elts:
                if isinstance(e, ast.Tuple):
                    flat += e.elts
                else:
                    flat.append(e)
            ts = []
            for e in flat:
                t, ty, p = self.expr(e, env)
                self.pure(p, v)
                ts.append(t)
            return "Ok (%s)" % ", ".join(ts)
        t, ty, p = self.expr(v, env)
        if p:
            return "(let* r := %s in Ok r)" % t
        return "Ok %s" % t


COQ_TY = {S: "T", V: "V3 T", M: "M3 T", B: "bool", "OM": "option (M3 T)"}


def while_body_fragment(node, first_target, n_stmts):
    """The arithmetic of a loop body as a pseudo-function: the `n_stmts` consecutive statements of the (only)
    `while` loop of `node` that start with the assignment to `first_target`; the last one must assign to a
    subscripted array element, which becomes the returned value.  Everything else about the loop (queues, the
    traversal order) is not translated."""
    loops = [n for n in ast.walk(node) if isinstance(n, ast.While)]
    if len(loops) != 1:
        raise Unsupported("expected exactly one while loop")
    body = loops[0].body
    idx = [k for k, st in enumerate(body) if isinstance(st, ast.Assign) and len(st.targets) == 1
           and isinstance(st.targets[0], ast.Name) and st.targets[0].id == first_target]
    if len(idx) != 1:
        raise Unsupported("statement assigning %s not found in the loop body" % first_target)
    frag = body[idx[0]:idx[0] + n_stmts]
    last = frag[-1]
    if not (len(frag) == n_stmts and isinstance(last, ast.Assign) and len(last.targets) == 1
            and isinstance(last.targets[0], ast.Subscript)):
        raise Unsupported("the fragment does not end with an assignment to an array element")
    # nothing else in the loop body may write positions
    for st in body[:idx[0]] + body[idx[0] + n_stmts:]:
        for sub in ast.walk(st):
            if isinstance(sub, (ast.Assign, ast.AugAssign)):
                tg = sub.targets[0] if isinstance(sub, ast.Assign) else sub.target
                if isinstance(tg, ast.Subscript) and ast.unparse(tg.value) == ast.unparse(last.targets[0].value):
                    raise Unsupported("another statement of the loop writes the position array")
    new = ast.FunctionDef(name=node.name, args=ast.arguments(posonlyargs=[], args=[], kwonlyargs=[], kw_defaults=[], defaults=[]),
                          body=frag[:-1] + [ast.Return(value=last.value)], decorator_list=[])
    return ast.fix_missing_locations(new), ast.unparse(last.targets[0])


def translate(source, pyname, fn, fragment=None):
    """source: text of the module; returns the Coq Definition text for function `pyname`."""
    tree = ast.parse(textwrap.dedent(source))
    node = None
    for n in ast.walk(tree):
        if isinstance(n, ast.FunctionDef) and n.name == pyname:
            node = n
            break
    if node is None:
        raise Unsupported("function %s not found" % pyname)
    if fragment is not None:
        node, written = while_body_fragment(node, *fragment[:2])
        if written != fragment[2]:
            raise Unsupported("the loop writes %s, expected %s" % (written, fragment[2]))
    argnames = [a.arg for a in node.args.args if a.arg != "self" and a.arg not in fn.ignored_params]
    want = [p for p, _ in fn.params]
    if argnames != want:
        raise Unsupported("%s: parameters %s, expected %s" % (pyname, argnames, want))
    env = {}
    binders = []
    for p, ty in fn.params:
        env[p] = (p, ty)
        if ty == "V3LIST":
            binders += ["(%s_%d : V3 T)" % (p, k) for k in range(3)]
        else:
            binders.append("(%s : %s)" % (p, COQ_TY[ty]))
    for key, (cn, ty) in fn.attrs.items():
        env[key] = (cn, ty)
        binders.append("(%s : %s)" % (cn, COQ_TY[ty]))
    body = Tr(fn).block(node.body, env, None)
    extra = " ".join("(%s : T)" % e for e in fn.extra)
    defaults = []
    nd = len(node.args.defaults)
    for a, d in zip(node.args.args[len(node.args.args) - nd:], node.args.defaults):
        if isinstance(d, ast.Constant) and isinstance(d.value, (int, float)) and not isinstance(d.value, bool):
            defaults.append("Definition %s_default_%s : T := %s." % (fn.name, a.arg, coq_const(d)[0]))
    txt = "Definition %s %s %s : res (%s) :=\n%s.\n" % (fn.name, " ".join(binders), extra, fn.ret, textwrap.indent(body, "  "))
    return txt + "\n".join(defaults) + ("\n" if defaults else "")


HEADER = """(* GENERATED at every run from the source text of /repo by harness/pytrans.py.  Do not edit.
   Straight-line numeric kernels translated statement by statement; every division by a computed
   scalar is checked (Err EDiv0). *)
From Coq Require Import ZArith List.
From GM Require Import Base.Res Base.Scalar Base.Vec Model.Pbc.
Local Open Scope scalar_scope.
(* numpy library calls keep their hand-written models: np.linalg.inv = Pbc.minv (adjugate/determinant,
   Err EDiv0 on a singular matrix), np.round on a vector = Pbc.vround (round half to even). *)

Section KernelsGen.
Context {T : Type} `{Scalar T}.

Definition sdiv_chk (a d : T) : res T := if d =? s0 then Err EDiv0 else Ok (a / d).
Definition vdiv_chk (v : V3 T) (d : T) : res (V3 T) := if d =? s0 then Err EDiv0 else Ok (vdivs v d).

"""


def generate(repo):
    import os
    aux = open(os.path.join(repo, "gaddlemaps", "_auxilliary.py")).read()
    back = open(os.path.join(repo, "gaddlemaps", "_backend.py")).read()
    out = [HEADER]
    out.append(translate(aux, "rotation_matrix", Fn("rotation_matrix_gen", [("axis", V), ("theta", S)], "M3 T")))
    out.append(translate(aux, "calcule_base", Fn("calcule_base_gen", [("pos", "V3LIST")], "V3 T * V3 T * V3 T * V3 T")))
    out.append(translate(back, "accept_metropolis",
                         Fn("accept_metropolis_gen", [("energy_0", S), ("energy_1", S), ("acceptance", S)], "bool")))
    res_src = open(os.path.join(repo, "gaddlemaps", "components", "_residue.py")).read()
    fd = Fn("distance_to_gen", [("residue", V), ("box_vects", "OM"), ("inv", B)], "T")
    fd.notes.add(("coerce", "residue", "geometric_center"))      # `residue` is passed as its centre
    fd.attrs["self.geometric_center"] = ("self_center", V)
    out.append(translate(res_src, "distance_to", fd))
    em_src = open(os.path.join(repo, "gaddlemaps", "_exchage_map.py")).read()
    fr = Fn("restore_point_gen", [("proyection", V)], "V3 T")
    fr.ignored_params.add("atomref")
    fr.attrs["self._refsystems[atomref][1]"] = ("frame_origin", V)
    fr.attrs["self._refsystems[atomref][0]"] = ("frame_rows", M)
    out.append(translate(em_src, "_restore_point", fr))
    fp = Fn("proyect_point_gen", [], "V3 T")
    fp.ignored_params.update(("atomref", "atomtarget"))
    fp.attrs["self._refsystems[atomref][1]"] = ("frame_origin", V)
    fp.attrs["self._refsystems[atomref][0]"] = ("frame_rows", M)
    fp.attrs["atomtarget.position"] = ("target_position", V)
    fp.attrs["self.scale_factor"] = ("scale_factor", S)
    out.append(translate(em_src, "_proyect_point", fp))
    tm_src = open(os.path.join(repo, "gaddlemaps", "_transform_molecule.py")).read()
    fm = Fn("pull_gen", [], "V3 T")
    fm.attrs["atoms_pos[ind1]"] = ("p1", V)
    fm.attrs["atoms_pos[ind2]"] = ("p2", V)
    fm.attrs["bond"] = ("bond", S)
    out.append(translate(tm_src, "move_mol_atom", fm, fragment=("diferencia", 4, "atoms_pos[ind2]")))
    out.append("End KernelsGen.\n")
    return "\n".join(out)


if __name__ == "__main__":
    import sys
    print(generate(sys.argv[1] if len(sys.argv) > 1 else "/repo"))
