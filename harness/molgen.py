"""Shared helpers to build gaddlemaps objects in memory from generated data (through real files,
because MoleculeTop/System only load from files).  Used by several property harnesses."""
import itertools
import os
import shutil
import tempfile

import numpy as np

_TMP = None


def tmpdir():
    """one scratch directory per process, removed at exit"""
    global _TMP
    if _TMP is None:
        import atexit
        _TMP = tempfile.mkdtemp(prefix="verif_molgen_", dir="/dev/shm" if os.path.isdir("/dev/shm") and os.access("/dev/shm", os.W_OK) else None)  # the root fs is mounted with discard: rewriting small files there is slow
        atexit.register(lambda: shutil.rmtree(_TMP, ignore_errors=True))
    return _TMP


_counter = itertools.count()


def fresh_path(ext, stem="f"):
    return os.path.join(tmpdir(), "%s%d.%s" % (stem, next(_counter), ext))


def write_itp(path, molname, atoms, bonds, numbers=None, extra_sections=""):
    """atoms: list of (atomname, resname, resid); bonds: list of (i, j) 0-based; numbers: file atom numbers."""
    if numbers is None:
        numbers = list(range(1, len(atoms) + 1))
    with open(path, "w") as f:
        f.write("[ moleculetype ]\n; name nrexcl\n%s 1\n\n[ atoms ]\n" % molname)
        for nr, (an, rn, rid) in zip(numbers, atoms):
            f.write("%5d  X  %5d %5s %5s %5d  0.0  1.0\n" % (nr, rid, rn, an, nr))
        f.write("\n[ bonds ]\n")
        for i, j in bonds:
            f.write("%5d %5d 1 0.1 1000\n" % (numbers[i], numbers[j]))
        f.write(extra_sections)
    return path


def gro_line(resid, resname, name, atomid, pos, vel=None, dec=3):
    w = dec + 5
    s = "%5d%-5s%5s%5d" % (resid % 100000, resname, name, atomid % 100000)
    s += "".join("%*.*f" % (w, dec, x) for x in pos)
    if vel is not None:
        s += "".join("%*.*f" % (w, dec + 1, x) for x in vel)
    return s


def write_gro(path, records, box=(10.0, 10.0, 10.0), title="generated", dec=3):
    """records: list of (resid, resname, atomname, atomid, pos(3), vel(3) or None)."""
    with open(path, "w", encoding="utf-8") as f:
        f.write(title + "\n%5d\n" % len(records))
        for r in records:
            f.write(gro_line(r[0], r[1], r[2], r[3], r[4], r[5] if len(r) > 5 else None, dec) + "\n")
        f.write(" ".join("%9.5f" % b for b in box) + "\n")
    return path


def make_molecule(molname, atoms, positions, bonds, resid_offset=0, dec=6):
    """Returns a gaddlemaps Molecule with the given atoms [(atomname, resname, resid)], positions (n,3)
    and bonds [(i,j)].  Positions are set exactly afterwards (the .gro text only carries `dec` decimals)."""
    from gaddlemaps.components import Molecule
    itp = write_itp(fresh_path("itp", molname), molname, atoms, bonds)
    recs = [(rid + resid_offset, rn, an, k + 1, positions[k], None) for k, (an, rn, rid) in enumerate(atoms)]
    gro = write_gro(fresh_path("gro", molname), recs, dec=dec)
    mol = Molecule.from_files(gro, itp)
    mol.atoms_positions = np.array(positions, dtype=float)
    return mol


def random_tree(rs, n):
    """random labelled tree on n nodes as a bond list (random attachment)"""
    return [(int(rs.randint(0, k)), k) for k in range(1, n)]


def prufer_trees(n):
    """all labelled trees on n nodes (n >= 2) as bond lists, via Pruefer sequences"""
    if n == 2:
        yield [(0, 1)]
        return
    for seq in itertools.product(range(n), repeat=n - 2):
        degree = [1] * n
        for s in seq:
            degree[s] += 1
        edges = []
        for s in seq:
            for j in range(n):
                if degree[j] == 1:
                    edges.append((min(j, s), max(j, s)))
                    degree[j] -= 1
                    degree[s] -= 1
                    break
        u, v = [j for j in range(n) if degree[j] == 1]
        edges.append((u, v))
        yield edges


def random_graph(rs, n, extra):
    """connected graph: random tree plus `extra` additional distinct edges (cycles)"""
    edges = set((min(a, b), max(a, b)) for a, b in random_tree(rs, n))
    tries = 0
    while extra > 0 and tries < 100 and n > 2:
        a, b = int(rs.randint(0, n)), int(rs.randint(0, n))
        tries += 1
        if a != b and (min(a, b), max(a, b)) not in edges:
            edges.add((min(a, b), max(a, b)))
            extra -= 1
    return sorted(edges)


def atom_names(n, prefix="A", hydrogens=None):
    """distinct atom names (<= 5 chars); indices in `hydrogens` get names starting with H"""
    out = []
    for k in range(n):
        if hydrogens and k in hydrogens:
            out.append("H%d" % k)
        else:
            out.append("%s%d" % (prefix, k))
    return out


def purge():
    """delete the scratch files written so far (objects already loaded keep working: System/Molecule read
    everything they need at load time except SystemGro, which keeps its file open - only purge between cases)"""
    if _TMP is not None:
        for f in os.listdir(_TMP):
            try:
                os.remove(os.path.join(_TMP, f))
            except OSError:
                pass
