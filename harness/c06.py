"""C06 - alignment moves molecules only by structure-preserving transformations.

K  `Alignment(start, end).align_molecules(restr, deform, ignore_hydrogens)` is run in-process with recording wrappers on
   `gaddlemaps._alignment.minimize_molecules` (argument tuple), on `gaddlemaps._backend.{accept_metropolis, move_mol_atom}`
   and on the `np.random` functions the engine resolves at call time (`choice, normal, uniform, rand, randint`).  The
   recorded draws are replayed into the binary64 instance of `Model/Align.v` (`Corr/CheckC06.v:chk_align`), which must
   reproduce the error class | the argument tuple | measure and decision of every Monte-Carlo pass | the final
   coordinates and names of both molecules, under the decision-margin rule.  Nothing in /repo is touched;
   `Alignment.STEPS_FACTOR` is lowered through the public class attribute.
S  the property text evaluated on the unwrapped implementation (`oracle_case`): which molecule moved and by which
   vector, bonded distances (acyclic mobile molecule), all pairwise distances (no single-atom moves), order and names,
   finiteness, bit-identical repetition (twice in-process; in two fresh subprocesses with different PYTHONHASHSEED),
   caller's objects untouched (the two Molecule objects and the restraint list: deep copy before, == after; the
   repetition hands over the SAME list object).  Cases are grouped in SESSIONS (several alignments in one process, among them runs of
   different molecules with the same number of atoms) executed in fresh subprocesses, so that a failure that depends on
   what was aligned before in the process is found and its replay (the session) reproduces it.
"""
import contextlib
import copy
import io
import json
import math
import os
import subprocess
import sys
import time

import numpy as np

sys.path.insert(0, os.path.dirname(os.path.abspath(__file__)))
import lib          # noqa: E402
import molgen       # noqa: E402
from lib import fl, v3, coq_list, coq_z   # noqa: E402

HEADER = """From Coq Require Import String.
From GM Require Import Corr.CorrBase Model.Transform Model.MC Model.Restraints Model.Align Corr.CheckC06.
Open Scope string_scope.
Open Scope float_scope.
"""

RULE = ("pairs of molecules of 1..40 atoms (sizes mostly 1..14, one case in five with equal sizes, one in six up to 40; "
        "either one larger), built on random trees grown with bond lengths 0.10-0.20 nm (one in five with extra ring-closing "
        "bonds, fixed molecule sometimes a forest), 1-3 residues, atom names C/N/O/H-like (hydrogens 30 %), velocities on "
        "half of them; shipped BMIM/BF4/CUR/VTE pairs; restraint lists none/empty/partial/duplicated/complete (one list object per case, handed to the call and to its "
        "repetition and compared with its deep copy; about a quarter of the alignments have start smaller than end and a list "
        "that is not symmetric under (i, j) -> (j, i); on re-used objects the last alignment uses the first one's list); deformation "
        "types default or any non-empty subset of {0,1,2} (permuted, repeated; type 2 only when the mobile molecule has >= 2 "
        "atoms); ignore_hydrogens on/off; STEPS_FACTOR 2..20 (budget capped at ~150 passes without improvement); numpy "
        "seed per case.  Sessions: runs of 8-14 alignments whose mobile molecules have the same number of atoms and "
        "different trees, executed back to back in one process.  A case is non-trivial when distinct and the optimiser "
        "ran with at least one accepted proposal.")

TOL = 1e-9          # nm, the property's tolerance
ERRMAP = [(KeyError, "EKey"), (IndexError, "EIndex"), (OSError, "EIO"), (ValueError, "EValue"), (TypeError, "EType"),
          (ZeroDivisionError, "EDiv0")]


def err_of(ex):
    for cls, name in ERRMAP:
        if isinstance(ex, cls):
            return name
    return "ESystem"


# ====================================================================================== molecules
def data_path(name):
    import gaddlemaps
    return os.path.join(os.path.dirname(gaddlemaps.__file__), "data", name)


def build(spec, molname="MOL"):
    """a gaddlemaps Molecule from a spec: generated {atoms, pos, bonds[, vel]} or shipped {shipped: [gro, itp...], index}"""
    if "shipped" in spec:
        from gaddlemaps.components import System
        files = [data_path(f) for f in spec["shipped"]]
        return System(*files)[spec.get("index", 0)]
    mol = molgen.make_molecule(molname, [tuple(a) for a in spec["atoms"]], np.array(spec["pos"], dtype=float),
                               [tuple(b) for b in spec["bonds"]])
    if spec.get("vel") is not None:
        mol.atoms_velocities = np.array(spec["vel"], dtype=float)
    return mol


def mol_view(mol):
    """what the model reads of a Molecule: residues (name, [(atom name, position)]) and, per atom, the bonded atoms in
    the iteration order of `atom.bonds`"""
    residues = [(r.resname, [(a.name, np.array(a.position, dtype=float)) for a in r]) for r in mol.residues]
    adj = [[int(j) for j in mol[i].bonds] for i in range(len(mol))]
    return residues, adj


def snapshot(mol):
    """everything the property says stays / may change, as plain data.  Read from the two halves of the object (the
    MoleculeTop and the Residues) WITHOUT building Atom views: a molecule whose halves were made inconsistent cannot even
    be iterated (Atom() raises IOError), and that must be reported, not crash the harness"""
    gro = [a for r in mol.residues for a in r]
    vels = [a.velocity for a in gro]
    top = [(t.name, t.resname, int(t.resid), int(t.index), tuple(sorted(int(b) for b in t.bonds))) for t in mol.molecule_top]
    return {"pos": np.array([a.position for a in gro], dtype=float).reshape(-1, 3),
            "vel": None if any(v is None for v in vels) else np.array(vels, dtype=float).reshape(-1, 3),
            "ids": [a.atomid for a in gro], "names": [a.name for a in gro],
            "resnames": [r.resname for r in mol.residues], "resids": [r.resid for r in mol.residues],
            "atom_resnames": [a.resname for a in gro], "atom_resids": [a.resid for a in gro],
            "sizes": [len(r) for r in mol.residues], "top": top, "top_name": mol.molecule_top.name, "n": len(gro)}


LABEL_KEYS = ("n", "ids", "names", "resnames", "resids", "atom_resnames", "atom_resids", "sizes", "top", "top_name")


def label_diff(a, b):
    """names of the label fields (everything but coordinates) in which two snapshots differ"""
    return [k for k in LABEL_KEYS if a[k] != b[k]]


def same_snapshot(a, b):
    if label_diff(a, b):
        return False
    if not bits_equal(a["pos"], b["pos"]):
        return False
    if (a["vel"] is None) != (b["vel"] is None):
        return False
    return a["vel"] is None or bits_equal(a["vel"], b["vel"])


def unusable(mol):
    """None when the Molecule can still be iterated, indexed and copied; else the error"""
    try:
        atoms = list(mol)
        if atoms:
            mol[len(atoms) - 1]
        mol.copy()
        return None
    except Exception as ex:     # noqa
        return "%s: %s" % (type(ex).__name__, str(ex).splitlines()[0][:120])


def modified_msg(what, mol, snap):
    """None when the Molecule `mol` is bit for bit its snapshot and still usable, else what changed"""
    now = snapshot(mol)
    parts = []
    ld = label_diff(now, snap)
    if ld:
        k = ld[0]
        ch = [(o, n) for o, n in zip(snap[k], now[k]) if o != n][:2] if isinstance(snap[k], list) else [(snap[k], now[k])]
        parts.append("fields %s changed, e.g. %s: %s" % (ld, k, ch))
    elif not same_snapshot(now, snap):
        parts.append("coordinates / velocities changed (max |dx| = %.3g nm)" %
                     (float(np.abs(now["pos"] - snap["pos"]).max()) if now["pos"].shape == snap["pos"].shape else float("nan")))
    u = unusable(mol)
    if u:
        parts.append("the object can no longer be iterated / copied (%s)" % u)
    return ("%s was modified: %s" % (what, "; ".join(parts))) if parts else None


def pos_digest(*arrays):
    """bit pattern of coordinate arrays as a short string (outcomes travel from the session processes through a pipe:
    the full coordinate lists of the shipped DNA pair overflow its buffer)"""
    import hashlib
    h = hashlib.sha256()
    for a in arrays:
        a = np.ascontiguousarray(a, dtype=float)
        h.update(repr(a.shape).encode())
        h.update(a.tobytes())
    return h.hexdigest()


def bits_equal(a, b):
    a, b = np.ascontiguousarray(a, dtype=float), np.ascontiguousarray(b, dtype=float)
    return a.shape == b.shape and a.tobytes() == b.tobytes()


def is_tree(n, adj):
    """connected and n-1 undirected bonds (symmetric adjacency)"""
    if sum(len(l) for l in adj) != 2 * (n - 1):
        return False
    for i, l in enumerate(adj):
        for j in l:
            if j == i or not (0 <= j < n) or i not in adj[j]:
                return False
    seen, todo = {0}, [0]
    while todo:
        x = todo.pop()
        for y in adj[x]:
            if y not in seen:
                seen.add(y)
                todo.append(y)
    return len(seen) == n


def is_h(name):
    """element == 'H': the first run of ASCII letters of the name is exactly H (property text: hydrogen atoms)"""
    run = ""
    for ch in name:
        if ch.isascii() and ch.isalpha():
            run += ch
        elif run:
            break
    return run == "H"


# ====================================================================================== generators
NAME_KINDS = ["C%d", "N%d", "O%d", "H%d", "%dH", "HA%d", "h%d", "OH%d", "S%d"]
NAME_P = np.array([5, 2, 2, 4, 1, 1, 1, 1, 1], dtype=float)
NAME_P /= NAME_P.sum()
RESPOOL = ["ALA", "SER", "LYS", "TRP", "PHE", "MET", "ASN", "HIS"]


def gen_molspec(rs, n, graph="tree", nres=1, vel=False, all_h=False):
    if graph == "forest" and n >= 3:
        cut = int(rs.randint(1, n - 1))          # bonds only inside [0..cut] and inside (cut..n): at least one bond
        bonds = molgen.random_tree(rs, cut + 1) + [(a + cut + 1, b + cut + 1) for a, b in molgen.random_tree(rs, n - cut - 1)]
    elif graph == "cyclic" and n >= 3:
        bonds = molgen.random_graph(rs, n, int(rs.randint(1, 3)))
    else:
        bonds = molgen.random_tree(rs, n)
    pos = np.zeros((n, 3))
    pos[0] = rs.uniform(0.0, 3.0, size=3)
    placed = {0}
    for a, b in sorted(bonds, key=lambda e: max(e)):
        lo, hi = min(a, b), max(a, b)
        if hi in placed:
            continue
        if lo not in placed:                      # forest: a new component
            pos[lo] = rs.uniform(0.0, 3.0, size=3)
            placed.add(lo)
        d = rs.normal(size=3)
        pos[hi] = pos[lo] + d / np.linalg.norm(d) * rs.uniform(0.10, 0.20)
        placed.add(hi)
    for k in range(n):
        if k not in placed:
            pos[k] = rs.uniform(0.0, 3.0, size=3)
    nres = max(1, min(nres, n))
    cuts = sorted(rs.choice(np.arange(1, n), size=nres - 1, replace=False).tolist()) if nres > 1 else []
    bounds = [0] + cuts + [n]
    resnames = [str(x) for x in rs.choice(RESPOOL, size=nres, replace=False)]
    atoms = []
    for r in range(nres):
        for k in range(bounds[r], bounds[r + 1]):
            kind = "H%d" if all_h else str(rs.choice(NAME_KINDS, p=NAME_P))
            atoms.append([kind % k, resnames[r], r + 1])
    if not all_h and all(is_h(a[0]) for a in atoms):
        atoms[int(rs.randint(n))][0] = "C%d" % 0
    spec = {"atoms": atoms, "pos": pos.tolist(), "bonds": [[int(a), int(b)] for a, b in bonds]}
    if vel:
        spec["vel"] = rs.normal(0, 0.5, size=(n, 3)).tolist()
    return spec


SUBSETS = [(0,), (1,), (2,), (0, 1), (0, 2), (1, 2), (0, 1, 2)]


def gen_sizes(rs):
    k = rs.randint(0, 30)
    if k < 6:                       # ties
        n = int(rs.choice([1, 2, 2, 3, 4, 5, 6, 7, 9, 12]))
        return n, n
    if k < 8:                       # a single-atom end molecule (early return) / start molecule
        return (int(rs.randint(1, 12)), 1) if rs.randint(2) else (1, int(rs.randint(2, 12)))
    if k < 13:                      # up to 40
        a, b = int(rs.randint(1, 41)), int(rs.randint(1, 16))
    else:
        a, b = int(rs.randint(1, 15)), int(rs.randint(1, 15))
    return (a, b) if rs.randint(2) else (b, a)


def gen_options(rs, ns, ne, sizes_s=None, sizes_e=None, force_atom_moves=False):
    """restraints, deformation types, hydrogens, step factor, seed for a pair of sizes"""
    mobile_n = ns if ns < ne else ne
    rk = rs.randint(0, 8)
    if rk <= 1:
        restr = None
    elif rk == 2:
        restr = []
    elif rk <= 5:
        restr = [[int(rs.randint(ns)), int(rs.randint(ne))] for _ in range(int(rs.randint(1, 6)))]
    elif rk == 6:                   # every atom of the larger molecule restrained
        if ns < ne:
            restr = [[int(rs.randint(ns)), j] for j in rs.permutation(ne)]
        else:
            restr = [[i, int(rs.randint(ne))] for i in rs.permutation(ns)]
        restr = [[int(a), int(b)] for a, b in restr]
    else:                           # duplicates
        p = [int(rs.randint(ns)), int(rs.randint(ne))]
        restr = [p, list(p), [int(rs.randint(ns)), int(rs.randint(ne))]]
    dk = rs.randint(0, 4)
    if dk == 0 and not force_atom_moves:
        deform = None
    else:
        sub = list(SUBSETS[rs.randint(len(SUBSETS))])
        if force_atom_moves and 2 not in sub:
            sub.append(2)
        if rs.randint(0, 4) == 0:
            sub = [int(x) for x in rs.permutation(sub)]
        elif rs.randint(0, 5) == 0:
            sub = sub + [sub[int(rs.randint(len(sub)))]]
        if mobile_n < 2 or ne == 1:
            sub = [x for x in sub if x != 2] or [0]
        deform = [int(x) for x in sub]
    sf = int(rs.randint(2, 21))
    sf = max(2, min(sf, 150 // max(1, mobile_n)))
    return {"restr": restr, "deform": deform, "ign": bool(rs.randint(2)), "autog": True, "sf": sf,
            "seed": int(rs.randint(0, 2 ** 31 - 1))}


def gen_case(rs, sizes=None, mobile_tree=None, force_atom_moves=False):
    ns, ne = sizes if sizes else gen_sizes(rs)
    start_mobile = ns < ne

    def graph(n, mobile):
        g = rs.randint(0, 10)
        if mobile_tree is True and mobile:
            return "tree"
        if g < 2:
            return "cyclic"
        if g == 2 and not mobile:
            return "forest"
        return "tree"
    nres_s = int(rs.choice([1, 1, 1, 1, 2, 3]))
    nres_e = nres_s if rs.randint(0, 4) else int(rs.choice([1, 2]))
    start = gen_molspec(rs, ns, graph(ns, start_mobile), nres_s, vel=bool(rs.randint(2)))
    end = gen_molspec(rs, ne, graph(ne, not start_mobile), nres_e, vel=bool(rs.randint(2)))
    if rs.randint(0, 3) == 0:          # already close to each other
        off = np.array(start["pos"]).mean(axis=0) - np.array(end["pos"]).mean(axis=0) + rs.normal(0, 0.05, size=3)
        end["pos"] = (np.array(end["pos"]) + off).tolist()
    case = {"kind": "pair", "start": start, "end": end}
    case.update(gen_options(rs, ns, ne, force_atom_moves=force_atom_moves))
    if case["restr"] is None and (len(set(a[1] for a in start["atoms"])) > 1):
        # residue matching is the business of C10: give explicit restraints unless the residues line up
        if len(set(a[1] for a in start["atoms"])) != len(set(a[1] for a in end["atoms"])) and rs.randint(0, 4):
            case["restr"] = []
    return case


TAG_BASES = ["DC", "DG", "DA", "DT", "ALA", "SER", "LYS", "GLY", "U", "RA"]


def tagged(rs, base):
    """a residue name that contains `base` (terminal / protonation tags as in DC5, DC3, NALA, LYSH), at most 5 characters"""
    k = rs.randint(0, 4)
    t = base + str(rs.choice(["5", "3", "N", "H"])) if k < 2 else (str(rs.choice(["N", "C", "5"])) + base if k == 2 else
                                                               base + str(rs.choice(["5T", "3T", "P"])))
    return t[:5] if len(t) <= 5 else base + "5"


def gen_tagged_case(rs, identical=False):
    """multi-residue pair aligned with restrictions=None and the automatic restraint guess: same number of residues,
    residue names pairwise equal or differing by CONTAINMENT (the 'similar names' branch of guess_protein_restrains, as
    in the shipped DNA_AA (DC5 ...) / DNA_CG (DC ...) pair); tags on either molecule"""
    nres = int(rs.randint(2, 5))
    per_s = [int(rs.randint(1, 5)) for _ in range(nres)]
    per_e = [int(rs.randint(1, 7)) for _ in range(nres)]
    if rs.randint(2):
        per_s, per_e = per_e, per_s
    bases = [str(x) for x in rs.choice(TAG_BASES, size=nres, replace=False)]
    names_s, names_e = list(bases), list(bases)
    if not identical:
        for r in range(nres):
            k = rs.randint(0, 4)
            if k == 0:
                names_s[r] = tagged(rs, bases[r])
            elif k == 1:
                names_e[r] = tagged(rs, bases[r])
        if names_s == names_e:
            # guarantee at least one tagged residue
            r = int(rs.randint(nres))
            names_s, names_e = list(bases), list(bases)
            (names_e if rs.randint(2) else names_s)[r] = tagged(rs, bases[r])

    def mol(per, names):
        n = sum(per)
        spec = gen_molspec(rs, n, "tree", 1, vel=bool(rs.randint(2)))
        k = 0
        for r, m in enumerate(per):
            for _ in range(m):
                spec["atoms"][k][1], spec["atoms"][k][2] = names[r], r + 1
                k += 1
        if all(is_h(a[0]) for a in spec["atoms"]):
            spec["atoms"][0][0] = "C0"
        return spec
    start, end = mol(per_s, names_s), mol(per_e, names_e)
    case = {"kind": "pair", "start": start, "end": end, "tagged_residues": not identical}
    case.update(gen_options(rs, len(start["atoms"]), len(end["atoms"])))
    case["restr"], case["autog"] = None, True
    case["sf"] = min(case["sf"], 10)
    return case


def dna_case(seed=1, deform=None):
    """the shipped DNA pair (232 beads on 1142 atoms, 36 residues, DC5/DC3-tagged terminal residues in the atomistic
    topology): S only (the restraints-only measure over ~7000 guessed pairs is too slow for the Coq side of K)"""
    return {"kind": "pair", "start": {"shipped": ["DNA_map.gro", "DNA_CG.itp"]}, "end": {"shipped": ["DNA_AA.gro", "DNA_AA.itp"]},
            "restr": None, "deform": deform, "ign": True, "autog": True, "sf": 1, "seed": seed, "tagged_residues": True}


def tagged_witness_cases():
    """seeded/C06-10/demo.py: CG 2 residues x 2 beads (DC, DG) on AA 2 residues x 4 atoms, once (DC, DG) and once the
    tagged (DC5, DG), restrictions=None, defaults, STEPS_FACTOR 30, seed 3"""
    rng = np.random.RandomState(5)
    cg_pos = np.array([[1.0, 1.0, 1.0], [1.3, 1.1, 1.0], [1.6, 1.0, 1.1], [1.9, 1.1, 1.0]])
    aa_pos = np.repeat(cg_pos, 2, axis=0) + rng.normal(0, 0.05, (8, 3)) + 2.
    out = []
    for first in ("DC", "DC5"):
        start = {"atoms": [["B1", "DC", 1], ["B2", "DC", 1], ["B1", "DG", 2], ["B2", "DG", 2]], "pos": cg_pos.tolist(),
                 "bonds": [[0, 1], [1, 2], [2, 3]]}
        end = {"atoms": [[n, first, 1] for n in ("C1", "N1", "C2", "O2")] + [[n, "DG", 2] for n in ("C1", "N1", "C2", "O2")],
               "pos": aa_pos.tolist(), "bonds": [[0, 1], [1, 2], [1, 3], [3, 4], [4, 5], [5, 6], [5, 7]]}
        out.append({"kind": "pair", "start": start, "end": end, "restr": None, "deform": None, "ign": True, "autog": True,
                    "sf": 30, "seed": 3, "tagged_residues": first != "DC"})
    return out


SHIPPED = [
    ({"shipped": ["CUR_map.gro", "CUR_CG.itp"]}, {"shipped": ["CUR_AA.gro", "CUR_AA.itp"]}, 8, 41),
    ({"shipped": ["VTE_map.gro", "vitamin_E_CG.itp"]}, {"shipped": ["VTE_AA.gro", "VTE_AA.itp"]}, 10, 32),
    ({"shipped": ["system_bmimbf4_cg.gro", "BMIM_CG.itp", "BF4_CG.itp"], "index": 599},
     {"shipped": ["BMIM_AA.gro", "BMIM_AA.itp"]}, 3, 25),
    ({"shipped": ["BF4_CG.gro", "BF4_CG.itp"]}, {"shipped": ["BF4_AA.gro", "BF4_AA.itp"]}, 1, 5),
    ({"shipped": ["BF4_AA.gro", "BF4_AA.itp"]}, {"shipped": ["BF4_CG.gro", "BF4_CG.itp"]}, 5, 1),
    ({"shipped": ["BMIM_AA.gro", "BMIM_AA.itp"]},
     {"shipped": ["system_bmimbf4_cg.gro", "BMIM_CG.itp", "BF4_CG.itp"], "index": 599}, 25, 3),
    ({"shipped": ["BF4_AA.gro", "BF4_AA.itp"]}, {"shipped": ["BF4_AA.gro", "BF4_AA.itp"]}, 5, 5),
]


def gen_shipped(rs, k=None):
    s, e, ns, ne = SHIPPED[int(rs.randint(len(SHIPPED))) if k is None else k]
    case = {"kind": "pair", "start": dict(s), "end": dict(e)}
    case.update(gen_options(rs, ns, ne))
    case["sf"] = 2 if max(ns, ne) > 30 else min(case["sf"], 6)
    if case["restr"] is not None and len(case["restr"]) > 8:
        case["restr"] = case["restr"][:8]
    return case


def gen_session(rs, length=None):
    """alignments to be executed back to back in one process: the mobile molecules all have n atoms and different trees /
    bond lengths, single-atom moves enabled (plus a few unrelated pairs in between)"""
    n = int(rs.choice([2, 3, 3, 4, 4, 5, 6]))
    length = length or int(rs.randint(8, 15))
    cases = []
    for _ in range(length):
        other = n + int(rs.randint(0, 6))
        sizes = (n, other) if rs.randint(2) else (other, n)
        c = gen_case(rs, sizes=sizes, mobile_tree=True, force_atom_moves=True)
        c["sf"] = max(c["sf"], 6)
        cases.append(c)
    return {"kind": "session", "cases": cases}


DEGENERATE_KINDS = ["collinear", "collinear", "coincident_nb", "zero_bond", "one_point"]
# Open finding on the UNCHANGED tree (corpus/C06/open_nan_unrestrained_atom.json, reported to the owner): with the
# restraints-only measure (every atom of the fixed molecule that survives the hydrogen filter is restrained) a mobile atom
# that is not restrained does not enter the measure, so a trial in which ONLY that atom is nan (zero-length bond, 0/0 in the
# bond-restoring step) is accepted as "equal measure".  Until the owner decides (fix / known finding) the generated
# degenerate stream keeps at least one unrestrained heavy atom in the fixed molecule; set to True to search that corner too.
DEGENERATE_FULL_RESTRAINTS = False
DEFORM_WITH_2 = [None, [2], [0, 2], [1, 2], [0, 1, 2], [2, 0], [0, 1, 2]]


def gen_degenerate_molspec(rs, kind, n=None):
    """a connected molecule in a degenerate geometry for the single-atom move (0/0 in numpy, nan trial):
    collinear     branched tree laid out on a line (an atom with >= 3 bonds whose neighbours are collinear); axis-aligned
                  or diagonal with dyadic coordinates (exact in binary64)
    coincident_nb the two neighbours of a 2-bond atom sit on the same point
    zero_bond     two bonded atoms sit on the same point
    one_point     every atom on the same point (placeholder coordinates)"""
    if kind == "collinear":
        n = n or int(rs.randint(4, 8))
        hub = int(rs.randint(0, 2))
        others = [k for k in range(n) if k != hub]
        bonds = [(hub, k) for k in others[:3]]
        for k in others[3:]:
            bonds.append((int(rs.choice([j for j in range(k) if j != k])), k))
        e = [(1, 0, 0), (0, 1, 0), (0, 0, 1), (1, 1, 0), (1, 0, -1)][int(rs.randint(0, 5))]
        step = float(rs.choice([0.25, 0.125, 0.1875]))
        base = rs.randint(0, 9, size=3) * 0.25
        t = rs.permutation(n) if rs.randint(2) else np.arange(n)
        pos = np.array([base + step * float(t[k]) * np.array(e, dtype=float) for k in range(n)])
    elif kind == "coincident_nb":
        n = n or int(rs.randint(3, 7))
        bonds = [(k, k + 1) for k in range(n - 1)]
        pos = np.cumsum(rs.normal(0, 0.09, size=(n, 3)), axis=0) + rs.uniform(0, 3, size=3)
        m = int(rs.randint(1, n - 1))
        pos[m + 1] = pos[m - 1]
    elif kind == "zero_bond":
        n = n or int(rs.randint(2, 7))
        spec = gen_molspec(rs, n, "tree")
        bonds = [tuple(b) for b in spec["bonds"]]
        pos = np.array(spec["pos"])
        a, b = bonds[int(rs.randint(len(bonds)))]
        pos[max(a, b)] = pos[min(a, b)]
    else:
        n = n or int(rs.randint(2, 6))
        bonds = molgen.random_tree(rs, n)
        pos = np.tile(rs.randint(0, 9, size=3) * 0.25 + float(rs.choice([0.0, 0.1])), (n, 1))
    atoms = [["%s%d" % (str(rs.choice(["C", "N", "B", "S"])), k), "DEG", 1] for k in range(n)]
    return {"atoms": atoms, "pos": np.asarray(pos, dtype=float).tolist(), "bonds": [[int(a), int(b)] for a, b in bonds]}


def gen_degenerate_case(rs, sf_range=(12, 36)):
    """the mobile molecule is degenerate, the other one generic; both role assignments; single-atom moves enabled"""
    kind = DEGENERATE_KINDS[int(rs.randint(len(DEGENERATE_KINDS)))]
    mob = gen_degenerate_molspec(rs, kind)
    n = len(mob["atoms"])
    start_mobile = bool(rs.randint(2))
    nf = n + int(rs.randint(1, 7)) if start_mobile else n + int(rs.randint(0, 6))
    fixed = gen_molspec(rs, nf, "tree", 1, vel=bool(rs.randint(2)))
    if all(is_h(a[0]) for a in fixed["atoms"]):
        fixed["atoms"][0][0] = "C0"
    start, end = (mob, fixed) if start_mobile else (fixed, mob)
    case = {"kind": "pair", "start": start, "end": end, "degenerate": kind}
    case.update(gen_options(rs, len(start["atoms"]), len(end["atoms"])))
    if not DEGENERATE_FULL_RESTRAINTS:
        if nf >= 2:
            fixed["atoms"][0][0], fixed["atoms"][1][0] = "C0", "N1"
        rk = rs.randint(0, 3)
        case["restr"] = None if rk == 0 else ([] if rk == 1 or nf < 2 else
                                              [[int(rs.randint(len(start["atoms"]))), int(rs.randint(len(end["atoms"])))]])
    d = DEFORM_WITH_2[int(rs.randint(len(DEFORM_WITH_2)))]
    case["deform"] = None if d is None else list(d)
    sf = int(rs.randint(*sf_range))
    case["sf"] = max(4, min(sf, 200 // n))
    return case


def demo_witness_cases():
    """seeded/C06-3/demo.py: a branched 5-bead molecule with all beads on the x axis / a 3-bead chain with all beads on
    one point, aligned on a generic 8-atom chain, STEPS_FACTOR 60, default restraints and hydrogens"""
    rng = np.random.RandomState(12345)
    big_pos = np.cumsum(rng.normal(0, 0.12, (8, 3)), axis=0) + 1.0
    big = {"atoms": [["C%d" % (i + 1), "BIG", 1] for i in range(8)], "pos": big_pos.tolist(),
           "bonds": [[i, i + 1] for i in range(7)]}
    a = {"atoms": [["B%d" % (i + 1), "CGA", 1] for i in range(5)], "pos": [[0.25 * i, 0.0, 0.0] for i in range(5)],
         "bonds": [[0, 1], [1, 2], [1, 3], [3, 4]]}
    b = {"atoms": [["B%d" % (i + 1), "CGB", 1] for i in range(3)], "pos": [[0.5, 0.5, 0.5]] * 3, "bonds": [[0, 1], [1, 2]]}
    out = []
    for small, deform, seed, tag in ((a, [0, 2], 0, "collinear"), (a, [0, 1, 2], 3, "collinear"),
                                     (b, [0, 1, 2], 0, "one_point"), (b, [0, 1, 2], 1, "one_point")):
        out.append({"kind": "pair", "start": json.loads(json.dumps(small)), "end": json.loads(json.dumps(big)),
                    "restr": None, "deform": deform, "ign": True, "autog": True, "sf": 60, "seed": seed,
                    "degenerate": tag})
    return out


def gen_error_case(rs):
    """inputs on which align_molecules raises: mobile molecule not connected, no bond in the larger molecule,
    an atom name without letters in the larger molecule (ignore_hydrogens)"""
    k = rs.randint(0, 3)
    if k == 0:
        ns, ne = int(rs.randint(3, 7)), int(rs.randint(7, 12))
        case = gen_case(rs, sizes=(ns, ne))
        case["start"] = gen_molspec(rs, ns, "forest")
        case["restr"] = []
    elif k == 1:
        ns, ne = int(rs.randint(2, 6)), int(rs.randint(2, 6))
        case = gen_case(rs, sizes=(ns, ne))
        big = "end" if ns < ne else "start"
        case[big]["bonds"] = []
        case[big]["atoms"] = [[a[0], case[big]["atoms"][0][1], 1] for a in case[big]["atoms"]]
        case["restr"] = []
        if big == "start":             # the mobile one must stay connected for the error to be the missing bond
            case["end"] = gen_molspec(rs, ne, "tree")
    else:
        ns, ne = int(rs.randint(2, 6)), int(rs.randint(6, 10))
        case = gen_case(rs, sizes=(ns, ne))
        case["end"]["atoms"][int(rs.randint(ne))][0] = "12_3"
        case["ign"] = True
        case["restr"] = []
    case["expect_error"] = True
    return case


# ====================================================================================== implementation drivers
@contextlib.contextmanager
def steps_factor(sf):
    import gaddlemaps._alignment as A
    saved = A.Alignment.STEPS_FACTOR
    A.Alignment.STEPS_FACTOR = int(sf)
    try:
        yield
    finally:
        A.Alignment.STEPS_FACTOR = saved


def call_args(case):
    restr = [tuple(p) for p in case["restr"]] if case["restr"] is not None else None
    deform = tuple(case["deform"]) if case["deform"] is not None else None
    return restr, deform, case["ign"], case.get("autog", True)


class RunAway(Exception):
    """the search ran far beyond its budget (it has no termination guarantee: when the measure is invariant under the
    enabled deformation types, rounding noise keeps producing 'new minima'); not a clause of C06: the case is skipped"""


def pass_cap(case, n_small):
    return 60 * int(case["sf"]) * max(1, n_small) + 3000


@contextlib.contextmanager
def capped_passes(cap):
    """counts the calls of the module-level accept_metropolis (one per pass) and raises RunAway beyond the cap;
    the function itself is the implementation's"""
    import gaddlemaps._backend as B
    saved = B.accept_metropolis
    count = [0, 0]          # passes, passes whose trial measure is nan

    def counted(*a, **kw):
        count[0] += 1
        if count[0] > cap:
            raise RunAway()
        if len(a) > 1 and a[1] != a[1]:
            count[1] += 1
        return saved(*a, **kw)
    B.accept_metropolis = counted
    try:
        yield count
    finally:
        B.accept_metropolis = saved


KEEP = object()


def run_plain(start, end, case, ali=None, restr_obj=KEEP):
    """one alignment on the implementation (on the Alignment object `ali` when given, else on a fresh one).  Returns (ali, exception or None); run_plain.nan_trials = number of passes
    of that run whose trial measure was nan.  `restr_obj`: the restraint list OBJECT to hand to align_molecules (the caller
    of run_plain owns it and may hand the same object to several calls); by default a new list is built from the case"""
    import gaddlemaps._alignment as A
    restr, deform, ign, autog = call_args(case)
    if restr_obj is not KEEP:
        restr = restr_obj
    state = np.random.get_state()
    err = None
    run_plain.nan_trials = 0
    try:
        with steps_factor(case["sf"]), contextlib.redirect_stdout(io.StringIO()), np.errstate(all="ignore"), \
                capped_passes(pass_cap(case, min(len(ali.start), len(ali.end)) if ali is not None
                                       else min(len(start), len(end)))) as count:
            np.random.seed(case["seed"])
            if ali is None:
                ali = A.Alignment(start, end)
            try:
                ali.align_molecules(restr, deform, ign, autog)
            except Exception as ex:     # noqa
                err = ex
            run_plain.nan_trials = count[1]
    finally:
        np.random.set_state(state)
    return ali, err


class Recorder:
    """recording wrappers on the names the engine resolves at call time; holds copies only (never the engine's own
    arrays or dictionaries: their addresses must be free to be reused exactly as without the recorder)"""

    RNAMES = ("choice", "normal", "uniform", "rand", "randint")

    def __init__(self, max_passes=None):
        self.max_passes = max_passes
        self.args = None
        self.ncalls = 0
        self.steps = []
        self.cur = None
        self.in_atom = 0
        self.in_accept = None
        self.protocol = []

    def __enter__(self):
        import gaddlemaps._alignment as A
        import gaddlemaps._backend as B
        rec = self
        self.A, self.B = A, B
        self.saved = (A.minimize_molecules, B.accept_metropolis, B.move_mol_atom)
        self.saved_r = {n: getattr(np.random, n) for n in self.RNAMES}
        o_min, o_acc, o_move = self.saved
        o_choice, o_normal, o_uniform, o_rand, o_randint = (self.saved_r[n] for n in self.RNAMES)

        def w_min(*args, **kw):
            rec.ncalls += 1
            if len(args) == 9 and not kw:
                a = args
                rec.args = {"fixed": np.array(a[0], dtype=float).reshape(-1, 3).copy(),
                            "mobile": np.array(a[1], dtype=float).reshape(-1, 3).copy(),
                            "com": np.array(a[2], dtype=float).copy(), "sigma": float(a[3]), "n_steps": int(a[4]),
                            "restr": [(int(p[0]), int(p[1])) for p in a[5]],
                            "table": {int(k): [(int(j), float(b)) for j, b in v] for k, v in a[6].items()},
                            "width": float(a[7]), "deform": [int(x) for x in a[8]]}
            else:
                rec.protocol.append("minimize_molecules called with an unexpected signature")
            return o_min(*args, **kw)

        def w_accept(e0, e1, *a, **kw):
            c = rec.cur
            if c is None:
                rec.protocol.append("accept_metropolis outside a pass")
                return o_acc(e0, e1, *a, **kw)
            if a or kw:
                rec.protocol.append("accept_metropolis called with extra arguments")
            c["e0"], c["e1"] = float(e0), float(e1)
            rec.in_accept = c
            try:
                dec = o_acc(e0, e1, *a, **kw)
            finally:
                rec.in_accept = None
            c["acc"] = bool(dec)
            rec.cur = None
            return dec

        def w_move(pos, bonds, *a, **kw):
            c = rec.cur
            rec.in_atom += 1
            try:
                out = o_move(pos, bonds, *a, **kw)
            finally:
                rec.in_atom -= 1
            if c is not None:
                c["gen"].append("atom")
                c["n_atoms"] = len(pos)
                if a or set(kw) != {"sigma_scale"}:
                    rec.protocol.append("move_mol_atom called with unexpected arguments")
            return out

        def w_choice(a, *args, **kw):
            v = o_choice(a, *args, **kw)
            if rec.in_atom:
                if rec.cur is not None:
                    rec.cur["neg"] = bool(int(v) == -1)
                    rec.cur["choice_arg_atom"] = [int(x) for x in np.atleast_1d(a)]
                return v
            if rec.max_passes is not None and len(rec.steps) >= rec.max_passes:
                raise RunAway()
            if rec.cur is not None:
                rec.protocol.append("pass %d: a new type was drawn before the previous proposal was judged" % len(rec.steps))
            rec.cur = {"kind": int(v), "sim": [int(x) for x in np.atleast_1d(a)], "gen": []}
            rec.steps.append(rec.cur)
            return v

        def w_normal(loc=0.0, scale=1.0, size=None):
            v = o_normal(loc, scale, size)
            c = rec.cur
            if c is None:
                return v
            if rec.in_atom:
                c["g"], c["g_sigma"], c["g_loc"] = float(v), float(scale), float(loc)
            elif size is None:
                c["gen"].append("normal1")
                c["theta"], c["theta_par"] = float(v), (float(loc), float(scale))
            else:
                c["gen"].append("normal3")
                c["d"], c["d_par"] = np.array(v, dtype=float).reshape(-1).copy(), (float(loc), float(scale), int(np.prod(size)))
            return v

        def w_uniform(low=0.0, high=1.0, size=None):
            v = o_uniform(low, high, size)
            c = rec.cur
            if c is not None and not rec.in_atom:
                c["gen"].append("uniform3")
                c["axis"], c["axis_par"] = np.array(v, dtype=float).reshape(-1).copy(), (float(low), float(high))
            return v

        def w_rand(*shape):
            v = o_rand(*shape)
            if rec.in_atom:
                if rec.cur is not None:
                    rec.cur["u3"] = np.array(v, dtype=float).reshape(-1).copy()
            elif rec.in_accept is not None and not shape:
                rec.in_accept.setdefault("us", []).append(float(v))
            return v

        def w_randint(*a, **kw):
            v = o_randint(*a, **kw)
            if rec.in_atom and rec.cur is not None:
                rec.cur["k"] = int(v)
                rec.cur["randint_arg"] = [int(x) for x in a]
            return v

        A.minimize_molecules = w_min
        B.accept_metropolis, B.move_mol_atom = w_accept, w_move
        np.random.choice, np.random.normal, np.random.uniform = w_choice, w_normal, w_uniform
        np.random.rand, np.random.randint = w_rand, w_randint
        return self

    def __exit__(self, *exc):
        self.A.minimize_molecules, self.B.accept_metropolis, self.B.move_mol_atom = self.saved
        for n, v in self.saved_r.items():
            setattr(np.random, n, v)
        return False


def run_recorded(case, ali=None):
    """the implementation under the recorder; returns the observation (plain data).  With `ali` the call is made on that
    (re-used) Alignment object and the model's inputs are the VALUES of its start / end when the call starts (the
    setters copy: value semantics)"""
    import gaddlemaps._alignment as A
    if ali is None:
        start, end = build(case["start"], "MOLA"), build(case["end"], "MOLB")
    else:
        start, end = ali.start, ali.end
    view_s, view_e = mol_view(start), mol_view(end)
    restr, deform, ign, autog = call_args(case)
    state = np.random.get_state()
    rec = Recorder(max_passes=pass_cap(case, min(len(start), len(end))))
    err = None
    runaway = False
    try:
        with steps_factor(case["sf"]), contextlib.redirect_stdout(io.StringIO()), np.errstate(all="ignore"):
            np.random.seed(case["seed"])
            if ali is None:
                ali = A.Alignment(start, end)
            with rec:
                try:
                    ali.align_molecules(restr, deform, ign, autog)
                except RunAway:
                    runaway = True
                except Exception as ex:     # noqa
                    err = ex
    finally:
        np.random.set_state(state)
    obs = {"view_start": view_s, "view_end": view_e, "rec": rec, "err": None if err is None else err_of(err),
           "exc": None if err is None else repr(err)[:200], "runaway": runaway}
    if err is None and not runaway:
        obs["start"], obs["end"] = snapshot(ali.start), snapshot(ali.end)
    return obs


def run_recorded_reuse(case):
    """K on a re-used Alignment object: one (options, observation) per align operation"""
    import gaddlemaps._alignment as A
    with contextlib.redirect_stdout(io.StringIO()):
        ali = A.Alignment(build(case["start"], "MOLA"), build(case["end"], "MOLB"))
    out = []
    for op in case["ops"]:
        if op["op"] != "align":
            which = op["op"][4:]
            setattr(ali, which, reconfigured(case[which], op, "MOLA" if which == "start" else "MOLB"))
            continue
        obs = run_recorded(op, ali=ali)
        out.append((op, obs))
        if obs["runaway"]:
            break
    return out


def protocol_check(case, obs):
    """the generator parameters the model takes for granted (python side of K)"""
    rec = obs["rec"]
    bad = list(rec.protocol)
    if rec.ncalls > 1:
        bad.append("optimiser called %d times" % rec.ncalls)
    a = rec.args
    if a is None:
        if rec.steps:
            bad.append("Monte-Carlo passes without an optimiser call")
        return bad
    for n, c in enumerate(rec.steps):
        if "acc" not in c:
            bad.append("pass %d was never judged" % n)
            continue
        if c["sim"] != a["deform"]:
            bad.append("pass %d: choice over %s, deformation types are %s" % (n, c["sim"], a["deform"]))
        want = {0: ["normal3"], 1: ["uniform3", "normal1"], 2: ["atom"]}.get(c["kind"])
        if c["gen"] != want:
            bad.append("pass %d: type %s used generators %s" % (n, c["kind"], c["gen"]))
            continue
        if c["kind"] == 0 and c["d_par"] != (0.0, a["width"], 3):
            bad.append("pass %d: translation drawn from normal%s, width is %r" % (n, c["d_par"], a["width"]))
        if c["kind"] == 1 and (c["axis_par"] != (-1.0, 1.0) or c["theta_par"] != (0.0, math.pi / 4.)):
            bad.append("pass %d: rotation drawn from uniform%s normal%s" % (n, c["axis_par"], c["theta_par"]))
        if c["kind"] == 2:
            if c.get("randint_arg") != [len(a["mobile"])] or c.get("g_loc") != 0.0:
                bad.append("pass %d: atom move drew randint%s normal(loc=%s)" % (n, c.get("randint_arg"), c.get("g_loc")))
            if ("u3" in c) == ("neg" in c):
                bad.append("pass %d: atom move drew both / none of rand(3) and choice" % n)
        if len(c.get("us", [])) > 1:
            bad.append("pass %d: more than one uniform draw in accept_metropolis" % n)
    return bad[:5]


# ====================================================================================== Coq terms
def t_str(s):
    return lib.coq_bytes(s)


def t_nat(n):
    return "%d%%nat" % int(n)


def t_pos(arr):
    return coq_list([v3(p) for p in np.asarray(arr, dtype=float).reshape(-1, 3)])


def t_amol(view):
    residues, adj = view
    rs = coq_list(["mkRes %s %s" % (t_str(rn), coq_list(["mkAtom %s %s" % (t_str(an), v3(p)) for an, p in atoms]))
                   for rn, atoms in residues])
    ad = coq_list([coq_list([t_nat(j) for j in l]) for l in adj])
    return "(mkAMol %s %s)" % (rs, ad)


def t_zz(l):
    return coq_list(["(%s, %s)" % (coq_z(a), coq_z(b)) for a, b in l])


def t_opt(x, f):
    return "None" if x is None else "(Some %s)" % f(x)


def t_table(tb, n):
    out = []
    for i in range(n):
        if i in tb:
            out.append("Some %s" % coq_list(["(%s, %s)" % (t_nat(j), fl(b)) for j, b in tb[i]]))
        else:
            out.append("None")
    return coq_list(out)


def t_args(a):
    return "(OArgs %s %s %s %s %s %s %s %s %s)" % (
        t_pos(a["fixed"]), t_pos(a["mobile"]), v3(a["com"]), fl(a["sigma"]), coq_z(a["n_steps"]), t_zz(a["restr"]),
        t_table(a["table"], len(a["mobile"])), fl(a["width"]), coq_list([coq_z(x) for x in a["deform"]]))


def t_stream(rec):
    draws, cs, osteps, sigmas = [], [], [], []
    a = rec.args
    for c in rec.steps:
        if "acc" not in c:
            break
        i = a["deform"].index(c["kind"]) if c["kind"] in a["deform"] else 99
        draws.append("DChoice %s" % t_nat(i))
        if c["kind"] == 0:
            draws.append("DProp (PTrans %s)" % v3(c["d"]))
        elif c["kind"] == 1:
            draws.append("DProp (PRot %s %s)" % (v3(c["axis"]), fl(c["theta"])))
            cs.append("(%s, %s, %s)" % (fl(c["theta"]), fl(np.cos(c["theta"])), fl(np.sin(c["theta"]))))
        else:
            u = c.get("u3", np.zeros(3))
            draws.append("DProp (PAtom (%s, %s, %s, %s))" % (t_nat(c.get("k", 0)), v3(u),
                                                            "true" if c.get("neg") else "false", fl(c.get("g", 0.0))))
            sigmas.append("(%s, %s)" % (t_nat(c.get("k", 0)), fl(c.get("g_sigma", float("nan")))))
        for u in c.get("us", [])[:1]:
            draws.append("DRand %s" % fl(u))
        osteps.append("OStep %s %s" % (fl(c["e1"]), "true" if c["acc"] else "false"))
    return coq_list(draws), coq_list(cs), coq_list(osteps), coq_list(sigmas)


def term_case(case, obs):
    rec = obs["rec"]
    if obs["err"] is not None:
        o = "(OErr %s)" % obs["err"]
        stream, cs = "[]", "[]"
    else:
        names_s = coq_list([t_str(x) for x in obs["start"]["names"]])
        names_e = coq_list([t_str(x) for x in obs["end"]["names"]])
        if rec.args is None:
            stream, cs, osteps, sigmas, args = "[]", "[]", "[]", "[]", "None"
        else:
            stream, cs, osteps, sigmas = t_stream(rec)
            args = "(Some %s)" % t_args(rec.args)
        o = "(OOk %s %s %s %s %s %s %s)" % (t_pos(obs["start"]["pos"]), t_pos(obs["end"]["pos"]), names_s, names_e,
                                            args, osteps, sigmas)
    restr, deform = case["restr"], case["deform"]
    return "chk_align %s %s %s %s %s %s %s %s %s %s" % (
        coq_z(case["sf"]), t_amol(obs["view_start"]), t_amol(obs["view_end"]), t_opt(restr, t_zz),
        t_opt(deform, lambda d: coq_list([coq_z(x) for x in d])), "true" if case["ign"] else "false",
        "true" if case.get("autog", True) else "false", stream, cs, o)


# ====================================================================================== S oracle (property text)
def pair_dists(p):
    d = p[:, None, :] - p[None, :, :]
    return np.sqrt((d * d).sum(axis=2))


def in_domain(case, start, end):
    """the quantifier of the property: non-empty deformation subset of {0,1,2}, single-atom moves only for a mobile
    molecule of >= 2 atoms, the larger molecule has a bond and a non-hydrogen atom, restraint indices in range"""
    ns, ne = len(start), len(end)
    big = end if ns < ne else start
    small_n = ns if ns < ne else ne
    d = case["deform"]
    if d is not None and (len(d) == 0 or any(x not in (0, 1, 2) for x in d)):
        return False
    if d is not None and 2 in d and (small_n < 2 or ne == 1):
        return False
    if all(is_h(a.name) for a in big):
        return False
    if ne != 1 and not any(len(big[i].bonds) for i in range(len(big))):
        return False
    if case["restr"]:
        for i, j in case["restr"]:
            if not (0 <= i < ns and 0 <= j < ne):
                return False
    return True


def judge(case, before_s, before_e, adj_s, adj_e, after_s, after_e, nan_trials):
    """the structure clauses of C06 for one align_molecules call: `before_*` = the two molecules as the call found them
    (snapshots), `after_*` = Alignment.start / Alignment.end afterwards.  Returns the list of failed clauses."""
    bad = []
    ns, ne = before_s["n"], before_e["n"]
    # order, count and names
    for tag, b, a in (("start", before_s, after_s), ("end", before_e, after_e)):
        ld = label_diff(a, b)
        if ld:
            k = ld[0]
            ch = [(o, n) for o, n in zip(b[k], a[k]) if o != n][:2] if isinstance(b[k], list) else [(b[k], a[k])]
            bad.append("atom order / names of the %s molecule of the Alignment changed: fields %s, e.g. %s: %s" % (tag, ld, k, ch))
    if bad:
        return bad
    if not (np.isfinite(after_s["pos"]).all() and np.isfinite(after_e["pos"]).all()):
        bad.append("non-finite coordinates after the alignment (%d of %d in start, %d of %d in end; %d nan trial "
                   "configurations were judged during the search)" %
                   (int((~np.isfinite(after_s["pos"])).sum()), after_s["pos"].size,
                    int((~np.isfinite(after_e["pos"])).sum()), after_e["pos"].size, nan_trials))
        return bad
    d = before_e["pos"].mean(axis=0) - before_s["pos"].mean(axis=0)
    if ns < ne:
        fixed_tag, mob_b, mob_a, mob_adj = "end", before_s, after_s, adj_s
        if not bits_equal(after_e["pos"], before_e["pos"]):
            bad.append("the end molecule has more atoms and was touched (max |dx| = %.3g)" %
                       np.abs(after_e["pos"] - before_e["pos"]).max())
    else:
        fixed_tag, mob_b, mob_a, mob_adj = "start", before_e, after_e, adj_e
        dev = np.abs(after_s["pos"] - (before_s["pos"] + d)).max()
        if dev > TOL:
            bad.append("the start molecule (not smaller than end) is not its input translated by "
                       "centre(end) - centre(start): max deviation %.3g nm" % dev)
    n = mob_b["n"]
    if ne == 1 and not bits_equal(after_e["pos"], before_e["pos"]):
        bad.append("single-atom end molecule was touched")
    # bonded distances of the other molecule when its bond graph is acyclic.  Degenerate geometries: a bond of length
    # zero has no direction to restore, and a run in which numpy produced a nan trial (0/0) is judged on the clauses
    # that stay meaningful (finiteness above all): bonds are compared where the initial length is non-zero and no nan
    # trial occurred
    if is_tree(n, mob_adj) and not nan_trials:
        worst = 0.0
        for i, l in enumerate(mob_adj):
            for j in l:
                d0 = np.linalg.norm(mob_b["pos"][i] - mob_b["pos"][j])
                if d0 == 0.0:
                    continue
                worst = max(worst, abs(np.linalg.norm(mob_a["pos"][i] - mob_a["pos"][j]) - d0))
        if worst > TOL:
            bad.append("a bonded distance of the mobile (%s) molecule changed by %.3g nm (acyclic bond graph)" %
                       ("start" if ns < ne else "end", worst))
    # all pairwise distances when single-atom moves are disabled
    eff = case["deform"] if case["deform"] is not None else ([0] if (ns == 1 or ne == 1) else [0, 1, 2])
    if 2 not in eff:
        dev = np.abs(pair_dists(mob_a["pos"]) - pair_dists(mob_b["pos"])).max() if n else 0.0
        if dev > TOL:
            bad.append("single-atom moves disabled but a pairwise distance of the mobile molecule changed by %.3g nm" % dev)
    return bad


def restr_changed_msg(restr, restr_before, after):
    """the restraint list is an input supplied by the caller like the molecules: None when the list object still holds
    the same pairs in the same order (== against the deep copy taken before the call), else what changed"""
    if restr is None or restr == restr_before:
        return None
    return ("the restraint list supplied by the caller was modified by %s: %s -> %s%s" %
            (after, str(restr_before)[:160], str(restr)[:160],
             " (the (start, end) pairs were swapped in place)" if restr == [tuple(p[::-1]) for p in restr_before] else ""))


def oracle_case(case, repeat=True):
    """evaluates the clauses of C06 on one alignment.  Returns (list of failed clauses, outcome) where outcome =
    final positions of both molecules as hex strings (None when the call raised)."""
    start, end = build(case["start"], "MOLA"), build(case["end"], "MOLB")
    before_s, before_e = snapshot(start), snapshot(end)
    adj_s, adj_e = mol_view(start)[1], mol_view(end)[1]
    if not in_domain(case, start, end):
        return [], None
    # the caller's restraint list: ONE list object for the call and its repetition, deep copy taken before the call
    restr = call_args(case)[0]
    restr_before = copy.deepcopy(restr)
    ali, err = run_plain(start, end, case, restr_obj=restr)
    bad = []
    inputs_bad = []          # caller's restraint list modified: reported together with the repetition below
    m = restr_changed_msg(restr, restr_before, "align_molecules")
    if m:
        inputs_bad.append(m)
    # the caller's objects are never modified (also when the call raises): both halves (topology and coordinates)
    # bit for bit, and the objects still usable
    for what, mol, snap in (("the start Molecule supplied by the caller", start, before_s),
                            ("the end Molecule supplied by the caller", end, before_e)):
        m = modified_msg(what, mol, snap)
        if m:
            bad.append(m)
    if err is not None:
        if isinstance(err, RunAway):
            return (bad + inputs_bad if bad else bad), {"runaway": True}
        if case.get("expect_error"):
            return (bad + inputs_bad if bad else bad), None
        # a mobile molecule that is not connected is refused with IOError (documented): not an outcome
        if isinstance(err, OSError):
            return (bad + inputs_bad if bad else bad), None
        bad.append("align_molecules raised %r on an input of the property's domain" % (err,))
        return bad + inputs_bad, None
    after_s, after_e = snapshot(ali.start), snapshot(ali.end)
    nan_trials = run_plain.nan_trials
    for tag, mol in (("start", ali.start), ("end", ali.end)):
        u = unusable(mol)
        if u:
            bad.append("the %s molecule of the Alignment can no longer be iterated / copied (%s)" % (tag, u))
    bad += judge(case, before_s, before_e, adj_s, adj_e, after_s, after_e, nan_trials)
    if bad:
        return bad + inputs_bad, None
    outcome = {"digest": pos_digest(after_s["pos"], after_e["pos"]), "nan_trials": int(nan_trials)}
    # bit-identical when repeated with the same seed: the very same call again - the same Molecule objects, the SAME
    # restraint list object, the same deformation types and numpy seed (what a caller does who aligns twice with an
    # already parsed restraint list)
    if repeat:
        same = "" if restr is None else " (same Molecule objects and same restraint list object %s)" % (str(restr_before)[:120],)
        ali2, err2 = run_plain(start, end, case, restr_obj=restr)
        if isinstance(err2, RunAway):
            bad.append("repetition with the same inputs and seed%s ran away while the first run ended" % same)
        elif err2 is not None:
            bad.append("repetition with the same inputs and seed%s raised %r while the first run succeeded" % (same, err2))
        elif not (bits_equal(ali2.start.atoms_positions, after_s["pos"]) and bits_equal(ali2.end.atoms_positions, after_e["pos"])):
            bad.append("repetition with the same inputs and seed in the same process%s gave a different outcome "
                       "(max |dx| = %.3g nm)" % (same, max(np.abs(ali2.start.atoms_positions - after_s["pos"]).max(),
                                                           np.abs(ali2.end.atoms_positions - after_e["pos"]).max())))
        m = restr_changed_msg(restr, restr_before, "the two calls together")
        if m and not inputs_bad:
            inputs_bad.append(m)
    # a modified restraint list is not a clause of C06 (the statement names the Molecule objects): it is reported as the
    # explanation of a failed clause (the repetition above), never on its own
    return (bad + inputs_bad if bad else bad), (None if bad else outcome)


def reconfigured(spec, op, molname):
    """a new Molecule object of the same species in another configuration: positions R.p + shift (`rot`, `shift`)"""
    mol = build(spec, molname)
    R = np.array(op.get("rot", np.eye(3)), dtype=float)
    mol.atoms_positions = np.array(mol.atoms_positions, dtype=float) @ R.T + np.array(op.get("shift", [0, 0, 0]), dtype=float)
    return mol


def run_reuse_once(case, judge_it=True):
    """ONE Alignment object driven through case["ops"]: {"op": "align", options...} | {"op": "set_start" | "set_end",
    "rot", "shift"} (assignment of an equal molecule in another configuration: the documented way to re-use the object).
    Every Molecule ever handed to the object is snapshotted when it is handed over and compared bit for bit after EVERY
    later operation.  Returns (failed clauses, outcomes of the align operations)."""
    import gaddlemaps._alignment as A
    start, end = build(case["start"], "MOLA"), build(case["end"], "MOLB")
    handed = [("start molecule given to the constructor", start, snapshot(start)),
              ("end molecule given to the constructor", end, snapshot(end))]
    with contextlib.redirect_stdout(io.StringIO()):
        ali = A.Alignment(start, end)
    bad, outcomes = [], []
    notes = []
    lists = {}          # restraint lists held by the caller: operations with the same pairs hand over the SAME list object

    def callers_untouched(after):
        for what, mol, snap in handed:
            m = modified_msg(what, mol, snap)
            if m:
                bad.append("%s (found after %s)" % (m, after))
        for _, (obj, before) in sorted(lists.items()):
            m = restr_changed_msg(obj, before, after)
            if m and m not in notes:
                notes.append(m)          # explanation only: not a clause of C06 on its own
    callers_untouched("construction")
    for k, op in enumerate(case["ops"]):
        if bad:
            break
        if op["op"] in ("set_start", "set_end"):
            which = op["op"][4:]
            mol = reconfigured(case[which], op, "MOLA" if which == "start" else "MOLB")
            handed.append(("the %s molecule assigned in operation #%d" % (which, k), mol, snapshot(mol)))
            setattr(ali, which, mol)
            callers_untouched("the assignment #%d" % k)
            continue
        u = unusable(ali.start) or unusable(ali.end)
        if u:
            bad.append("a molecule of the Alignment can no longer be iterated / copied before operation #%d (%s)" % (k, u))
            break
        if not in_domain(op, ali.start, ali.end):
            outcomes.append(None)
            continue
        before_s, before_e = snapshot(ali.start), snapshot(ali.end)
        adj_s, adj_e = mol_view(ali.start)[1], mol_view(ali.end)[1]
        restr = call_args(op)[0]
        if restr is not None:
            restr = lists.setdefault(json.dumps(op["restr"]), (restr, copy.deepcopy(restr)))[0]
        _, err = run_plain(None, None, op, ali=ali, restr_obj=restr)
        callers_untouched("align_molecules #%d" % k)
        if err is not None:
            if isinstance(err, RunAway):
                outcomes.append({"runaway": True})
                break
            if not isinstance(err, OSError):
                bad.append("align_molecules #%d raised %r on an input of the property's domain" % (k, err))
            outcomes.append(None)
            continue
        after_s, after_e = snapshot(ali.start), snapshot(ali.end)
        if judge_it:
            bad += ["align_molecules #%d: %s" % (k, b) for b in
                    judge(op, before_s, before_e, adj_s, adj_e, after_s, after_e, run_plain.nan_trials)]
        outcomes.append({"digest": pos_digest(after_s["pos"], after_e["pos"])})
    return (bad + notes if bad else bad), outcomes


def oracle_reuse(case, repeat=True):
    bad, outcomes = run_reuse_once(case)
    if not bad and repeat:
        bad2, outcomes2 = run_reuse_once(case, judge_it=False)
        if bad2 or outcomes2 != outcomes:
            bad.append("the same sequence of operations with the same seeds on a fresh Alignment object gave a different outcome")
    return bad, {"reuse": outcomes}


def oracle_any(case, repeat=True):
    return oracle_reuse(case, repeat) if case.get("kind") == "reuse" else oracle_case(case, repeat)


def random_rotation(rs):
    q, r = np.linalg.qr(rs.normal(size=(3, 3)))
    q = q * np.sign(np.diag(r))
    if np.linalg.det(q) < 0:
        q[:, 0] = -q[:, 0]
    return q


def gen_reuse_case(rs, base=None):
    """one Alignment object: align, then 2-4 more alignments, before each of which start and/or end may be re-assigned
    with an equal molecule in another configuration (at least one re-assignment of each kind of role over the stream)"""
    c = base or gen_case(rs, mobile_tree=bool(rs.randint(2)))
    ns = len(c["start"].get("atoms", [])) or c.get("ns")
    ne = len(c["end"].get("atoms", [])) or c.get("ne")

    def align_op():
        o = gen_options(rs, ns, ne)
        o["op"] = "align"
        o["sf"] = min(o["sf"], 8)
        if c.get("tagged_residues") is not None:
            o["restr"], o["autog"] = None, True         # keep the automatic restraint guess
        elif o["restr"] is None and len(set(a[1] for a in c["start"].get("atoms", []))) > 1:
            o["restr"] = []
        return o

    def set_op(which):
        return {"op": "set_" + which, "rot": random_rotation(rs).tolist(), "shift": rs.uniform(-2, 2, size=3).tolist()}
    first = align_op()
    first.update({k: c[k] for k in ("restr", "deform", "ign", "autog", "seed") if k in c})
    ops = [first]
    forced = ["start", "end", "both"][int(rs.randint(3))]
    for n in range(int(rs.randint(2, 5))):
        r = rs.randint(0, 5)
        which = forced if n == 0 else ("start" if r == 0 else "end" if r == 1 else "both" if r == 2 else None)
        if which in ("start", "both"):
            ops.append(set_op("start"))
        if which in ("end", "both"):
            ops.append(set_op("end"))
        ops.append(align_op())
    if ops[0]["restr"] and c.get("tagged_residues") is None:
        # the last alignment is made with the restraint list of the first one (the oracle hands over the same list object)
        ops[-1]["restr"] = [list(p) for p in ops[0]["restr"]]
    return {"kind": "reuse", "start": c["start"], "end": c["end"], "ops": ops}


def reuse_witness_case():
    """seeded/C06-6/demo.py: vitamin E CG (10 beads, start) on VTE_AA (32 atoms, end), STEPS_FACTOR 20, seed 3; then a
    second configuration of the CG molecule (rotated by 90 degrees about z and shifted) is assigned to the same object and
    aligned again"""
    opt = {"op": "align", "restr": None, "deform": None, "ign": True, "autog": True, "sf": 20, "seed": 3}
    return {"kind": "reuse", "start": {"shipped": ["VTE_map.gro", "vitamin_E_CG.itp"]},
            "end": {"shipped": ["VTE_AA.gro", "VTE_AA.itp"]},
            "ops": [dict(opt), {"op": "set_start", "rot": [[0, -1, 0], [1, 0, 0], [0, 0, 1]], "shift": [1.5, -0.7, 2.0]},
                    dict(opt), {"op": "set_end", "rot": [[1, 0, 0], [0, 0, -1], [0, 1, 0]], "shift": [-0.5, 0.25, 1.0]},
                    dict(opt, seed=4)]}


def restraint_list_witness_cases():
    """seeded/C06-12/demo.py: a 6-atom chain (start, the mobile one) on a 12-atom chain (end), restraint list
    [(0, 3), (2, 5), (5, 1)] (not symmetric under (i, j) -> (j, i)), types (0, 1, 2), hydrogens kept, STEPS_FACTOR 40,
    seed 7: the oracle repeats the call with the same list object; and the control with the larger molecule as start"""
    def chain(n, seed, resn):
        rng = np.random.RandomState(seed)
        pos = np.zeros((n, 3))
        for i in range(1, n):
            step = rng.normal(size=3)
            pos[i] = pos[i - 1] + 0.15 * step / np.linalg.norm(step)
        pos += rng.uniform(1, 3, 3)
        return {"atoms": [["C%d" % (i + 1), resn, 1] for i in range(n)], "pos": pos.tolist(),
                "bonds": [[i, i + 1] for i in range(n - 1)]}
    small, big = chain(6, 11, "SML"), chain(12, 12, "BIG")
    restr = [[0, 3], [2, 5], [5, 1]]
    opt = {"deform": [0, 1, 2], "ign": False, "autog": True, "sf": 40, "seed": 7}
    return [dict(opt, kind="pair", start=small, end=big, restr=restr),
            dict(opt, kind="pair", start=big, end=small, restr=[[j, i] for i, j in restr])]


def nonsymmetric_restraints(case):
    """the case hands over a restraint list that differs from its (i, j) -> (j, i) image"""
    r = case.get("restr")
    return bool(r) and [list(p) for p in r] != [list(p)[::-1] for p in r]


def run_session_here(cases, repeat=True):
    """oracle on the cases one after the other in THIS process"""
    out = []
    for c in cases:
        bad, outcome = oracle_any(c, repeat=repeat)
        out.append({"bad": bad, "outcome": outcome})
        molgen.purge()
    return out


def spawn_session(cases, hashseed, repeat=True):
    """start a fresh interpreter that runs the cases back to back; returns the Popen"""
    env = dict(os.environ)
    env.update(lib.impl_env(str(hashseed)))
    env["VERIF_REPO"] = lib.REPO
    p = subprocess.Popen([lib.PY, os.path.abspath(__file__), "--session", "1" if repeat else "0"], stdin=subprocess.PIPE,
                         stdout=subprocess.PIPE, stderr=subprocess.PIPE, env=env, universal_newlines=True)
    p.stdin.write(json.dumps(cases))
    p.stdin.close()
    return p


def collect_session(p, timeout=600):
    try:
        p.wait(timeout=timeout)
    except subprocess.TimeoutExpired:
        p.kill()
        return None, "timeout"
    out, err = p.stdout.read(), p.stderr.read()
    if p.returncode != 0:
        return None, err[-1500:]
    try:
        return json.loads(out.strip().splitlines()[-1]), None
    except Exception:   # noqa
        return None, "unparsable output: " + out[-500:]


def check_sessions(ctx, sessions, tag, jobs=14):
    """every session in two fresh processes with different hash seeds: property clauses per alignment, and the outcomes of
    the two processes bit for bit.  Returns the number of failures reported."""
    S = ctx.cov["S"]
    fails = 0
    queue = [(k, hs) for k in range(len(sessions)) for hs in (1, 2)]
    running, results = [], {}
    while queue or running:
        while queue and len(running) < jobs:
            k, hs = queue.pop(0)
            running.append((k, hs, spawn_session(sessions[k]["cases"], 17 * hs + 3)))
        still = []
        for k, hs, p in running:
            if p.poll() is None:
                still.append((k, hs, p))
            else:
                results[(k, hs)] = collect_session(p)
        running = still
        if running:
            time.sleep(0.02)
    for k, sess in enumerate(sessions):
        (r1, e1), (r2, e2) = results[(k, 1)], results[(k, 2)]
        if r1 is None or r2 is None:
            ctx.violation("session could not be executed in a fresh process: %s" % (e1 or e2),
                          {"kind": "session", "cases": sess["cases"]}, no_input=False, key="session-crash")
            fails += 1
            continue
        first_bad = None
        for n, (a, b) in enumerate(zip(r1, r2)):
            S["alignments_in_sessions"] = S.get("alignments_in_sessions", 0) + 1
            S["nan_trials_rejected"] = S.get("nan_trials_rejected", 0) + int((a["outcome"] or {}).get("nan_trials", 0))
            bad = list(a["bad"])
            if not bad and b["bad"]:
                bad = ["(PYTHONHASHSEED=%d) %s" % (17 * 2 + 3, x) for x in b["bad"]]
            if not bad and a["outcome"] != b["outcome"]:
                bad = ["two fresh processes with different PYTHONHASHSEED gave different outcomes for alignment #%d" % n]
            if bad and first_bad is None:
                first_bad = (n, bad)
        if first_bad:
            n, bad = first_bad
            fails += 1
            # does the failing alignment fail on its own (fresh process, nothing aligned before)?
            alone, _ = collect_session(spawn_session([sess["cases"][n]], 20))
            if alone and alone[0]["bad"]:
                ctx.violation("alignment: " + "; ".join(alone[0]["bad"]),
                              dict(sess["cases"][n], kind=sess["cases"][n].get("kind", "pair")), key=tag)
            else:
                ctx.violation("alignment #%d of a sequence of %d alignments in one process: %s  -- the same alignment "
                              "alone in a fresh process satisfies the property: the outcome depends on what was aligned "
                              "before (not a function of inputs and seed)" % (n, n + 1, "; ".join(bad)),
                              {"kind": "session", "cases": sess["cases"][:n + 1]}, key=tag)
    return fails


# ====================================================================================== check entry points
def _mk(names, pos, bonds, resn="MOL"):
    return {"atoms": [[n, resn, 1] for n in names], "pos": pos, "bonds": bonds}


def corpus_cases():
    """committed witnesses: ties of several sizes, both role assignments, single atoms, a repeated pair"""
    rs = np.random.RandomState(606)
    out = []
    for ns, ne in [(6, 6), (2, 2), (1, 1), (7, 7), (3, 3), (9, 5), (5, 9), (4, 1), (1, 4), (2, 1), (12, 12)]:
        c = gen_case(rs, sizes=(ns, ne), mobile_tree=True)
        c["restr"] = [] if ns % 2 else ([[0, 0]] if c["restr"] is None else c["restr"])
        c["deform"] = None if (ns + ne) % 3 == 0 else ([0, 1, 2] if min(ns, ne) >= 2 and ne > 1 else [0, 1])
        c["sf"] = 8
        out.append(c)
    out.extend(demo_witness_cases())          # degenerate mobile molecules (seeded/C06-3 witness)
    for kind, nmob, start_mobile in (("collinear", 5, False), ("one_point", 3, False), ("zero_bond", 4, True),
                                     ("coincident_nb", 4, True), ("coincident_nb", 3, False)):
        mob = gen_degenerate_molspec(rs, kind, nmob)
        fixed = gen_molspec(rs, nmob + (3 if start_mobile else 0), "tree")
        if all(is_h(a[0]) for a in fixed["atoms"]):
            fixed["atoms"][0][0] = "C0"
        start, end = (mob, fixed) if start_mobile else (fixed, mob)
        out.append({"kind": "pair", "start": start, "end": end, "restr": [], "deform": [0, 2] if nmob % 2 else None,
                    "ign": True, "autog": True, "sf": 40, "seed": 7 + nmob, "degenerate": kind})
    return out


def corpus(ctx):
    S = ctx.cov["S"]
    cases = corpus_cases()
    S["corpus"] = len(cases)
    S["corpus_nan_trials"] = 0
    cases.append(reuse_witness_case())
    cases.extend(tagged_witness_cases())        # seeded/C06-10 witness: residue names differing by containment
    cases.append(dna_case(seed=1))              # shipped DNA pair (DC5 ... / DC ...)
    cases.extend(restraint_list_witness_cases())    # seeded/C06-12 witness: the same restraint list object used twice
    rs = np.random.RandomState(608)
    for _ in range(3):
        cases.append(gen_tagged_case(rs))
    rs = np.random.RandomState(607)
    for sizes in ((3, 7), (6, 6), (8, 4)):
        cases.append(gen_reuse_case(rs, base=gen_case(rs, sizes=sizes, mobile_tree=True)))
    S["corpus"] = len(cases)
    for c in cases:
        bad, out = oracle_any(c)
        S["corpus_nan_trials"] += (out or {}).get("nan_trials", 0)
        ctx.count(("corpus", json.dumps(c, sort_keys=True)))
        if bad:
            ctx.violation("alignment: " + "; ".join(bad), c, key="corpus")
    molgen.purge()
    # open finding on the unchanged tree: evaluated only once the owner has listed its key in known_findings.txt
    # (then reported as KNOWN-FINDING while it fails, silent after a repair)
    path = os.path.join(lib.ROOT, "corpus", "C06", "open_nan_unrestrained_atom.json")
    if os.path.exists(path) and any(k == "nan-unrestrained-atom" for k, _ in ctx.known):
        c = json.load(open(path))["replay"]
        bad, _ = oracle_case(c)
        if bad:
            ctx.violation("alignment: " + "; ".join(bad), c, key="nan-unrestrained-atom")
        molgen.purge()


def gen_K_cases(ctx, rs):
    n_pairs = ctx.n(150, 1500)
    n_ship = ctx.n(8, 40)
    n_err = ctx.n(9, 60)
    n_sess = ctx.n(6, 40)
    cases = []
    for k in range(len(SHIPPED)):
        cases.append(gen_shipped(rs, k))
    for _ in range(max(0, n_ship - len(SHIPPED))):
        cases.append(gen_shipped(rs))
    for _ in range(n_sess):
        cases.extend(gen_session(rs, length=int(rs.randint(3, 7)))["cases"])
    for _ in range(n_pairs):
        cases.append(gen_case(rs))
    for _ in range(n_err):
        cases.append(gen_error_case(rs))
    for _ in range(ctx.n(14, 120)):
        cases.append(gen_degenerate_case(rs, sf_range=(6, 13)))
    for _ in range(ctx.n(6, 50)):
        cases.append(gen_reuse_case(rs))
    for k in range(ctx.n(10, 80)):
        cases.append(gen_tagged_case(rs, identical=(k % 5 == 4)))
    return cases


def correspondence(ctx):
    rc, out = lib.coq_make(["Corr/CheckC06.vo"])
    K = ctx.cov["K"]
    if rc != 0:
        K["error"] = out[-1500:]
        return [{"error": "Corr/CheckC06.vo does not build", "log": out[-1500:]}]
    rs = ctx.np_rng("K")
    cases = gen_K_cases(ctx, rs)
    terms, meta, proto = [], [], []
    hist = {"tie": 0, "start_mobile": 0, "end_mobile": 0, "no_optimiser_call": 0, "error": 0, "passes": 0,
            "accepted": 0, "kind0": 0, "kind1": 0, "kind2": 0, "hydrogens_filtered": 0, "restrained": 0, "shipped": 0,
            "mobile_cyclic": 0, "runaway_skipped": 0, "degenerate": 0, "nan_trials_rejected": 0, "reused_objects": 0, "tagged_residue_names": 0,
            "guessed_restraints": 0}
    sizes = {}
    t0 = time.time()
    flat = []
    for c in cases:
        if c.get("kind") == "reuse":
            hist["reused_objects"] += 1
            for n, (op, obs) in enumerate(run_recorded_reuse(c)):
                # replayable on its own account: the whole sequence up to this alignment
                ops, seen = [], 0
                for o in c["ops"]:
                    ops.append(o)
                    if o["op"] == "align":
                        seen += 1
                        if seen == n + 1:
                            break
                flat.append((dict(c, ops=ops, restr=op["restr"], deform=op["deform"], ign=op["ign"], sf=op["sf"],
                                  seed=op["seed"], autog=op.get("autog", True)), obs))
        else:
            flat.append((c, run_recorded(c)))
        molgen.purge()
    for c, obs in flat:
        rec = obs["rec"]
        if obs["runaway"]:
            hist["runaway_skipped"] += 1
            continue
        ns = sum(len(a) for _, a in obs["view_start"][0])
        ne = sum(len(a) for _, a in obs["view_end"][0])
        hist["tie" if ns == ne else ("start_mobile" if ns < ne else "end_mobile")] += 1
        sizes["%d-%d" % (10 * (ns // 10), 10 * (ne // 10))] = sizes.get("%d-%d" % (10 * (ns // 10), 10 * (ne // 10)), 0) + 1
        if "shipped" in c["start"]:
            hist["shipped"] += 1
        if c.get("degenerate"):
            hist["degenerate"] += 1
        if c.get("tagged_residues"):
            hist["tagged_residue_names"] += 1
        if c.get("restr") is None and rec.args is not None and rec.args["restr"]:
            hist["guessed_restraints"] += 1
        if obs["err"] is not None:
            hist["error"] += 1
        elif rec.args is None:
            hist["no_optimiser_call"] += 1
        else:
            done = [s for s in rec.steps if "acc" in s]
            hist["passes"] += len(done)
            hist["nan_trials_rejected"] += sum(1 for s in done if s["e1"] != s["e1"] and not s["acc"])
            hist["accepted"] += sum(1 for s in done if s["acc"])
            for s in done:
                if s["kind"] in (0, 1, 2):
                    hist["kind%d" % s["kind"]] += 1
            if c["ign"] and len(rec.args["fixed"]) < max(ns, ne):
                hist["hydrogens_filtered"] += 1
            if rec.args["restr"]:
                hist["restrained"] += 1
            mob_adj = obs["view_start"][1] if ns < ne else obs["view_end"][1]
            if not is_tree(min(ns, ne), mob_adj):
                hist["mobile_cyclic"] += 1
        p = protocol_check(c, obs)
        if p:
            proto.append(dict(c, code="protocol", protocol=p))
        terms.append(term_case(c, obs))
        meta.append(c)
        ctx.count(("K", c["seed"], ns, ne), nontrivial=bool(rec.args is not None and any(s.get("acc") for s in rec.steps)))
    for c in (meta[0], meta[len(SHIPPED) + 2], meta[-1]):
        ctx.sample({k: (v if k not in ("start", "end") else
                        {kk: vv for kk, vv in v.items() if kk != "vel"}) for k, v in c.items()}, limit=3)
    K["impl_seconds"] = round(time.time() - t0, 1)
    # shard by size (<= ~350 kB of terms per coqc process)
    shards, cur, cur_sz = [], [], 0
    for i in range(len(terms)):
        if cur and cur_sz + len(terms[i]) > 350000:
            shards.append(cur)
            cur, cur_sz = [], 0
        cur.append(i)
        cur_sz += len(terms[i])
    if cur:
        shards.append(cur)
    t1 = time.time()
    codes = run_shards(ctx, terms, shards)
    K["coq_seconds"] = round(time.time() - t1, 1)
    K["cases"] = len(terms)
    K["term_bytes"] = sum(len(t) for t in terms)
    K["shards"] = len(shards)
    K["input_distribution"] = dict(hist, size_classes=sizes)
    if codes is None:
        K["error"] = "coqc failed"
        return [{"error": "coqc failed on the correspondence cases", "log": K.get("log", "")[-1500:]}]
    K["disagree"] = sum(1 for c in codes.values() if c in (1, 3))
    K["indeterminate"] = sum(1 for c in codes.values() if c == 2)
    K["agree"] = len(terms) - len(codes)
    K["protocol_deviations"] = len(proto)
    dis = [dict(meta[i], code=c) for i, c in sorted(codes.items()) if c in (1, 3)] + proto
    # 4.5: the property oracle on each disagreeing input
    for d in dis[:30]:
        c = {k: v for k, v in d.items() if k not in ("code", "protocol")}
        bad, _ = oracle_any(c)
        molgen.purge()
        if bad:
            ctx.violation("alignment: " + "; ".join(bad), c, key="pair")
    return dis


def run_shards(ctx, terms, shards):
    """lib.run_coq_cases cuts by COUNT; the cases here differ in size by three orders of magnitude, so the groups are
    size-balanced and padded with trivially agreeing terms (`0`) to one common length = the runner's shard size"""
    K = ctx.cov["K"]
    width = max(len(s) for s in shards)
    padded, index = [], []
    for s in shards:
        for i in s:
            padded.append(terms[i])
            index.append(i)
        for _ in range(width - len(s)):
            padded.append("0%nat")
            index.append(None)
    codes, log = lib.run_coq_cases(ctx.cid, "K", HEADER, padded, shard=width, timeout=900)
    K["log"] = log
    if codes is None:
        return None
    return {index[k]: c for k, c in codes.items() if index[k] is not None}


def oracle(ctx, scale):
    rs = ctx.np_rng("S%d" % scale)
    S = ctx.cov["S"]
    n_sess = ctx.n(40, 250) * scale
    n_mixed = ctx.n(12, 100) * scale
    sessions = [gen_session(rs) for _ in range(n_sess)]
    for _ in range(n_mixed):        # sessions of unrelated pairs (all sizes, ties, shipped)
        cs = [gen_case(rs) for _ in range(int(rs.randint(3, 7)))]
        if rs.randint(0, 3) == 0:
            cs.append(gen_shipped(rs))
        sessions.append({"kind": "session", "cases": cs})
    n_deg = ctx.n(10, 60) * scale
    for _ in range(n_deg):          # degenerate mobile molecules, single-atom moves enabled
        sessions.append({"kind": "session", "cases": [gen_degenerate_case(rs) for _ in range(int(rs.randint(3, 7)))]})
    n_tag = ctx.n(8, 50) * scale
    for k in range(n_tag):          # multi-residue pairs, automatic restraint guess, residue names differing by containment
        cs = [gen_tagged_case(rs, identical=(rs.randint(0, 5) == 0)) for _ in range(int(rs.randint(3, 7)))]
        if k % 4 == 0:
            cs.insert(int(rs.randint(len(cs) + 1)), dna_case(seed=int(rs.randint(0, 2 ** 31 - 1)),
                                                             deform=[None, [0, 1], [0, 1, 2]][int(rs.randint(3))]))
        if k % 4 == 1:              # the same on a re-used object
            cs.append(gen_reuse_case(rs, base=gen_tagged_case(rs)))
        sessions.append({"kind": "session", "cases": cs})
    n_reuse = ctx.n(12, 80) * scale
    for _ in range(n_reuse):        # one Alignment object re-used: re-assignments and several alignments in a row
        cs = [gen_reuse_case(rs) for _ in range(int(rs.randint(1, 4)))]
        if rs.randint(2):
            cs.insert(int(rs.randint(len(cs) + 1)), gen_case(rs))
        sessions.append({"kind": "session", "cases": cs})
    hist = {"tie": 0, "start_mobile": 0, "end_mobile": 0, "degenerate": 0, "reused_objects": 0, "reassignments": 0,
            "tagged_residue_names": 0, "shipped_dna": 0, "user_restraints": 0, "start_mobile_nonsymmetric_restraints": 0,
            "reused_objects_same_list_twice": 0}
    for s in sessions:
        for c in s["cases"]:
            ns = len(c["start"].get("atoms", [])) or 0
            ne = len(c["end"].get("atoms", [])) or 0
            if ns and ne:
                hist["tie" if ns == ne else ("start_mobile" if ns < ne else "end_mobile")] += 1
            if c.get("kind") == "reuse":
                als = [o for o in c["ops"] if o["op"] == "align"]
                if als[0].get("restr") and any(o.get("restr") == als[0]["restr"] for o in als[1:]):
                    hist["reused_objects_same_list_twice"] += 1
            elif c.get("restr"):
                hist["user_restraints"] += 1
                if ns and ne and ns < ne and nonsymmetric_restraints(c):
                    hist["start_mobile_nonsymmetric_restraints"] += 1
            if c.get("degenerate"):
                hist["degenerate"] += 1
            if c.get("tagged_residues"):
                hist["tagged_residue_names"] += 1
            if "DNA_AA.gro" in c["end"].get("shipped", []):
                hist["shipped_dna"] += 1
            if c.get("kind") == "reuse":
                hist["reused_objects"] += 1
                hist["reassignments"] += sum(1 for o in c["ops"] if o["op"] != "align")
                ctx.count(("S-reuse", json.dumps(c["ops"], sort_keys=True)[:400], ns, ne))
                continue
            ctx.count(("S", c["seed"], ns, ne))
    fails = check_sessions(ctx, sessions, "session")
    S["sessions_x%d" % scale] = len(sessions)
    S["input_distribution"] = hist
    S["failures"] = S.get("failures", 0) + fails


def replay(ctx, obj):
    r = obj["replay"]
    if r.get("kind") == "session":
        for attempt in range(3):
            res, err = collect_session(spawn_session(r["cases"], 20 + attempt))
            if res is None:
                print("session could not be executed:", err)
                return False
            bad = [(n, x["bad"]) for n, x in enumerate(res) if x["bad"]]
            if bad:
                print(bad)
                return False
        print("all alignments of the session satisfy the property")
        return True
    if r.get("kind") in ("pair", "reuse") or "start" in r:
        c = {k: v for k, v in r.items() if k not in ("code", "protocol")}
        bad, _ = oracle_any(c)
        print(bad)
        return not bad
    print("replay names a proof/correspondence, not an input:", str(r)[:300])
    return False


def finish(ctx):
    ctx.assumptions = [
        "theorems are exact statements over the real numbers about Model/Align.v (value semantics); IEEE rounding is modelled, "
        "not verified: the 1e-9 nm tolerances are checked on the implementation by the S oracle (testing)",
        "determinism (bit-identical repetition, independence of PYTHONHASHSEED and of what was aligned before in the process) and "
        "finiteness of the coordinates are decided by S only (testing): the model is a function of (inputs, stream) by construction, "
        "which is not a proof about CPython: PARTIAL on these two clauses",
        "'the caller's Molecule objects are never modified' is the heap side (Model/Objects.v, C18); here it is checked by S on "
        "every alignment (positions, velocities, ids, names, residue names bit for bit)",
        "np.random produces values of the right type and range (randint(n) < n, choice among the enabled types); cos/sin are numpy's "
        "in the float model (passed as data) and Coq's Reals cos/sin in the theorems",
        "bond graph of a molecule = per-atom neighbour lists in the iteration order of the Python set `atom.bonds`, read from the "
        "live objects by the harness (an input of the model)",
    ]
    return ctx.finish(level="proof", rule=RULE,
                      trusted=["composition of the models of C07-C10, C15, C17 in coq/Model/Align.v written by hand "
                               "(numpy evaluation order of mean / euclidean / min)"])


def _session_main():
    lib.setup_impl_path()
    repeat = sys.argv[2] == "1" if len(sys.argv) > 2 else True
    cases = json.loads(sys.stdin.read())
    out = run_session_here(cases, repeat=repeat)
    sys.stdout.write("\n" + json.dumps(out) + "\n")


if __name__ == "__main__":
    if len(sys.argv) > 1 and sys.argv[1] == "--session":
        _session_main()
