"""C12 - coordinate-file view (SystemGro) tiles the file into residues with stable random access.

K: the real SystemGro on generated .gro files + access histories, every observation (templates, key map,
   run-length expansion, composition, len, n_atoms, box, title, every returned residue, the reader's
   _current_atom after every operation) against coq/Model/SystemGro.v (Corr/CheckC12.v).
S: the property text against an independent fixed-column parse of the raw file (no gaddlemaps code).
"""
import hashlib
import os

import numpy as np

import lib
import molgen

HEADER = """From GM Require Import Corr.CorrBase Model.SystemGro Corr.CheckC12.
From Coq Require Import String List.
Open Scope string_scope.
Open Scope Z_scope.
"""

RULE = ("files: 1..400 residues (three size classes), residue sizes 1..12, 2..6 residue kinds laid out in blocks / "
        "alternating / random order, kinds sharing a name with different sizes, kinds sharing name and size with "
        "different atom names, kinds sharing atom names and size under different names, residue names starting with digits (the repaired D9 shape), numbering sequential / "
        "constant / changing every 2-3 residues / wrapping at 100000 / random, with and without velocities (atoms at rest "
        "written 0.0000 0.0000 0.0000 - single atoms, whole residues, one kind, the whole file -, one or two zero "
        "components, -0.0000; atoms exactly at the origin, zero and -0.000 coordinates), 3..5 decimals, 3- and 9-number boxes; histories of index (in and out of range, negative, -1), slice (None/negative/"
        "out-of-range bounds, steps +-1..3 and 0), partial fresh iteration, live iterators stepped between other accesses. "
        "A case counts as non-trivial when it is distinct, the file has >= 2 residues and the history >= 1 operation.")

ERRMAP = {"IndexError": "EIndex", "ValueError": "EValue", "StopIteration": "EStop", "RuntimeError": "ESystem",
          "KeyError": "EKey", "OSError": "EIO", "IOError": "EIO", "TypeError": "EType"}


# ------------------------------------------------------------------ independent parse of the raw file
def raw_parse(text):
    """Fixed-column parse of a .gro text, written from the format description only.
    Returns dict(title, natoms, records[(resid, resname, name, atomid, pos(3), vel(3)|None)], box[9 row-major])."""
    lines = text.split("\n")
    title = lines[0]
    natoms = int(lines[1])
    recs = []
    for ln in lines[2:2 + natoms]:
        tail = ln[20:]
        nd = tail.count(".")
        w = len(tail) // nd
        nums = [float(tail[k * w:(k + 1) * w]) for k in range(nd)]
        recs.append((int(ln[0:5]), ln[5:10].strip(), ln[10:15].strip(), int(ln[15:20]),
                     tuple(nums[0:3]), tuple(nums[3:6]) if nd == 6 else None))
    b = [float(x) for x in lines[2 + natoms].split()]
    b = b + [0.0] * (9 - len(b))
    # gro order: v1(x) v2(y) v3(z) v1(y) v1(z) v2(x) v2(z) v3(x) v3(y); rows of the matrix are v1, v2, v3
    box = [b[0], b[3], b[4], b[5], b[1], b[6], b[7], b[8], b[2]]
    return {"title": title, "natoms": natoms, "records": recs, "box": box}


def groups_of(recs):
    """the tiling the property demands: a new residue exactly where number or name changes"""
    out = []
    for k, r in enumerate(recs):
        if k == 0 or (r[0], r[1]) != (recs[k - 1][0], recs[k - 1][1]):
            out.append([])
        out[-1].append(r)
    return out


# ------------------------------------------------------------------ generators
LETTERS = "ABCDEFGHIJKLMNOPQRSTUVWXYZ"


def _name(rs, lo=1, hi=4, digit_first=False):
    n = rs.randint(lo, hi + 1)
    s = "".join(LETTERS[rs.randint(26)] for _ in range(n))
    if digit_first:
        s = str(rs.randint(1, 10)) + s[:4]
    return s


def gen_kinds(rs, flags):
    nk = rs.randint(2, 7)
    kinds = []
    used = set()
    while len(kinds) < nk:
        rn = _name(rs, 1, 4, digit_first=("digits" in flags and rs.randint(3) == 0))
        if rn in used:
            continue
        used.add(rn)
        size = rs.randint(1, 13)
        kinds.append((rn, ["%s%d" % (LETTERS[rs.randint(26)], k + 1) for k in range(size)]))
    if "same_name_diff_size" in flags:
        rn, an = kinds[0]
        size = rs.randint(1, 13)
        while size == len(an):
            size = rs.randint(1, 13)
        kinds[1] = (rn, ["%s%d" % (LETTERS[rs.randint(26)], k + 1) for k in range(size)])
    if "same_atoms" in flags:
        # another residue name with exactly the atom names (and size) of the first kind
        kinds[1] = (kinds[1][0], list(kinds[0][1]))
    if "same_name_size" in flags:
        rn, an = kinds[0]
        other = list(an)
        j = rs.randint(len(other))
        other[j] = other[j][0] + "x"          # one atom name differs
        if rs.randint(2):
            other = [a[0] + "y%d" % k for k, a in enumerate(other)]
        kinds[-1] = (rn, other)
        if len(kinds) > 3 and rs.randint(2):
            kinds[2] = (rn, list(an))          # an exact duplicate kind as well
    return kinds


FLAGSETS = [(), ("same_name_diff_size",), ("same_name_size",), ("digits",), ("same_name_diff_size", "same_name_size"),
            ("digits", "same_name_size"), ("same_atoms",), ("same_atoms", "same_name_size")]
LAYOUTS = ["blocks", "alternating", "random", "aba"]
NUMBERINGS = ["sequential", "constant", "every2", "every3", "wrap", "random", "blockwise"]


RESTS = ["none", "none", "some_residues", "one_kind", "all"]


def draw_pv(rs, dec, vel, frozen, lo=-9.0, hi=99.0, plain=False):
    """position and velocity of one atom.  Besides generic values: atoms exactly at the origin, single zero
    coordinates, -0.000; atoms at rest (velocity written 0.0000 0.0000 0.0000 - frozen groups, walls), one or two
    zero velocity components, -0.0000.  `velocity present and zero` is a different record from `no velocity`."""
    pos = [float(x) for x in np.round(rs.uniform(lo, hi, size=3), dec)]
    c = 99 if plain else rs.randint(40)
    if c == 0:
        pos = [0.0, 0.0, 0.0]
    elif c == 1:
        pos[rs.randint(3)] = 0.0
    elif c == 2:
        pos[rs.randint(3)] = -0.0
    v = None
    if vel:
        v = [float(x) for x in np.round(rs.uniform(-9.0, 9.0, size=3), dec + 1)]
        c = 99 if plain else rs.randint(20)
        if frozen or c < 2:
            v = [0.0, 0.0, 0.0]
        elif c < 4:
            v[rs.randint(3)] = 0.0
        elif c == 4:
            v[rs.randint(3)] = -0.0
        elif c == 5:
            v = [-0.0, 0.0, -0.0]
        elif c == 6:
            j = rs.randint(3)
            v = [x if k == j else 0.0 for k, x in enumerate(v)]
    return tuple(pos), (tuple(v) if v is not None else None)


def gen_file(rs, nres):
    flags = FLAGSETS[rs.randint(len(FLAGSETS))]
    layout = LAYOUTS[rs.randint(len(LAYOUTS))]
    numbering = NUMBERINGS[rs.randint(len(NUMBERINGS))]
    vel = bool(rs.randint(2))
    rest = RESTS[rs.randint(len(RESTS))] if vel else "none"
    dec = [3, 3, 3, 4, 5][rs.randint(5)]
    kinds = gen_kinds(rs, flags)
    nk = len(kinds)
    if layout == "blocks":
        cuts = sorted(rs.randint(0, nres + 1, size=nk - 1))
        seq = []
        for k, (a, b) in enumerate(zip([0] + list(cuts), list(cuts) + [nres])):
            seq += [k] * (b - a)
    elif layout == "alternating":
        p = rs.randint(2, min(nk, 3) + 1)
        first = list(rs.permutation(nk)[:p])
        seq = [int(first[k % p]) for k in range(nres)]
    elif layout == "aba":
        # the first kind comes back after a kind with the same key took its place in the key map
        seq = [0, nk - 1, 0, 0, nk - 1, 1, 0][:nres] + [int(rs.randint(nk)) for _ in range(max(0, nres - 7))]
    else:
        seq = [int(rs.randint(nk)) for _ in range(nres)]
    start = {"wrap": 99990 + rs.randint(0, 9)}.get(numbering, 1)
    recs = []
    seen = set()
    resid = start
    for k, kd in enumerate(seq):
        rn, an = kinds[kd]
        if numbering == "sequential" or numbering == "wrap":
            resid = start + k
        elif numbering == "constant":
            resid = 7
        elif numbering == "every2":
            resid = 1 + k // 2
        elif numbering == "every3":
            resid = 1 + k // 3
        elif numbering == "random":
            resid = int(rs.randint(0, 100000)) if rs.randint(3) else resid
        elif numbering == "blockwise":
            resid = 1 + kd
        frozen = vel and (rest == "all" or (rest == "some_residues" and rs.randint(4) == 0) or
                          (rest == "one_kind" and kd == 0))
        for a in an:
            atomid = (len(recs) + 1) if numbering != "constant" else 1 + (len(recs) % 3)
            tries = 0
            while True:
                pos, v = draw_pv(rs, dec, vel, frozen, plain=tries > 3)
                rec = (resid % 100000, rn, a, atomid % 100000, pos, v)
                tries += 1
                if rec not in seen:        # records must be pairwise different (they are their own identifiers in K)
                    seen.add(rec)
                    break
            recs.append(rec)
    if "digits" in flags and nres >= 2 and rs.randint(2):
        # the D9 shape somewhere in the file: (1, "2AB") followed by (12, "AB")
        at = rs.randint(0, len(recs) + 1)
        ins = []
        for rid, rn, names in ((1, "2AB", ("A1", "A2")), (12, "AB", ("B1", "B2", "B3"))):
            for a in names:
                while True:
                    pos, v = draw_pv(rs, dec, vel, False, lo=100.0, hi=120.0, plain=True)
                    rec = (rid, rn, a, 1, pos, v)
                    if rec not in seen:
                        seen.add(rec)
                        break
                ins.append(rec)
        recs = recs[:at] + ins + recs[at:]
    box = (tuple(float(x) for x in np.round(rs.uniform(1, 50, size=3), 5)) if rs.randint(3) else
           tuple(float(x) for x in np.round(rs.uniform(-5, 50, size=9), 5)))
    title = ["generated", "Title with  spaces, t= 1.0", "x", "  leading blanks"][rs.randint(4)]
    path = molgen.write_gro(molgen.fresh_path("gro", "c12_"), recs, box=box, title=title, dec=dec)
    text = open(path).read()
    meta = {"nres_requested": nres, "flags": list(flags), "layout": layout, "numbering": numbering, "vel": vel, "rest": rest,
            "dec": dec}
    return path, text, meta


def pick_nres(rs, k, total):
    """three size classes, interleaved so that the Coq shards are balanced"""
    m = k % 16
    if m == 0:
        return int(rs.randint(150, 401))
    if m in (1, 2, 3, 4):
        return int(rs.randint(30, 150))
    if m == 5:
        return int(rs.randint(1, 4))
    return int(rs.randint(1, 31))


def _bound(rs, n):
    c = rs.randint(10)
    if c == 0:
        return None
    if c == 1:
        return int(rs.choice([0, -1, n, -n, n - 1, -n - 1, n + 1]))
    return int(rs.randint(-n - 3, n + 4))


def gen_history(rs, n, maxops, budget):
    """n = number of residues of the file; budget = residues that may be returned in total (model cost)."""
    nops = int(rs.randint(1, maxops + 1))
    ops = []
    live = 0
    for _ in range(nops):
        c = rs.randint(100)
        if c < 40:
            e = rs.randint(8)
            if e == 0:
                i = int(rs.choice([-1, 0, n - 1, -n, n, -n - 1, -2]))
            else:
                i = int(rs.randint(-n - 2, n + 2))
            ops.append(["index", i])
            budget -= 1
        elif c < 65:
            a, b = _bound(rs, n), _bound(rs, n)
            st = [None, None, 1, 1, 2, 3, -1, -1, -2, -3, 0][rs.randint(11)]
            cnt = len(range(*slice(a, b, st).indices(n))) if st != 0 else 0
            if cnt > max(budget, 0):
                # shrink the window instead of dropping the slice
                step = st or 1
                a = int(rs.randint(0, n))
                b = a + int(np.sign(step)) * min(max(budget, 0), 20) * abs(step)
                if b < 0:
                    b = None if step < 0 else 0
                cnt = len(range(*slice(a, b, st).indices(n)))
            ops.append(["slice", a, b, st])
            budget -= cnt
        elif c < 80:
            m = int(rs.randint(0, n + 3))
            m = min(m, max(budget, 0) + 1)
            ops.append(["prefix", m])
            budget -= min(m, n)
        elif c < 86 and live < 4:
            ops.append(["new"])
            live += 1
        elif live:
            ops.append(["step", int(rs.randint(live))])
            budget -= 1
        else:
            ops.append(["new"])
            live += 1
    return ops


# ------------------------------------------------------------------ implementation driver
def atom_data(a):
    return (int(a.resid), str(a.resname), str(a.name), int(a.atomid), tuple(float(x) for x in a.position),
            None if a.velocity is None else tuple(float(x) for x in a.velocity))


def residue_data(r):
    return [atom_data(a) for a in r]


def run_impl(path, ops):
    """returns (static dict | error name, [(kind, payload, cursor)])"""
    from gaddlemaps.components import SystemGro
    try:
        sysg = SystemGro(path)
    except Exception as ex:     # noqa
        return type(ex).__name__, [], None
    cursor = lambda: getattr(getattr(sysg, "_open_fgro", None), "_current_atom", None)   # noqa: E731
    try:
        static = {
            "cur": cursor(),
            "templates": [residue_data(t) for t in sysg.different_molecules],
            "pk": [(k[0], int(k[1]), int(v)) for k, v in sysg.molecules_resname_len_index.items()],
            "info": [int(x) for x in sysg.molecules_info_ordered_all],
            "comp": [(str(k), int(v)) for k, v in sysg.composition.items()],
            "len": len(sysg), "natoms": int(sysg.n_atoms),
            "box": [float(x) for x in np.array(sysg.box_matrix).ravel()],
            "title": sysg.comment_line,
        }
    except Exception as ex:     # noqa
        return "views:" + type(ex).__name__, [], None
    out = []
    iters = []
    for op in ops:
        try:
            if op[0] == "index":
                r = ("res", residue_data(sysg[op[1]]))
            elif op[0] == "slice":
                r = ("list", [residue_data(x) for x in sysg[slice(op[1], op[2], op[3])]])
            elif op[0] == "prefix":
                it = iter(sysg)
                got = []
                for _ in range(op[1]):
                    try:
                        got.append(residue_data(next(it)))
                    except StopIteration:
                        break
                it.close()
                r = ("list", got)
            elif op[0] == "new":
                iters.append(iter(sysg))
                r = ("unit", None)
            elif op[0] == "step":
                try:
                    r = ("res", residue_data(next(iters[op[1]])))
                except StopIteration:
                    r = ("stop", None)
            else:
                raise AssertionError(op)
        except Exception as ex:   # noqa
            r = ("err", type(ex).__name__)
        out.append((r[0], r[1], cursor()))
    return static, out, sysg


# ------------------------------------------------------------------ S oracle (property text)
def oracle_case(text, ops, path=None):
    """list of failed clauses (empty = the property holds on this file and history)"""
    if path is None:
        path = molgen.fresh_path("gro", "c12r_")
        with open(path, "w") as f:
            f.write(text)
    ref = raw_parse(text)
    groups = groups_of(ref["records"])
    bad = []
    static, hist, sysg = run_impl(path, ops)
    if isinstance(static, str):
        return ["SystemGro(file) or one of its views raised %s on a well-formed file" % static], 0
    # first clause: iteration - on a pristine object, and again on the object the history ran on
    flat = None
    for label, make in (("a fresh object", lambda: __import__("gaddlemaps.components", fromlist=["SystemGro"]).SystemGro(path)),
                        ("the object after the history", lambda: sysg)):
        try:
            it_after = [residue_data(r) for r in make()]
        except Exception as ex:     # noqa
            return bad + ["iterating %s raised %s" % (label, type(ex).__name__)], 0
        flat = [a for r in it_after for a in r]
        if flat != ref["records"]:
            bad.append("concatenation of the residues iterated on %s differs from the file's records "
                       "(%d atoms iterated, %d in the file)%s" % (label, len(flat), len(ref["records"]),
                                                                 first_difference(flat, ref["records"])))
            break
    starts, p = [], 0
    for r in it_after:
        starts.append(p)
        p += len(r)
    want = [k for k in range(len(ref["records"]))
            if k == 0 or (ref["records"][k][0], ref["records"][k][1]) != (ref["records"][k - 1][0], ref["records"][k - 1][1])]
    if starts != want:
        d = sorted(set(starts) ^ set(want))
        bad.append("residue boundaries differ from the places where number or name changes (first at atom %s)" % d[:3])
    if static["len"] != len(want):
        bad.append("len() = %d, residues in the file = %d" % (static["len"], len(want)))
    if static["natoms"] != ref["natoms"] or static["natoms"] != len(ref["records"]):
        bad.append("n_atoms = %d, file has %d" % (static["natoms"], ref["natoms"]))
    if max(abs(a - b) for a, b in zip(static["box"], ref["box"])) > 5e-6:
        bad.append("box differs from the file's last line")
    if static["title"].rstrip("\n") != ref["title"]:
        bad.append("title differs from the file's first line")
    # second clause: random access regardless of history.  Only in-range requests are constrained.
    n = len(groups)
    counters = []
    first_bad = None
    for k, (op, (kind, val, _)) in enumerate(zip(ops, hist)):
        exp = None
        if op[0] == "index":
            if -n <= op[1] < n:
                exp = ("res", groups[op[1]])
        elif op[0] == "slice":
            if op[3] != 0:
                exp = ("list", groups[slice(op[1], op[2], op[3])])
        elif op[0] == "prefix":
            exp = ("list", groups[:op[1]])
        elif op[0] == "new":
            counters.append(0)
        elif op[0] == "step":
            j = op[1]
            if counters[j] is not None and counters[j] < n:
                exp = ("res", groups[counters[j]])
                counters[j] += 1
            else:
                exp = ("stop", None)
                counters[j] = None
        if exp is None:
            continue
        if exp[0] == "list":
            got = (kind, val)
            ok = kind == "list" and val == [list(g) for g in exp[1]]
        else:
            ok = (kind == exp[0]) and (exp[1] is None or val == list(exp[1]))
        if not ok and first_bad is None:
            first_bad = k
            bad.append("operation %d %s: returned %s, the iterated residue(s) say otherwise" %
                       (k, op, kind if kind != "err" else "error " + str(val)))
    return bad, (first_bad if first_bad is not None else len(ops))


FIELDS = ("residue number", "residue name", "atom name", "atom number", "position", "velocity")


def first_difference(got, want):
    for k, (a, b) in enumerate(zip(got, want)):
        if a != b:
            for name, x, y in zip(FIELDS, a, b):
                if x != y:
                    return "; first at atom %d: %s %r, the file says %r" % (k, name, x, y)
    return ""


def check_and_report(ctx, text, ops, meta, path=None):
    bad, upto = oracle_case(text, ops, path)
    if bad:
        ctx.violation("SystemGro: " + "; ".join(bad), {"kind": "gro+history", "gro": text, "ops": ops[:upto + 1], "meta": meta},
                      key="tiling")
    return bad


# ------------------------------------------------------------------ Coq terms
def z(n):
    return "(%d)" % n if n < 0 else "%d" % n


def optz(v):
    return "None" if v is None else "(Some %s)" % z(v)


def ores_term(data, index):
    ids = [index.get(a, -1) for a in data]
    if ids and ids[0] >= 0 and ids == list(range(ids[0], ids[0] + len(ids))):
        return "(RRun %d %d)" % (ids[0], len(ids))
    return "(RRaw [%s])" % "; ".join(z(i) for i in ids)


def case_term(text, ops, static, hist):
    ref = raw_parse(text)
    recs = ref["records"]
    index = {}
    for k, r in enumerate(recs):
        index.setdefault(r, k)
    # every distinct name is written once (let-bound): string literals are what costs coqc time and memory
    names = {}

    def nm(x):
        if x not in names:
            names[x] = "s%d_" % len(names)
        return names[x]
    atoms = "; ".join('mkAtom %s %s %s %s %d' % (z(r[0]), nm(r[1]), nm(r[2]), z(r[3]), k)
                      for k, r in enumerate(recs))
    rbox = lambda b: "[%s]" % "; ".join(z(int(round(x * 1e5))) for x in b)   # noqa: E731
    f = "(mkGro %s [%s] %s)" % (lib.coq_bytes(ref["title"] + "\n"), atoms, rbox(ref["box"]))
    if isinstance(static, str):
        st = "(Err %s)" % ERRMAP.get(static, "EFuel")
    else:
        st = "(Ok (mkStatic [%s] [%s] [%s] [%s] %d %d %s %s %s))" % (
            "; ".join(ores_term(t, index) for t in static["templates"]),
            "; ".join("(%s, %d, %d)" % (lib.coq_bytes(a), b, c) for a, b, c in static["pk"]),
            "; ".join(str(i) for i in static["info"]),
            "; ".join("(%s, %d)" % (lib.coq_bytes(a), b) for a, b in static["comp"]),
            static["len"], static["natoms"], rbox(static["box"]), lib.coq_bytes(static["title"]), optz(static["cur"]))
    ot = []
    for op in ops:
        if op[0] == "index":
            ot.append("Index %s" % z(op[1]))
        elif op[0] == "slice":
            ot.append("Slice %s %s %s" % (optz(op[1]), optz(op[2]), optz(op[3])))
        elif op[0] == "prefix":
            ot.append("IterPrefix %d%%nat" % op[1])
        elif op[0] == "new":
            ot.append("IterNew")
        else:
            ot.append("IterStep %d%%nat" % op[1])
    ht = []
    for kind, val, cur in hist:
        if kind == "res":
            o = "PResidue %s" % ores_term(val, index)
        elif kind == "list":
            o = "PList [%s]" % "; ".join(ores_term(v, index) for v in val)
        elif kind == "stop":
            o = "PStop"
        elif kind == "unit":
            o = "PUnit"
        else:
            o = "PErr %s" % ERRMAP.get(val, "EFuel")
        ht.append("(%s, %s)" % (o, optz(cur)))
    lets = "".join("let %s := %s in " % (v, lib.coq_bytes(x)) for x, v in names.items())
    return "(%schk_c12 %s %s [%s] [%s])" % (lets, f, st, "; ".join(ot), "; ".join(ht))


# ------------------------------------------------------------------ corpus
def _mk(recs, vel=False):
    out = []
    for k, (rid, rn, an) in enumerate(recs):
        pos = (0.1 * k, 1.0 + 0.01 * k, 2.0)
        out.append((rid, rn, an, k + 1, pos, (0.5, -0.25, 0.125 * k) if vel else None))
    return out


CORPUS = [
    # D9 (repaired by ad93a62): residues (1,"2AB") and (12,"AB") were read as one residue "12AB"
    ("D9 digits", _mk([(1, "2AB", "A1"), (1, "2AB", "A2"), (12, "AB", "B1"), (12, "AB", "B2"), (12, "AB", "B3")]),
     [["index", 0], ["index", 1], ["index", -1], ["slice", None, None, None], ["prefix", 5]]),
    ("D9 digits, same size", _mk([(1, "2AB", "A1"), (12, "AB", "A1"), (1, "2AB", "A1")], vel=True),
     [["index", 2], ["index", -3], ["slice", None, None, -1]]),
    # two kinds with the same name and size but different atom names; the first comes back after the second
    ("equal key, other atom names", _mk([(1, "LIG", "A"), (1, "LIG", "B"), (2, "LIG", "C"), (2, "LIG", "D"),
                                         (3, "LIG", "A"), (3, "LIG", "B"), (4, "SOL", "O")]),
     [["new"], ["step", 0], ["index", -1], ["step", 0], ["index", 0], ["step", 0], ["slice", -2, None, None], ["step", 0],
      ["step", 0]]),
    # same number, different names; same name, different numbers; equal names with different sizes
    ("number/name only boundaries", _mk([(5, "AAA", "X"), (5, "BBB", "X"), (5, "BBB", "Y"), (6, "BBB", "X"), (6, "BBB", "Y"),
                                         (7, "BBB", "X"), (7, "AAA", "X"), (7, "AAA", "Z")]),
     [["index", -2], ["prefix", 2], ["index", 1], ["slice", 4, 0, -2], ["index", 3]]),
]


def _frozen_demo():
    """the witness of seeded change C12-6: a box WITH velocities in which residues 2 and 3 and one atom of residue 7
    are at rest (velocity columns 0.0000 0.0000 0.0000); other atoms have a zero in one component only"""
    kinds = [("SOL", ["OW", "HW1", "HW2"]), ("NA", ["NA"]), ("LIG", ["C1", "C2", "C3", "C4", "C5"])]
    layout = [0, 0, 1, 2, 0, 1, 1, 2, 0, 2]
    recs, atomid = [], 1
    for ri, kd in enumerate(layout):
        rn, names = kinds[kd]
        for ai, name in enumerate(names):
            pos = (round(atomid * 0.001, 3), round(atomid * 0.01, 3), round(atomid * 0.1, 3))
            if ri in (2, 3) or (ri, ai) == (7, 1):
                vel = (0.0, 0.0, 0.0)
            elif atomid % 4 == 0:
                vel = (0.0, 0.25, -0.5)
            else:
                vel = (round(-pos[0], 4), round(0.5 - pos[1], 4), round(pos[2] / 10, 4))
            recs.append((ri + 1, rn, name, atomid, pos, vel))
            atomid += 1
    return recs


CORPUS.append(("C12-6 atoms at rest keep their velocity", _frozen_demo(),
               [["index", 2], ["index", -7], ["slice", 1, 8, 2], ["prefix", 4], ["index", 7], ["slice", None, None, -1]]))
# every atom at rest and at the origin except for its number: 'velocity 0 0 0' is not 'no velocity'
CORPUS.append(("all at rest, at the origin", [(1 + k // 2, "WAL", "W%d" % (k % 2), k + 1, (0.0, 0.0, -0.0), (0.0, -0.0, 0.0))
                                               for k in range(6)],
               [["index", -1], ["slice", None, None, None], ["index", 0]]))


def corpus(ctx):
    S = ctx.cov["S"]
    S["corpus"] = 0
    for name, recs, ops in CORPUS:
        path = molgen.write_gro(molgen.fresh_path("gro", "c12c_"), recs, title=name)
        text = open(path).read()
        check_and_report(ctx, text, ops, {"corpus": name}, path)
        S["corpus"] += 1


# ------------------------------------------------------------------ K (+ S on the same cases)
def _hist_add(h, k, n=1):
    h[k] = h.get(k, 0) + n


def build_cases(ctx, rs, nfiles, maxops, with_corpus=True):
    cases, metas = [], []
    hist = {}
    todo = []
    if with_corpus:
        for name, recs, ops in CORPUS:
            path = molgen.write_gro(molgen.fresh_path("gro", "c12c_"), recs, title=name)
            todo.append((path, open(path).read(), {"corpus": name}, ops))
    for k in range(nfiles):
        nres = pick_nres(rs, k, nfiles)
        path, text, meta = gen_file(rs, nres)
        n = len(groups_of(raw_parse(text)["records"]))
        budget = 4000 if n <= 150 else 2500
        ops = gen_history(rs, n, maxops, budget)
        todo.append((path, text, meta, ops))
    for path, text, meta, ops in todo:
        static, h, _ = run_impl(path, ops)
        cases.append(case_term(text, ops, static, h))
        n = len(groups_of(raw_parse(text)["records"]))
        meta = dict(meta, residues=n, atoms=raw_parse(text)["natoms"], ops=len(ops))
        metas.append({"kind": "gro+history", "gro": text, "ops": ops, "meta": meta})
        ctx.count(hashlib.md5((text + repr(ops)).encode()).hexdigest(), nontrivial=(n >= 2 and len(ops) >= 1))
        _hist_add(hist, "residues<=3" if n <= 3 else "residues<=30" if n <= 30 else "residues<=150" if n <= 150 else "residues<=400+")
        for key in ("layout", "numbering"):
            if key in meta:
                _hist_add(hist, "%s=%s" % (key, meta[key]))
        for fl_ in meta.get("flags", []):
            _hist_add(hist, "flag=" + fl_)
        _hist_add(hist, "velocities" if meta.get("vel") else "no_velocities")
        if meta.get("vel"):
            _hist_add(hist, "rest=" + str(meta.get("rest")))
        recs_ = raw_parse(text)["records"]
        nrest = sum(1 for r in recs_ if r[5] is not None and not any(r[5]))
        _hist_add(hist, "atoms_at_rest", nrest)
        _hist_add(hist, "atoms_one_or_two_zero_velocity_components", sum(1 for r in recs_ if r[5] is not None and any(r[5]) and not all(r[5])))
        _hist_add(hist, "atoms_at_origin", sum(1 for r in recs_ if not any(r[4])))
        if nrest:
            _hist_add(hist, "files_with_atoms_at_rest")
        for op in ops:
            _hist_add(hist, "op=" + op[0])
        for kind, val, _ in h:
            if kind == "err":
                _hist_add(hist, "outcome=" + str(val))
            elif kind == "stop":
                _hist_add(hist, "outcome=StopIteration(exhausted)")
        if not isinstance(static, str):
            keys = [(a, b) for a, b, _ in static["pk"]]
            if len(static["templates"]) > len(keys):
                _hist_add(hist, "files_with_overwritten_key")
        # S on the same case
        bad = check_and_report(ctx, text, ops, meta, path)
        if bad:
            _hist_add(hist, "oracle_failures")
        try:
            os.remove(path)
        except OSError:
            pass
    return cases, metas, hist


def correspondence(ctx):
    rs = ctx.np_rng("K")
    nfiles = ctx.n(160, 800)
    maxops = ctx.n(60, 200)
    cases, metas, hist = build_cases(ctx, rs, nfiles, maxops)
    for m in (metas[0], metas[4], metas[-1]):
        ctx.sample({"meta": m["meta"], "ops": m["ops"][:12], "gro_head": m["gro"][:400]})
    shard = max(1, (len(cases) + 47) // 48)
    # 8 parallel coqc (about 0.5 GB each, half of it the standard library): the machine is shared
    codes, log = lib.run_coq_cases(ctx.cid, "K", HEADER, cases, shard=shard, jobs=8)
    for jobs in (4, 2):
        # a coqc process killed from outside (the machine is shared: global out-of-memory killer, timeouts under
        # load) is not a verdict about the code: run the shards again with less parallelism before giving up
        if codes is None and ("Killed" in log or "TIMEOUT" in log or "Out of memory" in log or "Terminated" in log):
            ctx.notes.append("K: coqc was killed from outside, cases re-run with %d jobs" % jobs)
            codes, log = lib.run_coq_cases(ctx.cid, "K", HEADER, cases, shard=shard, jobs=jobs)
    K = ctx.cov["K"]
    K["cases"] = len(cases)
    K["operations"] = sum(len(m["ops"]) for m in metas)
    K["input_distribution"] = hist
    K["log"] = log
    if codes is None:
        K["error"] = log
        return [{"error": "coqc failed on the correspondence cases", "log": log[-1500:]}]
    K["disagree"] = sum(1 for c in codes.values() if c in (1, 3))
    K["indeterminate"] = sum(1 for c in codes.values() if c == 2)
    K["agree"] = len(cases) - len(codes)
    dis = []
    for i, c in sorted(codes.items()):
        if c in (1, 3):
            m = metas[i]
            dis.append({"kind": m["kind"], "code": c, "meta": m["meta"], "ops": m["ops"], "gro": m["gro"]})
    # 4.5: the oracle already ran on every case above (violations recorded there)
    return dis


def oracle(ctx, scale):
    rs = ctx.np_rng("S%d" % scale)
    S = ctx.cov["S"]
    nfiles = ctx.n(120, 1000) * scale
    maxops = ctx.n(60, 200)
    fails = 0
    nops = 0
    for k in range(nfiles):
        nres = pick_nres(rs, k + 5, nfiles)
        path, text, meta = gen_file(rs, nres)
        n = len(groups_of(raw_parse(text)["records"]))
        ops = gen_history(rs, n, maxops, 20000)
        nops += len(ops)
        ctx.count(hashlib.md5((text + repr(ops)).encode()).hexdigest(), nontrivial=(n >= 2))
        if check_and_report(ctx, text, ops, meta, path):
            fails += 1
        try:
            os.remove(path)
        except OSError:
            pass
    S["files_x%d" % scale] = nfiles
    S["operations_x%d" % scale] = nops
    S["failures"] = S.get("failures", 0) + fails


def replay(ctx, obj):
    r = obj["replay"]
    if r.get("kind") != "gro+history":
        print("replay names a proof/correspondence, not an input:", str(r)[:300])
        return False
    bad, _ = oracle_case(r["gro"], r["ops"])
    print(bad)
    return not bad


def finish(ctx):
    ctx.assumptions = [
        "the opened GroFile is abstracted as the list of its parsed atom records + title + box (the byte-level codec, "
        "seek arithmetic in bytes and float parsing belong to C13/C14); the reader cursor (_current_atom and the handle "
        "position in line units) is explicit state",
        "coordinates/velocities are opaque payloads in the theorems; K and S compare them as exact floats against an "
        "independent fixed-column parse of the same text",
        "more_itertools.islice_extended / last are modelled by Python list-slice semantics (py_slice_indices); tied by K "
        "on every run, not proved",
        "the offset generator is modelled by the list it yields (it has no effect on the file)",
    ]
    return ctx.finish(level="proof", rule=RULE,
                      trusted=["more_itertools.islice_extended == list slicing (documented; compared exhaustively for len <= 7 "
                               "when the model was written; K compares every slice)",
                               "harness/c12.py:raw_parse (independent fixed-column parser used as ground truth by K and S)"])
