"""C14 - incomplete or truncated .gro output is never accepted as a valid system."""
import glob
import os

import gro_common as gc
import lib

RULE = ("complete files written by GroFile from generated runs (1..12 records, all four velocities x declared-count "
        "combinations, decimals 1..6 or default, three box shapes, random / default / empty titles): every byte prefix; crash points of the "
        "same kind of runs: the file after every proper prefix of the operation list (each writeline, before close, after the "
        "count back-fill, after the seek), in S additionally after every single write/seek call of the file object; "
        "shipped .gro files of gaddlemaps/data: every prefix of the files below 3 kB (thorough: below 12 kB), and line "
        "boundaries +-3 bytes plus random cuts of the larger ones. A case (file, cut) is non-trivial when distinct.")

DATA = os.path.join(lib.REPO, "gaddlemaps", "data")


MAX_REPORTS = 25


def report(ctx, what, replay_obj, key):
    """at most MAX_REPORTS replay files per run (every failure is still counted)"""
    ctx.cov["S"]["violating_inputs"] = ctx.cov["S"].get("violating_inputs", 0) + 1
    if ctx.cov["S"]["violating_inputs"] <= MAX_REPORTS:
        ctx.violation(what, replay_obj, key=key)


# ------------------------------------------------------------------ S oracle (property text)
# Every partial file is written to ONE path (gc.read_text), and the complete file is opened at that path
# first (full_read): a reader that remembers anything about a path it has verified (layout, size, box)
# is thereby asked about a file that was complete and is now partial, within one process.
def box_line_start(text):
    """offset of the first byte of the last line (the box line) of a complete file"""
    body = text[:-1] if text.endswith("\n") else text
    return body.rfind("\n") + 1


def oracle_cut(text, k, full_atoms):
    """the property text for the truncation text[:k]; returns (failed clause or None, observation)"""
    obs = gc.read_text(text[:k])
    if k <= box_line_start(text) and gc.opened(obs):
        return ("a truncation ending before the box line (byte %d <= %d) was accepted on opening%s"
                % (k, box_line_start(text), " with %d atoms" % len(obs[3]) if obs[0] == "ok" else
                   " (reading the atoms failed later)")), obs
    if obs[0] == "err":
        return None, obs
    if obs[3] != full_atoms:
        return "an accepted truncation (byte %d) returned other atom records than the complete file" % k, obs
    return None, obs


def box_line_start_crlf(text):
    body = text[:-2] if text.endswith("\r\n") else text
    return body.rfind("\r\n") + 2


def check_crlf(ctx, text_lf, replay_obj, where):
    """S only (universal-newline translation is outside the Coq model): the CRLF copy of a complete file is a
    complete file too - it must read as the same records, every byte prefix ending at or before its box line
    must be rejected, an accepted prefix must return the complete file's records"""
    ref = full_read(text_lf)
    crlf = gc.to_crlf(text_lf)
    fa = full_read(crlf)                    # the complete CRLF file is opened first, at the path of the prefixes
    if ref is None or fa is None:
        return                              # (that a complete CRLF copy reads as the same records is C13's clause, checked there)
    ref = fa
    start = box_line_start_crlf(crlf)
    for k in range(len(crlf) + 1):
        obs = gc.read_text(crlf[:k])
        if k <= start and gc.opened(obs):
            report(ctx, "CRLF copy: a truncation ending before the box line (byte %d <= %d) was accepted on opening"
                   % (k, start), dict(replay_obj, cut=k), "crlf")
        elif obs[0] != "ok":
            continue
        elif obs[3] != ref:
            report(ctx, "CRLF copy: an accepted truncation (byte %d) returned other atom records than the complete file" % k,
                   dict(replay_obj, cut=k), "crlf")
    ctx.cov["S"][where] = ctx.cov["S"].get(where, 0) + len(crlf) + 1


def check_abandoned(ctx, conf, recs, where, ks=None):
    """S: the writer is abandoned after k records (the producer raises, close() is never called, no reference
    is kept, gc.collect()), then the file on disk is opened: it must be rejected for every k, count declared
    or not, box set before the first record or left for later"""
    path = os.path.join(gc.tmpdir(), "s14a.gro")
    n = len(recs)
    for k in (range(n + 1) if ks is None else ks):
        for box_late in (False, True):
            obs = gc.run_abandoned(path, conf, recs, k, box_late)
            ctx.cov["S"][where] = ctx.cov["S"].get(where, 0) + 1
            if gc.opened(obs):
                report(ctx, "an abandoned writer (stopped after %d of %d records, never closed, garbage collected) left a file "
                       "that was accepted (%s atoms)" % (k, n, len(obs[3]) if obs[0] == "ok" else "no"),
                       {"kind": "abandoned", "case": gc.case_json(conf, recs), "k": k, "box_late": box_late}, "abandoned")


def failclose_variants(conf, recs, rs=None):
    """announced counts different from the number of records: above (k < N) and below (k > N, incl. 0)"""
    k = len(recs)
    out = [k + 1, k + 3]
    if k >= 1:
        out += [k - 1]
    if k >= 3:
        out += [1, 0]
    return sorted(set(out))


def check_failclose(ctx, conf, recs, where, announced=None, terms=None, use_with=None):
    """S (and, through terms, K): the count is announced as N != number of records; the program writes the
    records and reaches close() (explicit call / with block) unless a writeline raises first.  Whenever an
    exception escapes - from close() (k < N: count mismatch) or from the writeline that is refused once the
    announced count is reached (k > N, D18; the with block then still closes the file) - and close() has not
    completed, the file left behind must be rejected on opening.  No exemption: a record made of numeric tokens
    (resname '1e5') must not be readable as the box line of a shorter system."""
    path = os.path.join(gc.tmpdir(), "s14f.gro")
    k = len(recs)
    for i, N in enumerate(failclose_variants(conf, recs) if announced is None else announced):
        c = dict(conf, natoms=N)
        style = bool((i + k) & 1) if use_with is None else use_with
        raised, text, obs, closed = gc.run_failclose(path, c, recs, style)
        ctx.cov["S"][where] = ctx.cov["S"].get(where, 0) + 1
        rep = {"kind": "failclose", "case": gc.case_json(c, recs), "with_block": style}
        if raised is None:
            report(ctx, "no exception although %d atoms were announced and %d records handed over" % (N, k), rep, "failclose")
            continue
        if closed:
            # the refused writeline escaped from a with block whose close() then completed: a complete file of
            # the first N records; it must read back as exactly those
            ctx.cov["S"]["closed_after_refusal"] = ctx.cov["S"].get("closed_after_refusal", 0) + 1
            if obs[0] != "ok" or obs[2] != N or len(obs[3]) != N:
                report(ctx, "announced %d, %d records handed over, close() completed, but the file does not read as %d atoms"
                       % (N, k, N), rep, "failclose")
        elif gc.opened(obs):
            report(ctx, "announced %d atoms, %d records handed over, an exception escaped and close() did not complete: the file "
                   "left behind (%d bytes) was accepted on opening (natoms %s, %s atoms returned)"
                   % (N, k, len(text), obs[2] if obs[0] == "ok" else "?", len(obs[3]) if obs[0] == "ok" else "no"),
                   rep, "failclose")
        if terms is not None and all(ord(ch) < 128 for ch in text):
            try:
                d = gc.effective_d(c)
                if closed:
                    if N >= 1:
                        terms.append(("chk_c13 %s\n   [%s]\n   (WFile %s)\n   %s" % (
                            gc.t_conf(c), ";\n    ".join(gc.t_rec(x, d) for x in recs[:N]), gc.t_bytes(text), gc.t_robs(obs)),
                            dict(rep, what="close after a refused record")))
                elif not (style and N <= 0):
                    terms.append(("chk_failclose %s\n   [%s]\n   %d %s (%s)" % (
                        gc.t_conf(c), ";\n    ".join(gc.t_rec(x, d) for x in recs), raised, gc.t_bytes(text),
                        gc.t_pobs(obs if obs[0] == "ok" else ("err", obs[1]), None)),
                        dict(rep, what="failing close / refused record")))
            except gc.Skip:
                pass


def full_read(text):
    obs = gc.read_text(text)
    return obs[3] if obs[0] == "ok" else None


def oracle_crash(conf, recs):
    """crash points of one writer run: every proper prefix of the operation list, and (finer) the file
    after every single write/seek call of the file object that is followed by another write call"""
    path = os.path.join(gc.tmpdir(), "s14w.gro")
    ops, fine = gc.run_writer_snapshots(path, conf, recs)
    full = ops[-1][1]
    fa = full_read(full)
    bad = []
    if fa is None:
        return ["the complete file is not readable"], ops, fa
    states = [("partial", t) for j, t in ops[:-1]] + fine
    seen = set()
    for label, t in states:
        if (label, t) in seen:
            continue
        seen.add((label, t))
        obs = gc.read_text(t)
        if label == "partial" and gc.opened(obs):
            bad.append("a file left by a writer that stopped before its last operation (%d bytes of %d) was accepted"
                       % (len(t), len(full)))
        elif obs[0] == "ok" and obs[3] != fa:
            bad.append("an accepted partial file (%d bytes) returned other atom records than the complete file" % len(t))
    return bad[:5], ops, fa


# ------------------------------------------------------------------ inputs
def shipped(ctx):
    """[(name, text, cut list)]"""
    rs = ctx.np_rng("shipped")
    out = []
    small_limit = ctx.n(3000, 12000)
    for p in sorted(glob.glob(os.path.join(DATA, "*.gro"))):
        with open(p, "rb") as f:
            text = f.read().decode("latin-1")
        if not text:
            continue
        n = len(text)
        if n <= small_limit:
            cuts = list(range(n + 1))
        else:
            cuts = set([0, n])
            pos = -1
            while True:
                pos = text.find("\n", pos + 1)
                if pos < 0:
                    break
                for dlt in range(-3, 4):
                    if 0 <= pos + 1 + dlt <= n:
                        cuts.add(pos + 1 + dlt)
            if not ctx.quick or n < 12000:
                pass
            else:                        # quick tier: thin the line boundaries of the big files
                cuts = set(c for c in cuts if c < 400 or c > n - 400 or (c // 7) % 40 == 0)
            for c in rs.randint(0, n + 1, size=ctx.n(150, 2000)):
                cuts.add(int(c))
            cuts = sorted(cuts)
        out.append((os.path.basename(p), text, cuts))
    return out


def gen_runs(ctx, rs, n, nonascii=False):
    runs = []
    for i in range(n):
        vel, declared = bool(i & 1), bool(i & 2)
        size = int(rs.choice([1, 1, 2, 2, 3, 4, 6, 12]))
        conf, recs = gc.gen_case(rs, natoms=size, vel=vel, declared=declared, nonascii=nonascii)
        if conf["title"] is not None and "\n" in conf["title"][:-1]:
            continue
        runs.append((conf, recs))
    return runs


def cuts_term(fname, cuts_obs, full_atoms):
    """run-length encoded: consecutive cut offsets with the same observation form one segment"""
    segs = []
    for k, o in cuts_obs:
        t = gc.t_pobs(o, full_atoms)
        if segs and segs[-1][2] == t and segs[-1][0] + segs[-1][1] == k:
            segs[-1][1] += 1
        else:
            segs.append([k, 1, t])
    return "chk_cuts %s [%s]" % (fname, "; ".join("(%d%%N, %d%%N, %s)" % (a, n, t) for a, n, t in segs))


# ------------------------------------------------------------------ entry points
CORPUS_RUNS = [
    ({"title": "declared", "natoms": 3, "fmt": None, "box": ("vec", [1.0, 2.0, 3.0])},
     [(1, "SOL", "OW", 1, 0.1, 0.2, 0.3), (1, "SOL", "HW1", 2, 0.4, 0.5, 0.6), (1, "SOL", "HW2", 3, 0.7, 0.8, 0.9)]),
    ({"title": "undeclared, velocities", "natoms": None, "fmt": (9, 4), "box": ("mat", [[3.0, 0.0, 0.0], [0.5, 3.0, 0.0], [0.25, 0.5, 3.0]])},
     [(99999, "A", "B", 100000, 0.1, 0.2, 0.3, 0.01, 0.02, 0.03), (1, "e5", "12", 1, 0.1, 0.2, 0.3, 1.0, 2.0, 3.0)]),
    # every token of these atom lines is a number: only the blank count field (not the content of the lines)
    # keeps a half-written file from being read as "0 atoms + box line"
    ({"title": "numeric names", "natoms": None, "fmt": None, "box": ("default",)},
     [(1, "e5", "12", 1, 0.1, 0.2, 0.3), (2, "7", "8", 2, 0.4, 0.5, 0.6)]),
    # empty title ('' and a bare newline): the file starts with a bare newline
    ({"title": "", "natoms": None, "fmt": None, "box": ("vec", [2.0, 2.0, 2.0])},
     [(1, "SOL", "OW", 1, 0.1, 0.2, 0.3), (1, "SOL", "HW1", 2, 0.4, 0.5, 0.6)]),
    ({"title": "\n", "natoms": 2, "fmt": (9, 4), "box": ("default",)},
     [(1, "SOL", "OW", 1, 0.1, 0.2, 0.3, -0.01, 0.02, 0.03), (1, "SOL", "HW1", 2, 0.4, 0.5, 0.6, 0.0, 0.0, 0.0)]),
]


def check_run(ctx, conf, recs, where):
    """S on one writer run: every byte prefix of its complete file and its crash points"""
    bad, ops, fa = oracle_crash(conf, recs)
    for b in bad:
        report(ctx, "crash point: " + b, {"kind": "crash", "case": gc.case_json(conf, recs)}, "crash")
    full = ops[-1][1]
    obs_all = []
    for k in range(len(full) + 1):
        b, obs = oracle_cut(full, k, fa)
        obs_all.append((k, obs))
        if b:
            report(ctx, "truncation: " + b, {"kind": "cut", "case": gc.case_json(conf, recs), "cut": k}, "cut")
    ctx.cov["S"][where] = ctx.cov["S"].get(where, 0) + len(full) + 1 + len(ops)
    return ops, fa, full, obs_all


def demo_records(n, vel):
    out = []
    for i in range(n):
        r = (1 + i // 3, "MOL", "C%d" % i, i + 1, 0.1 * i, 0.2 * i, -0.3 * i)
        out.append(r + ((0.01 * i, -0.02 * i, 0.03 * i) if vel else ()))
    return out


# abandoned-writer witnesses (seeded C14-6): 6 atoms, with/without velocities, count declared or not
CORPUS_ABANDONED = [({"title": "exported system", "natoms": (6 if declared else None), "fmt": None,
                      "box": ("vec", [3.0, 4.0, 5.0])}, demo_records(6, vel))
                    for vel in (False, True) for declared in (False, True)]
# CRLF witnesses (seeded C14-5): 7 atoms with velocities, 1 and 5 atoms without (like BF4_CG / BF4_AA)
CORPUS_CRLF = [({"title": "generated with velocities", "natoms": None, "fmt": None, "box": ("vec", [3.0, 4.0, 5.0])},
                demo_records(7, True)),
               ({"title": "one atom", "natoms": 1, "fmt": None, "box": ("vec", [1.0, 1.0, 1.0])}, demo_records(1, False)),
               ({"title": "five atoms", "natoms": None, "fmt": (9, 4), "box": ("default",)}, demo_records(5, False))]


def complete_text(conf, recs):
    w = gc.run_writer(os.path.join(gc.tmpdir(), "s14c.gro"), conf, recs)
    return w[1] if w[0] == "file" else None


def corpus(ctx):
    ctx.cov["S"]["corpus_runs"] = 0
    for conf, recs in CORPUS_RUNS:
        check_run(ctx, conf, recs, "corpus_partial_files")
        ctx.cov["S"]["corpus_runs"] += 1
    for conf, recs in CORPUS_CRLF + CORPUS_RUNS[:2]:
        text = complete_text(conf, recs)
        if text is not None:
            check_crlf(ctx, text, {"kind": "crlf", "case": gc.case_json(conf, recs)}, "corpus_crlf_partial_files")
    for conf, recs in CORPUS_ABANDONED:
        check_abandoned(ctx, conf, recs, "corpus_abandoned_writers")
    # failing close (seeded C14-9): (announced, written) of the demo, with and without velocities, close / with block
    for vel in (False, True):
        for announced, written in ((5, 3), (5, 1), (2, 1), (2, 4), (3, 4), (6, 5), (1, 2), (3, 0)):
            conf = {"title": "failing close", "natoms": None, "fmt": None, "box": ("vec", [3.0, 4.0, 5.0])}
            check_failclose(ctx, conf, demo_records(written, vel), "corpus_failing_close", announced=[announced])
    # D18: announced 1, two records with velocities, the second one made of numeric tokens only: before the repair
    # close() raised but the file was accepted as a 1-atom system whose "box" was the second record
    for style in (False, True):
        check_failclose(ctx, {"title": "D18", "natoms": None, "fmt": None, "box": ("vec", [3.0, 4.0, 5.0])},
                        [(1, "SOL", "OW", 1, 0.1, 0.2, 0.3, 0.01, 0.02, 0.03),
                         (1, "1e5", "1e5", 2, 0.4, 0.5, 0.6, 0.04, 0.05, 0.06)],
                        "corpus_failing_close", announced=[1], use_with=style)


def correspondence(ctx):
    rs = ctx.np_rng("K")
    K = ctx.cov["K"]
    hist = {"runs": 0, "prefixes": 0, "crash_snapshots": 0, "accepted_partial": 0, "rejected_partial": 0,
            "error_classes": {}, "combos": {}}
    runs = [r for r in CORPUS_RUNS] + gen_runs(ctx, rs, ctx.n(48, 600))
    cases, meta = [], []
    for conf, recs in runs:
        if not gc.all_values_ok(conf, recs):
            continue
        ops, fa, full, obs_all = check_run(ctx, conf, recs, "generated_partial_files")
        d = gc.effective_d(conf)
        try:
            snaps = "; ".join("(%d, %s, %s)" % (j, gc.t_bytes(t), gc.t_pobs(gc.read_text(t), fa)) for j, t in ops)
            crash = "chk_crash %s\n   [%s]\n   [%s]" % (gc.t_conf(conf), ";\n    ".join(gc.t_rec(x, d) for x in recs), snaps)
            cuts = cuts_term(gc.t_bytes(full), obs_all, fa)
        except gc.Skip:
            continue
        m = {"kind": "run", "case": gc.case_json(conf, recs)}
        cases += [crash, cuts]
        meta += [dict(m, what="crash points"), dict(m, what="byte prefixes")]
        fterms = []
        check_failclose(ctx, conf, recs, "generated_failing_close", terms=fterms)
        if hist["runs"] % 7 == 0:
            check_failclose(ctx, conf, [], "generated_failing_close", announced=[1, 4], terms=fterms)
        for t, mm in fterms:
            cases.append(t)
            meta.append(mm)
        hist["failing_close"] = hist.get("failing_close", 0) + len(fterms)
        hist["runs"] += 1
        hist["prefixes"] += len(obs_all)
        hist["crash_snapshots"] += len(ops)
        combo = "vel=%d declared=%d" % (len(recs[0]) == 10, conf["natoms"] is not None)
        hist["combos"][combo] = hist["combos"].get(combo, 0) + 1
        for k, o in obs_all:
            ctx.count(("cut", full, k))
            if o[0] == "ok":
                hist["accepted_partial"] += 1
            else:
                hist["rejected_partial"] += 1
                hist["error_classes"][str(o[1])] = hist["error_classes"].get(str(o[1]), 0) + 1
        if len(ctx.cov["samples"]) < 2:
            ctx.sample({"conf": conf, "records": [list(x) for x in recs[:2]], "file": full,
                        "box_line_start": box_line_start(full), "accepted_cuts": [k for k, o in obs_all if o[0] == "ok"][:5]})
    # shipped files
    big_cases, big_meta = [], []
    ship_cases, ship_meta = [], []
    for name, text, cuts in shipped(ctx):
        fa = full_read(text)
        obs = []
        for k in cuts:
            b, o = oracle_cut(text, k, fa)
            obs.append((k, o))
            ctx.count(("ship", name, k))
            if b:
                report(ctx, "truncation of shipped %s: %s" % (name, b), {"kind": "shipped", "file": name, "cut": k}, "cut")
        ctx.cov["S"]["shipped_partial_files"] = ctx.cov["S"].get("shipped_partial_files", 0) + len(cuts)
        if len(text) <= ctx.n(3000, 12000) and "\r" not in text:
            check_crlf(ctx, text, {"kind": "shipped_crlf", "file": name}, "shipped_crlf_partial_files")
        hist["shipped:" + name] = len(cuts)
        if len(text) <= 12000:
            try:
                ship_cases.append(cuts_term(gc.t_bytes(text), obs, fa))
                ship_meta.append({"kind": "shipped", "file": name, "what": "byte prefixes"})
            except gc.Skip:
                pass
        elif not ctx.quick:
            # thorough only: one literal per shard (in the header), the cuts spread over several cases
            step = 60
            try:
                for i in range(0, len(obs), step):
                    big_cases.append((name, text, cuts_term("BIGFILE", obs[i:i + step], fa)))
                    big_meta.append({"kind": "shipped", "file": name, "what": "byte prefixes", "cuts": [k for k, _ in obs[i:i + step]]})
            except gc.Skip:
                pass
    K["input_distribution"] = hist
    dis = []
    codes, log = lib.run_coq_cases(ctx.cid, "K", gc.HEADER14, cases, shard=8)
    K["log"] = log
    if codes is None:
        K["error"] = log
        return [{"error": "coqc failed on the correspondence cases", "log": log[-1500:]}]
    allcodes = [(meta[i], c) for i, c in codes.items()]
    total = len(cases)
    codes, log = lib.run_coq_cases(ctx.cid, "Kship", gc.HEADER14, ship_cases, shard=1)
    K["log_shipped"] = log
    if codes is None:
        K["error"] = log
        return [{"error": "coqc failed on the correspondence cases (shipped files)", "log": log[-1500:]}]
    allcodes += [(ship_meta[i], c) for i, c in codes.items()]
    total += len(ship_cases)
    for name in sorted(set(n for n, _, _ in big_cases)):
        sel = [(t, c) for (n, t, c) in big_cases if n == name]
        msel = [m for (n, _, _), m in zip(big_cases, big_meta) if n == name]
        header = gc.HEADER14 + "Definition BIGFILE : bytes := %s.\n" % gc.t_bytes(sel[0][0])
        codes, log = lib.run_coq_cases(ctx.cid, "Kbig", header, [c for _, c in sel], shard=max(1, (len(sel) + 15) // 16))
        K["log_" + name] = log
        if codes is None:
            K["error"] = log
            return [{"error": "coqc failed on the correspondence cases (%s)" % name, "log": log[-1500:]}]
        allcodes += [(msel[i], c) for i, c in codes.items()]
        total += len(sel)
    K["cases"] = total
    K["disagree"] = sum(1 for _, c in allcodes if c in (1, 3))
    K["indeterminate"] = sum(1 for _, c in allcodes if c == 2)
    K["agree"] = total - len(allcodes)
    dis = [dict(m, code=c) for m, c in allcodes if c in (1, 3)]
    # 4.5: the oracle already ran on every one of these inputs above (violations recorded there)
    return dis


def oracle(ctx, scale):
    rs = ctx.np_rng("S%d" % scale)
    S = ctx.cov["S"]
    n = ctx.n(60, 1200) * scale
    runs = gen_runs(ctx, rs, n, nonascii=True)     # S only: one title in four has multi-byte characters
    before = S.get("violating_inputs", 0)
    for i, (conf, recs) in enumerate(runs):
        ops, fa, full, _ = check_run(ctx, conf, recs, "oracle_partial_files")
        ctx.count(("srun", repr(conf), repr(recs)))
        if any(ord(ch) > 127 for ch in (conf["title"] or "")):
            S["nonascii_title_runs"] = S.get("nonascii_title_runs", 0) + 1
        if i % 2 == 0:
            check_crlf(ctx, full, {"kind": "crlf", "case": gc.case_json(conf, recs)}, "oracle_crlf_partial_files")
        check_failclose(ctx, conf, recs, "oracle_failing_close")
        check_abandoned(ctx, conf, recs, "oracle_abandoned_writers",
                        ks=sorted(set([0, 1, len(recs) // 2, len(recs) - 1, len(recs)])))
    S["oracle_runs_x%d" % scale] = len(runs)
    S["failures"] = S.get("failures", 0) + S.get("violating_inputs", 0) - before


def replay(ctx, obj):
    r = obj["replay"]
    kind = r.get("kind")
    if kind in ("cut", "crash", "run"):
        conf, recs = gc.case_from_json(r["case"])
        found = []
        ctx.violation = lambda what, replay_obj, **kw: found.append(what)   # replaying writes no new replay files
        check_run(ctx, conf, recs, "replay")
        for v in found:
            print(v)
        return not found
    if kind in ("crlf", "shipped_crlf", "abandoned", "failclose"):
        found = []
        ctx.violation = lambda what, replay_obj, **kw: found.append(what)
        if kind == "failclose":
            conf, recs = gc.case_from_json(r["case"])
            check_failclose(ctx, conf, recs, "replay", announced=[conf["natoms"]], use_with=bool(r.get("with_block")))
        elif kind == "abandoned":
            conf, recs = gc.case_from_json(r["case"])
            check_abandoned(ctx, conf, recs, "replay", ks=[r["k"]])
        elif kind == "crlf":
            text = complete_text(*gc.case_from_json(r["case"]))
            check_crlf(ctx, text, {"kind": "crlf"}, "replay")
        else:
            with open(os.path.join(DATA, r["file"]), "rb") as f:
                check_crlf(ctx, f.read().decode("latin-1"), {"kind": "shipped_crlf"}, "replay")
        for v in found:
            print(v)
        return not found
    if kind == "shipped":
        with open(os.path.join(DATA, r["file"]), "rb") as f:
            text = f.read().decode("latin-1")
        b, _ = oracle_cut(text, r["cut"], full_read(text))
        print(b)
        return b is None
    print("replay names a proof/correspondence, not an input:", str(r)[:300])
    return False


def finish(ctx):
    ctx.assumptions = [
        "a crash leaves on disk what the file object had been given up to the last completed operation (every operation "
        "flushed); partially flushed buffers are covered by the byte-prefix clause only when the count was declared",
        "writer runs are the runs that would complete: the declared count, when given, equals the number of records",
        "a byte prefix that contains the whole box text but not its end of line is accepted, with exactly the complete "
        "file's records (allowed by the property's second sentence); no crash point of the operation list produces it, "
        "the box line and its newline being one write",
        "the Coq model and K are ASCII text without carriage returns (text-mode tell/seek are byte offsets; decimal values as "
        "in C13); CRLF copies of complete files, titles with multi-byte characters and writers abandoned to the garbage "
        "collector are exercised by the S oracle only (testing, outside the model)",
    ]
    return ctx.finish(level="proof", rule=RULE,
                      trusted=["CPython int()/float()/readline/seek/tell semantics transcribed by hand in coq/Base/StrGro.v and "
                               "coq/Model/GroFile.v (tied by K)"])
