"""C16 - ItpFile read-write-read loses no section, line or comment."""
import collections
import os

import lib
import molgen
import itp_common as ic

HEADER = """From Coq Require Import String Ascii.
From Coq Require Import List ZArith NArith.
From GM Require Import Base.Res Corr.CheckC16 Corr.CheckC15.
Import ListNotations.
Open Scope string_scope.
"""

RULE = ("files: generated topologies of C15's generator (repeated/permuted sections, decorations) and free-form files "
        "(1..8 sections drawn with repetition from atoms/bonds/pairs/constraints/moleculetype/plain names incl. the "
        "substring names 'type','m','' and a name containing ']'; header text; content lines with no/empty/multiple/"
        "'#'-leading trailing comments; comment-only, blank, preprocessor lines; missing final newline; CRLF); each file is "
        "read, written, re-read, written again; call histories every run: 3-6 successive different topologies (incl. pairs of "
        "equal byte length) written to ONE input path and round-tripped through ONE output path back to back. Lines/tokens: random ASCII lines (incl. control white space) through "
        "ItpSection.parse_line for 9 section names, int(), float(), split(), strip(), file iteration. The 16 shipped "
        "topologies (two DNA files in thorough). A case is non-trivial when its text is distinct.")

SPACES = " \t\n\r\x0b\x0c\x1c\x1d\x1e\x1f"


# ------------------------------------------------------------------ independent tokenizer (property text)
def spec_abs(text):
    """for every section name in order of first appearance: the content lines token by token and the comment /
    preprocessor lines, in file order.  Written from the property statement, not from the parser."""
    secs = collections.OrderedDict()
    cur = None
    header = []
    for raw in text.split("\n"):
        s = raw.strip(SPACES)
        if s.startswith("[") and "]" in s:
            cur = s[1:s.rindex("]")].strip(SPACES)
            secs.setdefault(cur, [])
            continue
        if cur is None:
            header.append(raw)
            continue
        if not s:
            continue
        if raw.startswith("#"):
            entry = ((), s)
        else:
            k = raw.find(";")
            body, com = (raw, "") if k < 0 else (raw[:k], raw[k + 1:])
            entry = (tuple(t for t in _split(body)), com.strip(SPACES))
        if entry != ((), ""):
            secs[cur].append(entry)
    return secs


def _split(s):
    out, cur = [], ""
    for ch in s:
        if ch in SPACES:
            if cur:
                out.append(cur)
            cur = ""
        else:
            cur += ch
    if cur:
        out.append(cur)
    return out


def impl_abs(f):
    out = collections.OrderedDict()
    for name, sec in f.items():
        if name == "header":
            continue
        out[name] = [(tuple(l.content.split()), l.comment) for l in sec.lines if l.content or l.comment]
    return out


def oracle_file(path, out=None):
    """the property on one well-formed file; returns failed clauses.  out: write to THIS path (both the first and the
    second write; call histories through one scratch output name) instead of fresh names"""
    from gaddlemaps.parsers import ItpFile, read_topology
    text = ic.read_text(path)
    want = spec_abs(text)
    bad = []
    try:
        a = ItpFile(path)
    except Exception as ex:   # noqa: BLE001
        return ["first read raised %s: %s" % (type(ex).__name__, str(ex)[:80])]
    if impl_abs(a) != want:
        bad.append("first parse is not the file's content: " + _diff(want, impl_abs(a)))
    q = out or molgen.fresh_path("itp", "w")
    a.write(q)
    text2 = ic.read_text(q)
    if spec_abs(text2) != want:
        bad.append("written file carries different content: " + _diff(want, spec_abs(text2)))
    try:
        b = ItpFile(q)
    except Exception as ex:   # noqa: BLE001
        return bad + ["re-read raised %s: %s" % (type(ex).__name__, str(ex)[:80])]
    if impl_abs(b) != want:
        bad.append("re-read differs: " + _diff(want, impl_abs(b)))
    if list(b["header"]) != list(a["header"]):
        bad.append("header text differs after the round trip")
    ta, tb = ic.obs_topology(path), ic.obs_topology(q)
    if ta != tb:
        bad.append("read_topology differs: %s vs %s" % (str(ta)[:100], str(tb)[:100]))
    q2 = out or molgen.fresh_path("itp", "w")
    b.write(q2)
    text3 = ic.read_text(q2)
    if spec_abs(text3) != want:
        bad.append("second write carries different content: " + _diff(want, spec_abs(text3)))
    try:
        c = ItpFile(q2)
        if impl_abs(c) != want:
            bad.append("third read differs")
    except Exception as ex:   # noqa: BLE001
        bad.append("third read raised %s" % type(ex).__name__)
    return bad


def _diff(want, got):
    if list(want.keys()) != list(got.keys()):
        return "section names %s != %s" % (list(want.keys())[:8], list(got.keys())[:8])
    for k in want:
        if want[k] != got[k]:
            for i, (x, y) in enumerate(zip(want[k], got[k])):
                if x != y:
                    return "section %r entry %d: %r != %r" % (k, i, x, y)
            return "section %r: %d entries != %d" % (k, len(want[k]), len(got[k]))
    return "?"


# ------------------------------------------------------------------ generators
PLAIN_NAMES = ["angles", "dihedrals", "dihedrals", "exclusions", "settles", "position_restraints", "system", "x y",
               "a ] b", "defaults", "virtual_sites2"]
MOL_NAMES = ["moleculetype", "moleculetype", "type", "m", "cule", ""]
BOND_NAMES = ["bonds", "pairs", "constraints"]
WORDS = ["1", "2", "17", "0.5", "gb_2", "C1'", "a]b", "x[1]", "-3", "1e3", "#t", "A*", "+", "_", "12_0", "q;"[:1]]


def gen_free_file(rs):
    lines = []
    for _ in range(int(rs.randint(0, 4))):
        lines.append(ic.pick(rs, ic.NOISE + ["title text", "free [ text", "  indented header text ; c"]))
    nsec = int(rs.randint(1, 9))
    pool = [ic.pick(rs, ["atoms"] + BOND_NAMES + MOL_NAMES[:3] + PLAIN_NAMES) for _ in range(max(1, nsec // 2))]
    if rs.randint(0, 8) == 0:
        pool.append(ic.pick(rs, MOL_NAMES[2:]))
    for _ in range(nsec):
        name = ic.pick(rs, pool)
        lines.append(ic.header_line(rs, name, True))
        for _ in range(int(rs.randint(0, 6))):
            lines += ic.noise_lines(rs, True, 3)
            if name == "atoms":
                nr = int(rs.randint(1, 400))
                toks = [ic.spell_int(rs, nr), ic.gen_name(rs, 3), ic.spell_int(rs, int(rs.randint(1, 9))), ic.gen_name(rs, 4, ""),
                        ic.gen_name(rs, 4, "'*"), ic.spell_int(rs, nr)] + ["0.0", "1.008", "x"][: int(rs.randint(0, 4))]
            elif name in BOND_NAMES:
                toks = [ic.spell_int(rs, int(rs.randint(1, 400))) for _ in range(2)] + ["1", "0.15", "gb_1"][: int(rs.randint(0, 4))]
            elif name in MOL_NAMES:
                toks = [ic.gen_name(rs, 6, "_-"), ic.spell_int(rs, int(rs.randint(1, 4)))] + ["extra"][: int(rs.randint(0, 2))]
            else:
                toks = [ic.pick(rs, WORDS) for _ in range(int(rs.randint(1, 7)))]
                if toks[0].startswith("#") or toks[0].startswith("["):
                    toks[0] = "w" + toks[0]
            lines.append(ic.join_tokens(rs, toks, True))
        lines += ic.noise_lines(rs, True, 3)
    text = "\n".join(lines)
    if rs.randint(0, 5):
        text += "\n"
    return text


def gen_file(rs):
    if rs.randint(0, 2):
        n = int(rs.randint(1, 30))
        t = ic.gen_topology(rs, n, ic.pick(rs, ic.SHAPES), deco=True)
        return "topology", ic.render_topology(rs, t, deco=True, final_newline=bool(rs.randint(0, 5)))
    return "free", gen_free_file(rs)


LINE_ALPHABET = list("abcXYZ0123456789") + [" "] * 6 + ["\t", "\t", ";", ";", "#", "[", "]", "_", "+", "-", ".", "e", "\x0b", "\x0c",
                                                      "\x1c", "\x1f", "\r", '"']
SEC_NAMES = ["atoms", "bonds", "pairs", "constraints", "moleculetype", "type", "", "angles", "moleculetypes"]
INT_TOKENS = ["0", "7", "-7", "+7", "007", "1_000", "1__0", "_1", "1_", "+", "-", "", " 5 ", "\t5\n", "5 5", "0x10", "1e3", "1.0",
              "--1", "+-1", "\x1c12\x1f", "12a", "९", "1_2_3", "-0", "4" * 30]
FLOAT_TOKENS = ["0", "1.", ".5", ".", "1e5", "1e", "1e+", "1E-3", "e5", "+.5e-2", "-1.5E+10", "inf", "-inf", "+Infinity", "infinit",
                "nan", "-NaN", "nan1", "1_0.5", "1_.5", "1._5", "1e1_0", "_1", "1_", "0x1p3", " 1.5 ", "1 .5", "", "+", "1.5.2",
                "1e5.0", "INF", "iNf", "1__0", "1d5", "١"]


def gen_line(rs):
    kind = int(rs.randint(0, 4))
    if kind == 0:
        s = "".join(ic.pick(rs, LINE_ALPHABET) for _ in range(int(rs.randint(0, 14))))
    elif kind == 1:
        toks = [ic.pick(rs, ["1", "22", "x", "+3", "1.5", "-4", "A;B", "#", "[a]", "0", "1_0", "nan"]) for _ in range(int(rs.randint(0, 9)))]
        s = ic.pick(rs, ["", " ", "\t"]) + ic.pick(rs, ic.SEPS).join(toks) + ic.pick(rs, ic.TRAIL)
    elif kind == 2:
        s = ic.pick(rs, ic.NOISE + ["[ atoms ]", "[x", " [ a ] ", "[]", "x [ a ]", "#", ";", " ;", "; ;", "a;", "a;\t", ";#"])
    else:
        toks = [str(int(rs.randint(-2, 300))) for _ in range(int(rs.randint(1, 9)))]
        s = " ".join(toks) + ic.pick(rs, ic.TRAIL)
    if rs.randint(0, 6):
        s += "\n"
    return s


def obs_line(sec, line):
    from gaddlemaps.parsers import ItpSection

    def run():
        o = ItpSection.parse_line(line, sec)
        cls = type(o).__name__
        if cls == "ItpLineAtom" and o.content:
            f = "(OF_atom %s %s %s %s %s %s)" % (ic.cz(o.number), ic.cs(o.type), ic.cz(o.resid), ic.cs(o.resname), ic.cs(o.name),
                                               ic.cz(o.cgnr))
        elif cls == "ItpLineBonds" and o.content:
            f = "(OF_bond %s %s %s)" % (ic.cz(o.atom_from), ic.cz(o.atom_to), ic.cz(o.funct))
        elif cls == "ItpLineMoleculetype" and o.content:
            f = "(OF_mol %s %s)" % (ic.cs(o.name), ic.cz(o.nrexcl))
        else:
            f = "OF_none"
        return (o.content, o.comment, str(o)), f
    return ic.guarded(run)


def ascii_only(s):
    return all(ord(c) < 128 for c in s)


def check_history(ctx, rs, nseq, cases=None, meta=None, label="same-path history"):
    """call HISTORIES: successive different topologies (pairs of equal byte length included) are written to ONE input
    path and round-tripped through ONE output path back to back, without sleeping; every read must give the content
    the file has at that moment.  With cases/meta: every step also becomes K cases.  Returns failing steps."""
    fails = 0
    for _ in range(nseq):
        src = molgen.fresh_path("itp", "scratch_in")
        out = molgen.fresh_path("itp", "scratch_out")
        texts = []
        for step, (kind, text, _truth) in enumerate(ic.variant_sequence(rs)):
            ic.write_text(text, path=src)
            texts.append(text)
            if cases is not None:
                file_cases(src, cases, meta, "history:" + kind, out=out)
            bad = oracle_file(src, out=out)
            ctx.count(("hist", text, step), step > 0)
            if bad:
                fails += 1
                ctx.violation("%s, step %d (%s) through one input and one output path: %s" % (label, step, kind, "; ".join(bad[:3])),
                              {"kind": "history", "texts": texts}, key="history")
                break
    return fails


def replay_history(texts):
    bad = []
    for _ in range(5):        # a second boundary between two writes may hide a stale-cache effect: retry on fresh names
        src = molgen.fresh_path("itp", "scratch_in")
        out = molgen.fresh_path("itp", "scratch_out")
        for text in texts:
            ic.write_text(text, path=src)
            bad = oracle_file(src, out=out)
        if bad:
            return bad
    return bad


# ------------------------------------------------------------------ corpus
WATER_A = ("; water-like test molecule\n[ moleculetype ]\n; name nrexcl\nSOL 2\n[ atoms ]\n"
           "; nr type resnr residue atom cgnr charge mass\n1 OW 1 SOL OW  1 -0.820 15.9994 ; spc\n"
           "2 HW 1 SOL HW1 1  0.410  1.0080\n3 HW 1 SOL HW2 1  0.410  1.0080\n[ bonds ]\n"
           "1 2 1 0.1 345000 ; O-H\n1 3 1 0.1 345000 ; O-H\n")
WATER_B = WATER_A.replace("-0.820", "-0.834").replace(" 0.410", " 0.417").replace("HW2", "HX2").replace("; spc", "; tip")

CORPUS = [
    ("D6 repeated section name", "[ moleculetype ]\nM 1\n[ atoms ]\n1 X 1 R A 1\n2 X 1 R B 2\n[ dihedrals ]\n1 2 1 2 9\n"
                                 "[ bonds ]\n1 2\n[ dihedrals ]\n2 1 2 1 4 ; improper\n[ dihedrals ]\n; third\n"),
    ("D7 empty trailing comment", "[ moleculetype ]\nM 1\n[ atoms ]\n1 X 1 R A 1 ;\n2 X 1 R B 2;\n[ bonds ]\n1 2 3 ;\n2 1 3 ;   \n1 1 ;"),
    ("D12 '#'-leading comments", "[ moleculetype ]\nM 1\n[ atoms ]\n1 X 1 R A 1 ; #1 atom\n2 X 1 R B 2 ;#tag\n[ bonds ]\n1 2 1 ; #1 bond\n"
                                 "; #include foo\n;#include foo\n#include \"real.itp\"\n"),
    ("D13 comment glued to moleculetype fields", "[ moleculetype ]\nMOL 1;c\n[ atoms ]\n1 X 1 R A 1\n"),
    ("D13 b", "[ moleculetype ]\nMOL 1;\n[ atoms ]\n1 X 1 R A 1\n"),
    ("multiple comments, header text, no final newline",
     "; title\n#define X\nfree text\n[ moleculetype ]\n; name nrexcl\nM 3 ; a ; b ; c\n[ atoms ]\n1 X 1 R A 1 ;; double\n"
     "[ bonds ]\n#ifdef F\n1 1 2\n#else\n1 1 1\n#endif\n   ; indented comment\n1 1"),
]


def corpus(ctx):
    S = ctx.cov["S"]
    S["corpus"] = 0
    for label, text in CORPUS:
        path = ic.write_text(text)
        bad = oracle_file(path)
        S["corpus"] += 1
        if bad:
            ctx.violation("%s: %s" % (label, "; ".join(bad[:3])), {"kind": "itp_text", "text": text}, key="corpus")
    # call-history witnesses: two equal-length variants round-tripped one after the other through the SAME output path
    # (a line cache revalidated by size + whole-second mtime hands back the other topology), then generated sequences
    for _ in range(3):
        bad = replay_history([WATER_A, WATER_B, WATER_A])
        S["corpus"] += 1
        if bad:
            ctx.violation("equal-length variants through one scratch path: " + "; ".join(bad[:3]),
                          {"kind": "history", "texts": [WATER_A, WATER_B, WATER_A]}, key="history")
            break
    check_history(ctx, ctx.np_rng("corpus"), 3, label="corpus history")


# ------------------------------------------------------------------ K
def file_cases(path, cases, meta, kind, depth=2, out=None):
    """read -> write -> read -> write: one case per read (text, ItpFile observation, written text, read_topology);
    out: every write goes to this one path"""
    p = path
    for k in range(depth):
        text = ic.read_text(p)
        if not ascii_only(text):
            return
        obs, f = ic.obs_itpfile(p)
        written = ""
        q = None
        if f is not None:
            q = out or molgen.fresh_path("itp", "w")
            f.write(q)
            written = ic.read_text(q)
        ot = ic.obs_topology(p)
        cases.append("chk_itp_top %s %s %s %s" % (ic.cs(text), ic.cres(obs, ic.obs_itp_term), ic.cs(written),
                                                 ic.cres(ot, ic.obs_top_term)))
        meta.append({"kind": "itp_text", "gen": kind, "cycle": k, "text": text})
        if q is None:
            return
        p = q


def correspondence(ctx):
    rs = ctx.np_rng("K")
    K = ctx.cov["K"]
    cases, meta, hist = [], [], {}
    for _ in range(ctx.n(90, 1500)):
        kind, text = gen_file(rs)
        path = ic.write_text(text, crlf=rs.randint(0, 12) == 0)
        file_cases(path, cases, meta, kind)
        hist[kind] = hist.get(kind, 0) + 1
        ctx.count(("file", text))
        bad = oracle_file(path)
        if bad:
            ctx.violation("generated file: " + "; ".join(bad[:3]), {"kind": "itp_text", "text": ic.read_text(path)}, key="roundtrip")
    ctx.sample({"generated_file": meta[0]["text"][:700]})
    check_history(ctx, rs, ctx.n(5, 40), cases=cases, meta=meta)
    hist["history_sequences"] = ctx.n(5, 40)
    for label, text in CORPUS:
        file_cases(ic.write_text(text), cases, meta, "corpus")
    for p in ic.shipped_topologies(include_large=not ctx.quick):
        file_cases(p, cases, meta, "shipped:" + os.path.basename(p), depth=1 if (ctx.quick and os.path.getsize(p) > 8000) else 2)
        hist["shipped"] = hist.get("shipped", 0) + 1
    nfile = len(cases)
    # lines through ItpSection.parse_line
    for _ in range(ctx.n(1200, 20000)):
        sec = ic.pick(rs, SEC_NAMES)
        line = gen_line(rs)
        o = obs_line(sec, line)
        cases.append("chk_line %s %s %s" % (ic.cs(sec), ic.cs(line),
                                           ic.cres(o, lambda v: "((%s, %s, %s), %s)" % (ic.cs(v[0][0]), ic.cs(v[0][1]), ic.cs(v[0][2]), v[1]))))
        meta.append({"kind": "line", "section": sec, "line": line})
        ctx.count(("line", sec, line))
    hist["lines"] = len(cases) - nfile
    # tokens
    ntok = 0
    toks = [t for t in INT_TOKENS + FLOAT_TOKENS if ascii_only(t)]
    for _ in range(ctx.n(300, 3000)):
        toks.append("".join(ic.pick(rs, list("0123456789") * 3 + list("_+-.eE ninfaNI\t")) for _ in range(int(rs.randint(1, 8)))))
    for t in toks:
        oi = ic.guarded(lambda: int(t))
        try:
            float(t)
            of = True
        except ValueError:
            of = False
        cases.append("chk_int %s %s" % (ic.cs(t), ic.cres(oi, ic.cz)))
        meta.append({"kind": "int", "token": t})
        cases.append("chk_float %s %s" % (ic.cs(t), ic.cb(of)))
        meta.append({"kind": "float", "token": t})
        ntok += 2
    for _ in range(ctx.n(300, 3000)):
        s = "".join(ic.pick(rs, LINE_ALPHABET + ["\n"]) for _ in range(int(rs.randint(0, 20))))
        cases.append("chk_split %s %s" % (ic.cs(s), ic.clist(ic.cs(x) for x in s.split())))
        meta.append({"kind": "split", "s": s})
        cases.append("chk_strip %s %s" % (ic.cs(s), ic.cs(s.strip())))
        meta.append({"kind": "strip", "s": s})
        s2 = s.replace("\r", "")
        p = ic.write_text(s2)
        with open(p, encoding="utf-8") as fh:
            ls = list(fh)
        cases.append("chk_lines %s %s" % (ic.cs(s2), ic.clist(ic.cs(x) for x in ls)))
        meta.append({"kind": "lines", "s": s2})
        ntok += 3
    hist["string_functions"] = ntok
    codes, log = ic.run_cases_sized(ctx.cid, "K", HEADER, cases)
    K["cases"] = len(cases)
    K["file_cases"] = nfile
    K["input_distribution"] = hist
    K["log"] = log
    if codes is None:
        K["error"] = log
        return [{"error": "coqc failed on the correspondence cases", "log": log[-1500:]}]
    K["disagree"] = sum(1 for c in codes.values() if c != 0)
    K["agree"] = len(cases) - len(codes)
    dis = [dict(meta[i], code=c) for i, c in sorted(codes.items()) if c != 0]
    for d in dis[:30]:
        if d["kind"] == "itp_text":
            bad = oracle_file(ic.write_text(d["text"]))
            if bad and d.get("gen") in ("topology", "free", "corpus") or (bad and str(d.get("gen", "")).startswith("shipped")):
                ctx.violation("file (K disagreement): " + "; ".join(bad[:3]), {"kind": "itp_text", "text": d["text"]}, key="roundtrip")
    return [{k: (v[:800] if isinstance(v, str) else v) for k, v in d.items()} for d in dis]


# ------------------------------------------------------------------ S
def oracle(ctx, scale):
    rs = ctx.np_rng("S%d" % scale)
    S = ctx.cov["S"]
    n = ctx.n(250, 3000) * scale
    fails = 0
    hist = {}
    for _ in range(n):
        kind, text = gen_file(rs)
        path = ic.write_text(text, crlf=rs.randint(0, 12) == 0)
        bad = oracle_file(path)
        hist[kind] = hist.get(kind, 0) + 1
        ctx.count(("S", text))
        if bad:
            fails += 1
            ctx.violation("generated file: " + "; ".join(bad[:3]), {"kind": "itp_text", "text": ic.read_text(path)}, key="roundtrip")
    nh = ctx.n(25, 200) * scale
    fails += check_history(ctx, rs, nh)
    S["same_path_histories_x%d" % scale] = nh
    for p in ic.shipped_topologies(include_large=True):
        bad = oracle_file(p)
        hist["shipped"] = hist.get("shipped", 0) + 1
        if bad:
            fails += 1
            ctx.violation("shipped %s: %s" % (os.path.basename(p), "; ".join(bad[:3])), {"kind": "itp_path", "path": p}, key="shipped")
    S["files_x%d" % scale] = n
    S["kinds"] = hist
    S["failures"] = S.get("failures", 0) + fails


def replay(ctx, obj):
    r = obj["replay"]
    if r.get("kind") == "itp_text":
        bad = oracle_file(ic.write_text(r["text"]))
    elif r.get("kind") == "history":
        bad = replay_history(r["texts"])
    elif r.get("kind") == "itp_path":
        bad = oracle_file(r["path"])
    else:
        print("replay names a proof/correspondence, not an input:", str(r)[:500])
        return False
    print(bad)
    return not bad


def finish(ctx):
    ctx.assumptions = [
        "ASCII text; decoding and universal-newline translation are Python runtime behaviour (the model starts from the text the "
        "file iterator yields); CPython's str.strip/split/int/float are modelled in Base/StrItp.v and compared on generated "
        "tokens every run (testing), int()'s 4300-digit limit is not modelled",
        "domain of the theorems: section names other than 'header'; a trailing comment on a section-header line is not kept by "
        "the parser and is not part of the abstraction; blank lines are not part of the abstraction (every write adds one per section)",
    ]
    return ctx.finish(level="proof", rule=RULE,
                      trusted=["hand transcription of _itp_parse.py into coq/Model/Itp.v (tied by K)",
                               "the two regular expressions of _itp_parse.py written out as string functions (re_header, re_group)"])
