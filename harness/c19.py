"""C19 - periodic distance is the minimum-image distance (Residue.distance_to, geometric_center)."""
import itertools

import numpy as np

import lib
from lib import fl, v3, m3, coq_list

HEADER = """From GM Require Import Corr.CorrBase Corr.CheckC19 Model.Pbc.
Open Scope float_scope.
"""

RULE = ("pairs residue/residue and residue/point (1..6 atoms per residue, spread <= 0.4 nm); the objects are Residue objects or (one "
        "case in six) Molecule objects built through real files; a Residue/Molecule argument is, one time in two, of the SAME KIND "
        "as self - same residue name/number and atom names or same molecule species, so that `argument == self` holds for the "
        "package although it sits elsewhere: a rigidly displaced copy (residue.copy() with new positions), another object of the "
        "same size with its own shape, or the same names with another size - and otherwise of a different kind; first centre inside the box or up "
        "to 30 box lengths outside; separation given in fractional coordinates, |f| <= 4 (one in six <= 0.6, one in six <= 40), every fractional "
        "coordinate at least 1e-6 nm (measured along its box vector) away from a half-integer; boxes: orthorhombic with edges "
        "0.5..20 nm (log-uniform, cubic included), GROMACS lower-triangular triclinic (|off-diagonal| <= half the diagonal of its "
        "column), general triclinic (a GROMACS box rotated by a random rotation); a boundary stream puts one coordinate of the "
        "separation at (k+1/2) L +- {1.5e-6, 1e-5, 1e-3} nm; the inverse flag is exercised with numpy's inverse as argument; "
        "K additionally: no box, exactly singular boxes (a zero row, a zero column, the zero matrix -> LinAlgError), the empty "
        "residue (ValueError), dyadic exact ties in triclinic boxes (round-half-even observable); call histories: 2-5 consecutive "
        "distance_to calls that share ONE point object (float64 ndarray / int64 ndarray / list / tuple), ONE box ndarray, ONE "
        "inverse-box ndarray and the Residue (or Molecule) objects (1-3 of them, in half of the histories all of one kind and size, "
        "centres away from the origin; same or other residue as self, in a third of the histories mostly residue arguments, now and "
        "then the object itself, "
        "point or residue argument; with box / inverse flag / without box, in runs with the same flag); before half of the later "
        "calls the caller changes the shared box ndarray IN PLACE (box *= s with s in 0.7..1.4, 1 +- 2e-3, 2 or 0.5; box[:] = a "
        "new box of any kind; a shear box[i,j] += delta) and writes the new inverse into the shared inverse-box ndarray in place, "
        "or overwrites the shared point in place (ndarray and list forms); K feeds every call the values the arrays hold when it "
        "starts, S requires the caller's arrays bit-identical after every call and every value equal to the oracle's for the "
        "values the arrays held when that call started. A case is non-trivial when "
        "it is distinct and a box is given; the histogram records box kind, argument kind, inverse flag and whether the "
        "nearest image differs from the separation itself (wrapped).")

TOL = 1e-9          # relative to 1 + distance (property tolerance)
HALF_MARGIN = 1e-6  # nm, quantifier: separations not within 1e-6 of an exact half box


# ------------------------------------------------------------------ building the objects of the implementation
def make_residue(points, resid=1, resname="RES"):
    from gaddlemaps.components import Residue, AtomGro
    atoms = [AtomGro([resid, resname, "A%d" % k, k + 1, float(p[0]), float(p[1]), float(p[2])])
             for k, p in enumerate(points)]
    return Residue(atoms)


_MOL_TEMPLATES = {}


def make_molecule_obj(points, species="MOL"):
    """a gaddlemaps Molecule (one residue up to 3 atoms, two residues above) of the given species with the given atom
    positions; built once per (species, size) through real files (molgen) and then copied: two objects of the same
    species and size have the same molecule name, atom names and residue names, i.e. they are `==` for the package"""
    import molgen
    n = len(points)
    key = (species, n)
    if key not in _MOL_TEMPLATES:
        pre = "A" if species == "MOL" else "B"
        atoms = [("%s%d" % (pre, k), species[:2] + ("A" if (n < 4 or k < n // 2) else "B"), 1 if (n < 4 or k < n // 2) else 2)
                 for k in range(n)]
        _MOL_TEMPLATES[key] = molgen.make_molecule("%s%d" % (species, n), atoms, np.arange(3 * n).reshape(n, 3) * 0.1,
                                                   [(k, k + 1) for k in range(n - 1)])
    m = _MOL_TEMPLATES[key].copy()
    m.atoms_positions = np.array(points, dtype=float)
    return m


def build_pair(self_pts, other_kind, other, cls="residue", same_kind=False):
    """the two arguments as objects of the implementation.
    cls: "residue" (Residue objects) or "molecule" (Molecule objects, which inherit distance_to);
    same_kind: the second object has the names of the first (residue name and number, atom names / molecule species): a
    displaced copy, another water, another molecule of the species - `second == first` holds although it is elsewhere."""
    if not self_pts or (other_kind == "residue" and not other):
        cls = "residue"          # the empty Residue (ValueError) exists only as a Residue
    if cls == "molecule":
        a = make_molecule_obj(self_pts, "MOL")
    else:
        a = make_residue(self_pts)
    if other_kind != "residue":
        return a, np.array(other, dtype=float)
    if cls == "molecule":
        b = make_molecule_obj(other, "MOL" if same_kind else "OTH")
    elif same_kind and len(other) == len(self_pts):
        b = a.copy()                                   # a displaced (and possibly deformed) copy
        b.atoms_positions = np.array(other, dtype=float)
    elif same_kind:
        b = make_residue(other)                        # same residue name/number and atom names, other size
    else:
        b = make_residue(other, resid=2, resname="OTH")
    return a, b


def impl_distance(self_pts, other_kind, other, box, inv, cls="residue", same_kind=False):
    """Runs Residue.distance_to of the implementation.  Returns ("ok", float) or ("err", code)."""
    try:
        a, b = build_pair(self_pts, other_kind, other, cls, same_kind)
        bv = None if box is None else np.array(box, dtype=float)
        with np.errstate(all="ignore"):
            if bv is None:
                d = a.distance_to(b)                    # defaults: no box
            elif inv:
                d = a.distance_to(b, bv, True)
            else:
                d = a.distance_to(b, box_vects=bv)      # default of the flag
        return "ok", float(d)
    except np.linalg.LinAlgError:
        return "err", "EDiv0"
    except ValueError:
        return "err", "EValue"
    except TypeError:
        return "err", "EType"
    except IndexError:
        return "err", "EIndex"


def arg_tag(case):
    """argument kind for the histograms: point | residue | same_kind_residue | molecule | same_kind_molecule (+ self class)"""
    cls = case.get("cls", "residue")
    if case["other_kind"] != "residue":
        return "point" + ("(self=molecule)" if cls == "molecule" else "")
    return ("same_kind_" if case.get("same_kind") else "") + cls


def obj_kw(case):
    return {"cls": case.get("cls", "residue"), "same_kind": bool(case.get("same_kind", False))}


# ------------------------------------------------------------------ generators
def random_rotation(rs):
    q = rs.normal(size=4)
    q /= np.linalg.norm(q)
    w, x, y, z = q
    return np.array([[1 - 2 * (y * y + z * z), 2 * (x * y - z * w), 2 * (x * z + y * w)],
                     [2 * (x * y + z * w), 1 - 2 * (x * x + z * z), 2 * (y * z - x * w)],
                     [2 * (x * z - y * w), 2 * (y * z + x * w), 1 - 2 * (x * x + y * y)]])


def gen_box(rs, kind=None):
    """rows are the box vectors (GROMACS / gaddlemaps convention)"""
    if kind is None:
        kind = rs.choice(["ortho", "ortho", "ortho_cubic", "tric_gromacs", "tric_gromacs", "tric_general"])
    edges = np.exp(rs.uniform(np.log(0.5), np.log(20.0), size=3))
    if rs.randint(0, 8) == 0:
        edges[rs.randint(3)] = rs.choice([0.5, 20.0])
    if kind == "ortho":
        return kind, np.diag(edges)
    if kind == "ortho_cubic":
        return kind, np.diag([edges[0]] * 3)
    ax, by, cz = edges
    B = np.array([[ax, 0.0, 0.0],
                  [rs.uniform(-0.5, 0.5) * ax, by, 0.0],
                  [rs.uniform(-0.5, 0.5) * ax, rs.uniform(-0.5, 0.5) * by, cz]])
    if kind == "tric_gromacs":
        return kind, B
    return kind, B @ random_rotation(rs)


def blob(rs, centre, n):
    """n atoms whose arithmetic mean is (up to rounding) `centre`"""
    if n == 1:
        return np.array([centre], dtype=float)
    off = rs.uniform(-0.4, 0.4, size=(n, 3))
    off -= off.mean(axis=0)
    return off + np.asarray(centre)


def frac_margin_nm(f, B):
    """smallest distance (nm, along the corresponding box vector) of a fractional coordinate from a half-integer"""
    f = np.asarray(f, dtype=float)
    lens = np.linalg.norm(B, axis=1)
    return float(np.min(np.abs(np.abs(f - np.round(f)) - 0.5) * lens))


def gen_pair(rs, B, boundary=False, ortho=False):
    """returns dict(self, other_kind, other) for box B"""
    if rs.randint(0, 3) == 0:
        cf = rs.uniform(-30, 30, size=3)      # far outside the box
    else:
        cf = rs.uniform(0, 1, size=3)         # inside
    lens = np.linalg.norm(B, axis=1)
    while True:
        span = float(rs.choice([0.6, 4.0, 4.0, 4.0, 4.0, 40.0]))
        f = rs.uniform(-span, span, size=3)
        if rs.randint(0, 10) == 0:
            f[rs.randint(3)] = 0.0
        if boundary:
            i = rs.randint(3)
            k = rs.randint(-3, 3)
            delta = rs.choice([1.5e-6, 1e-5, 1e-3]) * rs.choice([-1.0, 1.0])
            f[i] = (k + 0.5) + delta / lens[i]
            if rs.randint(0, 3) == 0:     # all three coordinates next to a half box
                for j in range(3):
                    f[j] = (rs.randint(-3, 3) + 0.5) + rs.choice([1.5e-6, 1e-5, 1e-3]) * rs.choice([-1.0, 1.0]) / lens[j]
            if frac_margin_nm(f, B) >= 1.4e-6:
                break
        elif frac_margin_nm(f, B) >= 2e-6:
            break
    c = cf @ B
    o = c + f @ B
    na = int(rs.choice([1, 1, 2, 3, 6]))
    self_pts = blob(rs, c, na)
    cls = "molecule" if rs.randint(0, 6) == 0 else "residue"
    if rs.randint(0, 2) == 0:
        return {"self": self_pts.tolist(), "other_kind": "point", "other": [float(x) for x in o], "cls": cls, "same_kind": False}
    r = rs.randint(0, 6)
    if r < 2:      # a rigidly displaced copy of self (same names): residue.copy(); move(...)
        other = self_pts - centre(self_pts) + o
        return {"self": self_pts.tolist(), "other_kind": "residue", "other": other.tolist(), "cls": cls, "same_kind": True}
    if r == 2:     # another object of the same kind (same names and size) with its own shape: two waters
        return {"self": self_pts.tolist(), "other_kind": "residue", "other": blob(rs, o, na).tolist(), "cls": cls,
                "same_kind": True}
    nb = int(rs.choice([1, 2, 4, 6]))
    return {"self": self_pts.tolist(), "other_kind": "residue", "other": blob(rs, o, nb).tolist(), "cls": cls,
            "same_kind": bool(r == 3)}     # r == 3: same names, (mostly) another size


def gen_case(rs):
    boundary = rs.randint(0, 5) == 0
    kind, B = gen_box(rs, "ortho" if boundary else None)
    case = gen_pair(rs, B, boundary=boundary)
    case.update(kind="distance", boxkind=kind, box=B.tolist(), boundary=bool(boundary))
    return case


def gen_singular(rs):
    """exactly singular boxes on which LU certainly meets an exact zero pivot and the determinant is an exact 0:
    a zero row, a zero column, the zero matrix.  (Linearly dependent non-zero rows are NOT used: LAPACK's blocked
    update does not keep them exactly dependent - box [[-1,2,-3],[-.5,1,-1.5],[1.5,2.5,-2.5]] is inverted without
    an error - so numpy's notion of 'singular' is only guaranteed to coincide with det = 0 on these families.)"""
    B = rs.uniform(-8, 8, size=(3, 3))
    how = rs.randint(0, 5)
    i = rs.randint(3)
    if how in (0, 1):
        B[i, :] = 0.0
    elif how in (2, 3):
        B[:, i] = 0.0
    else:
        B = np.zeros((3, 3))
    return B


def gen_tie(rs):
    """dyadic triclinic box, dyadic positions, separation with exact half-integer fractional coordinates:
    all arithmetic is exact in binary64, so the tie-break of np.round is observable"""
    d = 2.0 ** rs.randint(0, 4, size=3)
    B = np.array([[d[0], 0, 0],
                  [rs.randint(-2, 3) * d[0] / 8.0, d[1], 0],
                  [rs.randint(-2, 3) * d[0] / 8.0, rs.randint(-2, 3) * d[1] / 8.0, d[2]]])
    c = rs.randint(-16, 17, size=3) / 4.0
    f = rs.randint(-6, 7, size=3) / 2.0
    if not (np.abs(f - np.trunc(f)) == 0.5).any():
        f[rs.randint(3)] += 0.5
    o = c + f @ B
    return {"kind": "distance", "boxkind": "tie_dyadic", "box": B.tolist(), "self": [c.tolist()],
            "other_kind": "point", "other": o.tolist(), "boundary": False}


# ------------------------------------------------------------------ Coq terms
def coq_target(kind, other):
    if kind == "residue":
        return "(TResidue %s)" % coq_list([v3(p) for p in other])
    return "(TPoint %s)" % v3(other)


def coq_case(self_pts, other_kind, other, box, inv, obs):
    b = "None" if box is None else "(Some %s)" % m3(box)
    o = "(Ok %s)" % fl(obs[1]) if obs[0] == "ok" else "(Err %s)" % obs[1]
    return "chk_dist %s %s %s %s %s" % (coq_list([v3(p) for p in self_pts]), coq_target(other_kind, other), b,
                                       "true" if inv else "false", o)


# ------------------------------------------------------------------ S oracle (written from the property text)
def centre(points):
    return np.mean(np.array(points, dtype=float), axis=0)


def in_domain(case):
    """quantifier: separations not within 1e-6 of an exact half box (two images tie there)"""
    B = np.array(case["box"], dtype=float)
    o = centre(case["other"]) if case["other_kind"] == "residue" else np.array(case["other"], dtype=float)
    v = o - centre(case["self"])
    f = np.linalg.solve(B.T, v)
    return frac_margin_nm(f, B) >= HALF_MARGIN


def is_ortho(B):
    return bool((B == np.diag(np.diag(B))).all() and (np.diag(B) > 0).all())


def brute_min_image(v, L):
    """minimum over the 7^3 periodic images nearest to the separation v (orthorhombic box with edges L)"""
    base = np.floor(v / L)
    rng = np.arange(-3, 4)
    m = np.array(list(itertools.product(rng, rng, rng)), dtype=float) + base
    return float(np.min(np.linalg.norm(v - m * L, axis=1)))


def shifted(points, w):
    return (np.array(points, dtype=float) + w).tolist()


def oracle_case(case, shifts):
    """list of failed clauses of the property on this input (empty = holds)"""
    bad = []
    B = np.array(case["box"], dtype=float)
    sp, ok, ot = case["self"], case["other_kind"], case["other"]
    kw = obj_kw(case)
    what = "%s%s argument" % ("same-kind " if kw["same_kind"] else "", kw["cls"] if ok == "residue" else "point")
    st, d = impl_distance(sp, ok, ot, B, False, **kw)
    if st != "ok" or not np.isfinite(d):
        return ["distance_to failed or is not finite on a non-singular box: %r" % ((st, d),)]
    tol = TOL * (1.0 + d)
    o = centre(ot) if ok == "residue" else np.array(ot, dtype=float)
    v = o - centre(sp)
    free = float(np.linalg.norm(v))
    if is_ortho(B):
        dmin = brute_min_image(v, np.diag(B))
        if abs(d - dmin) > tol:
            bad.append("orthorhombic, %s: distance %.12g is not the minimum over the periodic images %.12g" % (what, d, dmin))
        if d > free + tol:
            bad.append("orthorhombic: periodic distance %.12g exceeds the non-periodic distance %.12g" % (d, free))
    # without box: the non-periodic (Euclidean) distance of the centres; the periodic one never exceeds it (orthorhombic)
    st0, d0 = impl_distance(sp, ok, ot, None, False, **kw)
    if st0 != "ok" or abs(d0 - free) > TOL * (1.0 + free):
        bad.append("%s, no box: distance_to returned %r, the non-periodic distance of the centres is %.12g" % (what, d0, free))
    elif is_ortho(B) and d > d0 + tol:
        bad.append("orthorhombic: periodic distance %.12g exceeds distance_to without box %r" % (d, d0))
    # a residue (molecule) argument stands for its geometric centre: same value as the point there, every box form
    if ok == "residue":
        for bx, iv, lab in ((B, False, "box"), (np.linalg.inv(B), True, "inverse box"), (None, False, "no box")):
            sr, dr = impl_distance(sp, ok, ot, bx, iv, **kw)
            sq, dq = impl_distance(sp, "point", o.tolist(), bx, iv, cls=kw["cls"])
            if sr != "ok" or sq != "ok" or abs(dr - dq) > TOL * (1.0 + dq):
                bad.append("%s, %s: distance_to returned %r but %r for the point at its geometric centre" % (what, lab, dr, dq))
                break
    # symmetry
    other_pts = ot if ok == "residue" else [ot]
    st2, d2 = impl_distance(other_pts, "residue", sp, B, False, **kw)
    if st2 != "ok" or abs(d2 - d) > tol:
        bad.append("not symmetric: d(a,b)=%.12g d(b,a)=%r" % (d, d2))
    if len(sp) == 1:
        st2, d2 = impl_distance(other_pts, "point", sp[0], B, False, **kw)
        if st2 != "ok" or abs(d2 - d) > tol:
            bad.append("not symmetric (point argument): d(a,b)=%.12g d(b,a)=%r" % (d, d2))
    # inverse flag
    st3, d3 = impl_distance(sp, ok, ot, np.linalg.inv(B), True, **kw)
    if st3 != "ok" or abs(d3 - d) > tol:
        bad.append("inverse flag: distance_to(., inv(B), inv=True)=%r differs from distance_to(., B)=%.12g" % (d3, d))
    # lattice shifts of either argument
    for n in shifts:
        w = np.array(n, dtype=float) @ B
        ot_s = shifted(ot, w) if ok == "residue" else (np.array(ot, dtype=float) + w).tolist()
        st4, d4 = impl_distance(sp, ok, ot_s, B, False, **kw)
        if st4 != "ok" or abs(d4 - d) > tol:
            bad.append("changes under the lattice shift %s of the second argument: %.12g -> %r" % (list(n), d, d4))
            break
        st5, d5 = impl_distance(shifted(sp, w), ok, ot, B, False, **kw)
        if st5 != "ok" or abs(d5 - d) > tol:
            bad.append("changes under the lattice shift %s of the first argument: %.12g -> %r" % (list(n), d, d5))
            break
    return bad


# ------------------------------------------------------------------ call histories (caller's arrays are reused between calls)
POINT_FORMS = ("f64", "f64", "f64", "int", "list", "tuple")


def make_point(coords, form):
    """the point argument the way a caller may hold it"""
    if form == "f64":
        return np.array(coords, dtype=np.float64)
    if form == "int":
        return np.array([int(round(x)) for x in coords], dtype=np.int64)
    if form == "list":
        return [float(x) for x in coords]
    return tuple(float(x) for x in coords)


def point_values(p):
    return [float(x) for x in p]


def same_bits(a, snap):
    """bit-identical to the snapshot (ndarray: dtype, shape and bytes; list/tuple: type and the floats' bit patterns)"""
    if isinstance(snap, np.ndarray):
        return isinstance(a, np.ndarray) and a.dtype == snap.dtype and a.shape == snap.shape and a.tobytes() == snap.tobytes()
    return type(a) is type(snap) and len(a) == len(snap) and \
        np.array(a, dtype=np.float64).tobytes() == np.array(snap, dtype=np.float64).tobytes()


def apply_update(state, u):
    """One in-place change the caller makes between two calls.  state: dict(box, ibox, point) of the caller's objects;
    the arrays keep their identity (that is the point).  The caller keeps the inverse-box buffer in step with the box."""
    box, ibox = state["box"], state["ibox"]
    if u["what"] == "box":
        if u["op"] == "scale":
            box *= u["factor"]                              # pressure coupling
        elif u["op"] == "set":
            box[:] = np.array(u["values"], dtype=float)     # next frame written into the same buffer
        else:
            box[u["i"], u["j"]] += u["delta"]               # shear
        ibox[:] = np.linalg.inv(box)
    else:
        p = state["point"]
        vals = u["values"]
        if isinstance(p, np.ndarray):
            p[:] = np.array(vals).astype(p.dtype)
        elif isinstance(p, list):
            for i in range(3):
                p[i] = float(vals[i])
        # a tuple cannot be changed in place


def snapshot(x):
    return x.copy() if isinstance(x, np.ndarray) else type(x)(x)


HISTORY_SPECIES = ("MOL", "OTH", "PQR", "XYZ")


def history_objects(h):
    """the Residue / Molecule objects of a history; with same_kind they all carry the same names (and, having the same
    size, are `==` for the package although they sit at different places)"""
    same = bool(h.get("same_kind", False))
    if h.get("cls", "residue") == "molecule":
        return [make_molecule_obj(pts, "MOL" if same else HISTORY_SPECIES[k % 4]) for k, pts in enumerate(h["residues"])]
    if same:
        return [make_residue(pts) for pts in h["residues"]]
    return [make_residue(pts, resid=k + 1, resname="R%d" % k) for k, pts in enumerate(h["residues"])]


def run_history(h, impl=True):
    """Runs the call sequence of h on the implementation with ONE point object, ONE box array, ONE inverse-box array and
    ONE Residue object per residue, all reused between the calls and - `pre` of a call - CHANGED IN PLACE by the caller
    between calls (rescaled / overwritten / sheared box with its inverse buffer, overwritten point).
    Returns (records, bad):
      records[k] = the values the caller's arrays hold when call k starts (what the pure model is fed) and the observation;
      bad        = failed clauses: a caller's array changed by a call, or a call's value differs from the oracle's value for
                   the values the caller's arrays held when the call started.
    impl=False only simulates the caller (no implementation call): used by the generator for the quantifier's margins."""
    B0 = np.array(h["box"], dtype=float)
    state = {"box": B0.copy(), "ibox": np.linalg.inv(B0), "point": make_point(h["point"], h["point_form"])}
    box, ibox, point = state["box"], state["ibox"], state["point"]
    residues = history_objects(h) if impl else None
    snap_res = [np.array(pts, dtype=float) for pts in h["residues"]]
    records, bad, pending = [], [], []
    for k, c in enumerate(h["calls"]):
        for u in c.get("pre", ()):
            apply_update(state, u)
        snap_point, snap_box, snap_ibox = snapshot(point), box.copy(), ibox.copy()
        mode = c["box"]
        Bcur = None if mode == "none" else (np.linalg.inv(snap_ibox) if mode == "inv" else snap_box)
        if c["other"] == "point":
            okind, want_other, want_pts = "point", np.array(point_values(snap_point)), point_values(snap_point)
        else:
            okind, want_other, want_pts = "residue", snap_res[c["other"]].mean(axis=0), snap_res[c["other"]].tolist()
        v = want_other - snap_res[c["self"]].mean(axis=0)
        margin = None if Bcur is None else frac_margin_nm(np.linalg.solve(Bcur.T, v), Bcur)
        if not impl:
            records.append({"margin": margin})
            continue
        a = residues[c["self"]]
        b = point if okind == "point" else residues[c["other"]]
        cur_other = point_values(point) if okind == "point" else b.atoms_positions.tolist()
        cur_self = a.atoms_positions.tolist()
        try:
            with np.errstate(all="ignore"):
                if mode == "none":
                    d = a.distance_to(b)
                elif mode == "inv":
                    d = a.distance_to(b, ibox, True)
                else:
                    d = a.distance_to(b, box_vects=box)
            obs = ("ok", float(d))
        except np.linalg.LinAlgError:
            obs = ("err", "EDiv0")
        except ValueError:
            obs = ("err", "EValue")
        except TypeError:
            obs = ("err", "EType")
        records.append({"self": cur_self, "other_kind": okind, "other": cur_other,
                        "box": None if mode == "none" else (snap_ibox if mode == "inv" else snap_box).tolist(),
                        "inv": mode == "inv", "obs": obs})
        # (1) the caller's arrays are untouched by the call
        if not same_bits(point, snap_point):
            bad.append("call %d (%s) changed the point given by the caller (%s): %s -> %s" %
                       (k, mode, h["point_form"], point_values(snap_point), point_values(point)))
        if not same_bits(box, snap_box) or not same_bits(ibox, snap_ibox):
            bad.append("call %d (%s) changed the box array given by the caller" % (k, mode))
        for j, r in enumerate(residues):
            if not same_bits(r.atoms_positions, snap_res[j]):
                bad.append("call %d (%s) changed the atom positions of residue %d" % (k, mode, j))
        # (2) the value is the one the property fixes for the values the arrays held when the call started
        upd = " after the caller's in-place update of %s" % "+".join(sorted(set(u["what"] for u in c["pre"]))) \
            if c.get("pre") else ""
        if obs[0] != "ok" or not np.isfinite(obs[1]):
            bad.append("call %d (%s)%s failed or is not finite: %r" % (k, mode, upd, obs))
        elif mode == "none":
            free = float(np.linalg.norm(v))
            if abs(obs[1] - free) > TOL * (1 + free):
                bad.append("call %d without box%s returned %.12g, the non-periodic distance is %.12g" % (k, upd, obs[1], free))
        elif margin >= HALF_MARGIN:
            if is_ortho(Bcur):
                want = brute_min_image(v, np.diag(Bcur))
                if not abs(obs[1] - want) <= TOL * (1 + want):
                    bad.append("call %d (%s, %s argument)%s returned %.12g, the minimum over the periodic images of the current "
                               "box is %.12g" % (k, mode, okind, upd, obs[1], want))
            else:
                pending.append((k, mode, okind, upd, obs[1], snap_res[c["self"]].tolist(), want_pts, Bcur))
        if len(bad) >= 6:
            break
    # triclinic boxes: the value must be the one of the same query on fresh arrays (asked only after the whole sequence,
    # so that these extra calls cannot influence the sequence under test)
    for k, mode, okind, upd, got, sp, other, Bcur in pending:
        st, want = impl_distance(sp, okind, other, Bcur, False)
        if st != "ok" or not abs(got - want) <= TOL * (1 + want):
            bad.append("call %d (%s, %s argument)%s returned %.12g, the same query on fresh arrays gives %r" %
                       (k, mode, okind, upd, got, want))
    return records, bad


def history_in_domain(h):
    try:
        records, _ = run_history(h, impl=False)
    except np.linalg.LinAlgError:
        return False
    return all(r["margin"] is None or r["margin"] >= 2 * HALF_MARGIN for r in records)


def gen_update(rs, B, form, anchor):
    """an in-place change between two calls; B = the box the caller currently holds"""
    r = rs.randint(0, 10)
    if r < 3:
        f = float(rs.choice([rs.uniform(0.7, 1.4), 1.0 + rs.uniform(-2e-3, 2e-3), 2.0, 0.5]))
        return {"what": "box", "op": "scale", "factor": f}, B * f
    if r < 6:
        _, Bn = gen_box(rs)
        return {"what": "box", "op": "set", "values": Bn.tolist()}, Bn
    if r < 8:
        i, j = [(1, 0), (2, 0), (2, 1)][rs.randint(3)]
        delta = float(rs.uniform(-0.3, 0.3) * abs(B[j, j]) if B[j, j] else 0.1)
        Bn = B.copy()
        Bn[i, j] += delta
        return {"what": "box", "op": "shear", "i": i, "j": j, "delta": delta}, Bn
    if form == "tuple":
        return None, B
    pt = anchor + rs.uniform(-4, 4, size=3) @ B
    if form == "int":
        pt = np.round(pt)
    return {"what": "point", "op": "set", "values": [float(x) for x in pt]}, B


def gen_history(rs):
    """2-5 consecutive distance_to calls sharing one point object, one box array, one inverse-box array and the Residue
    objects; between calls the caller may change the box (+ inverse buffer) or the point IN PLACE"""
    while True:
        kind, B = gen_box(rs)
        nres = int(rs.randint(1, 4))
        same_kind = bool(rs.randint(0, 2))
        cls = "molecule" if rs.randint(0, 6) == 0 else "residue"
        heavy = bool(nres > 1 and rs.randint(0, 3) == 0)      # mostly residue/molecule arguments
        size = int(rs.choice([1, 2, 3, 5]))
        residues = []
        for _ in range(nres):
            cf = rs.uniform(-3, 3, size=3) if rs.randint(0, 4) else rs.uniform(-30, 30, size=3)
            residues.append(blob(rs, cf @ B, size if same_kind else int(rs.choice([1, 2, 3, 5]))).tolist())
        form = str(rs.choice(POINT_FORMS))
        f = rs.uniform(-4, 4, size=3)
        anchor = centre(residues[0])
        pt = anchor + f @ B
        if form == "int":
            pt = np.round(pt)
        ncalls = int(rs.randint(2, 6))
        calls = []
        Bcur = B
        sticky = str(rs.choice(["box", "inv"]))     # runs of calls with the same flag
        updated = False
        for k in range(ncalls):
            me = int(rs.randint(nres))
            if nres == 1 or (not heavy and (k < 2 or rs.randint(0, 2))) or (heavy and rs.randint(0, 4) == 0):
                other = "point"
            elif rs.randint(0, 8) == 0:
                other = me            # the object itself: distance 0 is right here
            else:
                other = int(rs.choice([j for j in range(nres) if j != me]))
            call = {"self": me, "other": other,
                    "box": sticky if rs.randint(0, 3) else str(rs.choice(["box", "inv", "none"]))}
            if k > 0 and rs.randint(0, 2):
                pre = []
                for _ in range(int(rs.choice([1, 1, 2]))):
                    u, Bcur = gen_update(rs, Bcur, form, anchor)
                    if u is not None:
                        pre.append(u)
                if pre:
                    call["pre"] = pre
                    updated = True
            calls.append(call)
        h = {"kind": "history", "boxkind": kind, "box": B.tolist(), "residues": residues,
             "point": [float(x) for x in pt], "point_form": form, "calls": calls, "updates": updated,
             "same_kind": same_kind, "cls": cls}
        if history_in_domain(h):
            return h


def history_tag(h):
    upd = any(c.get("pre") for c in h["calls"])
    return "history/%s/%s/%s%s%s" % ("ortho" if h["boxkind"].startswith("ortho") else "tric", h["point_form"],
                                     "updated_in_place" if upd else "arrays_constant",
                                     "/same_kind" if h.get("same_kind") else "", "/molecule" if h.get("cls") == "molecule" else "")


# seeded/C19-4 (dropped copy): np.asarray(point, dtype=float) is the caller's own float64 array and `vect -= centre`
# overwrote it; 1.208305 on the first call, 1.407125 on the second call with the same residue, point and box
CORPUS_HISTORIES = [
    {"kind": "history", "boxkind": "ortho", "box": np.diag([2.0, 3.0, 2.5]).tolist(),
     "residues": [[[0.2, 0.3, 0.1], [0.4, 0.1, 0.3], [0.3, 0.5, 0.2]], [[1.9, 2.6, 6.1]]],
     "point": [1.9, 2.6, 6.1], "point_form": "f64",
     "calls": [{"self": 0, "other": "point", "box": "box"}, {"self": 0, "other": "point", "box": "box"},
               {"self": 0, "other": "point", "box": "none"}, {"self": 0, "other": "point", "box": "inv"},
               {"self": 1, "other": 0, "box": "box"}, {"self": 1, "other": "point", "box": "box"}]},
    {"kind": "history", "boxkind": "tric_gromacs", "box": [[3.0, 0.0, 0.0], [1.0, 4.0, 0.0], [-1.0, 1.5, 5.0]],
     "residues": [[[0.1, 0.2, 0.3], [0.5, 0.2, 0.1]]], "point": [7.0, 9.0, -14.0], "point_form": "int",
     "calls": [{"self": 0, "other": "point", "box": "inv"}, {"self": 0, "other": "point", "box": "box"},
               {"self": 0, "other": "point", "box": "none"}]},
]


# seeded/C19-5 (remembered inverse keyed on the caller's own box array): 3 nm box, the same array overwritten in place
# with a 10 nm box, second call used the old inverse with the new box (3.4157 > non-periodic 2.0125); the same for the
# inverse buffer with inv=True and for a triclinic box rescaled in place (box *= 1.37)
_DEMO5_RES = [[[0.45, 0.68, 1.11], [0.35, 0.72, 1.09]], [[2.45, 0.88, 1.01], [2.35, 0.92, 0.99]]]
CORPUS_HISTORIES += [
    {"kind": "history", "boxkind": "ortho", "box": np.diag([3.0, 3.0, 3.0]).tolist(), "residues": _DEMO5_RES,
     "point": [12.4, -19.1, 31.0], "point_form": "f64",
     "calls": [{"self": 0, "other": 1, "box": "box"},
               {"self": 0, "other": 1, "box": "box",
                "pre": [{"what": "box", "op": "set", "values": np.diag([10.0, 10.0, 10.0]).tolist()}]},
               {"self": 1, "other": 0, "box": "box"},
               {"self": 0, "other": "point", "box": "box"},
               {"self": 0, "other": 1, "box": "none"},
               {"self": 0, "other": 1, "box": "inv",
                "pre": [{"what": "box", "op": "set", "values": np.diag([3.0, 3.0, 3.0]).tolist()}]},
               {"self": 0, "other": 1, "box": "inv",
                "pre": [{"what": "box", "op": "set", "values": np.diag([2.5, 4.0, 6.0]).tolist()}]},
               {"self": 0, "other": 1, "box": "box"}]},
    {"kind": "history", "boxkind": "tric_gromacs", "box": [[3.0, 0.0, 0.0], [0.6, 3.2, 0.0], [-0.5, 0.7, 2.8]],
     "residues": _DEMO5_RES, "point": [2.4, 0.9, 1.0], "point_form": "f64",
     "calls": [{"self": 0, "other": 1, "box": "box"},
               {"self": 0, "other": 1, "box": "box", "pre": [{"what": "box", "op": "scale", "factor": 1.37}]},
               {"self": 0, "other": "point", "box": "box",
                "pre": [{"what": "point", "op": "set", "values": [2.4 + 2 * 4.11 + 0.822 - (-0.685), 0.9 + 4.384 - 0.959, 1.0 - 3.836]}]},
               {"self": 0, "other": "point", "box": "inv",
                "pre": [{"what": "box", "op": "shear", "i": 1, "j": 0, "delta": 0.25}]}]},
]


def report_history(ctx, h, bad):
    if len(ctx.violations) >= MAX_REPLAYS:
        ctx.cov["S"]["violations_not_written"] = ctx.cov["S"].get("violations_not_written", 0) + 1
        return
    ctx.violation("Residue.distance_to, call sequence on shared arrays: " + "; ".join(bad[:4]), h, key="distance_to_history")



ALL_SHIFTS = [n for n in itertools.product(range(-3, 4), repeat=3) if any(n)]


def pick_shifts(rs, k):
    if k >= len(ALL_SHIFTS):
        return ALL_SHIFTS
    idx = rs.choice(len(ALL_SHIFTS), size=k, replace=False)
    return [ALL_SHIFTS[i] for i in idx]


MAX_REPLAYS = 12


def report(ctx, case, bad):
    """one replay file per failing input, at most MAX_REPLAYS per run (the rest is only counted)"""
    if len(ctx.violations) >= MAX_REPLAYS:
        ctx.cov["S"]["violations_not_written"] = ctx.cov["S"].get("violations_not_written", 0) + 1
        return
    ctx.violation("Residue.distance_to: " + "; ".join(bad), case, key="distance_to")


# ------------------------------------------------------------------ check entry points
CORPUS = [
    # D3 (repaired by b365325): box diag(3,4,5), separation (1,0,0) gave 0.111 instead of 1
    ({"kind": "distance", "boxkind": "ortho", "box": np.diag([3.0, 4.0, 5.0]).tolist(), "self": [[0.0, 0.0, 0.0]],
      "other_kind": "residue", "other": [[1.0, 0.0, 0.0]]}, 1.0),
    ({"kind": "distance", "boxkind": "ortho", "box": np.diag([3.0, 4.0, 5.0]).tolist(), "self": [[0.0, 0.0, 0.0]],
      "other_kind": "point", "other": [2.0, 0.0, 0.0]}, 1.0),
    # rational witness of DESIGN.md: B = diag(2,2,2), v = (1/2,0,0) gave 1/8
    ({"kind": "distance", "boxkind": "ortho", "box": np.diag([2.0, 2.0, 2.0]).tolist(), "self": [[0.25, 0.5, 0.5], [0.75, 0.5, 0.5]],
      "other_kind": "point", "other": [1.0, 0.5, 0.5]}, 0.5),
    ({"kind": "distance", "boxkind": "ortho", "box": np.diag([3.0, 4.0, 5.0]).tolist(), "self": [[0.1, 0.2, 0.3]],
      "other_kind": "residue", "other": [[2.9, 3.9, 4.9], [3.1, 4.1, 5.1]]}, float(np.sqrt(0.01 + 0.04 + 0.09))),
    ({"kind": "distance", "boxkind": "tric_gromacs", "box": [[3.0, 0.0, 0.0], [1.0, 4.0, 0.0], [-1.0, 1.5, 5.0]],
      "self": [[0.1, 0.2, 0.3]], "other_kind": "point", "other": [7.3, 9.1, -14.2]}, None),
    # seeded/C19-9 (`if residue == self: return 0.0`; == compares names, not positions): a 3-atom residue and a displaced
    # copy of it in box diag(3,4,5) were reported at distance 0 instead of 2.0322; the same for two molecules of one species
    ({"kind": "distance", "boxkind": "ortho", "box": np.diag([3.0, 4.0, 5.0]).tolist(),
      "self": [[0.40, 0.50, 0.60], [0.50, 0.55, 0.60], [0.45, 0.60, 0.70]], "other_kind": "residue",
      "other": [[1.40, 3.20, -0.60], [1.50, 3.25, -0.60], [1.45, 3.30, -0.50]], "cls": "residue", "same_kind": True},
     float(np.sqrt(1.0 + 1.3 ** 2 + 1.2 ** 2))),
    ({"kind": "distance", "boxkind": "ortho", "box": np.diag([3.0, 4.0, 5.0]).tolist(),
      "self": [[0.40, 0.50, 0.60], [0.50, 0.55, 0.60], [0.45, 0.60, 0.70]], "other_kind": "residue",
      "other": [[1.40, 3.20, -0.60], [1.50, 3.25, -0.60], [1.45, 3.30, -0.50]], "cls": "molecule", "same_kind": True},
     float(np.sqrt(1.0 + 1.3 ** 2 + 1.2 ** 2))),
    ({"kind": "distance", "boxkind": "tric_gromacs", "box": [[3.0, 0.0, 0.0], [1.0, 4.0, 0.0], [-1.0, 1.5, 5.0]],
      "self": [[0.1, 0.2, 0.3], [0.3, 0.2, 0.1]], "other_kind": "residue", "other": [[7.2, 9.1, -14.1], [7.4, 9.1, -14.3]],
      "cls": "residue", "same_kind": True}, None),
]


def corpus(ctx):
    S = ctx.cov["S"]
    S["corpus"] = 0
    for case, expected in CORPUS:
        bad = oracle_case(case, ALL_SHIFTS)
        if expected is not None:
            st, d = impl_distance(case["self"], case["other_kind"], case["other"], np.array(case["box"]), False, **obj_kw(case))
            if st != "ok" or abs(d - expected) > TOL:
                bad.append("expected the minimum-image distance %.12g, got %r" % (expected, d))
        S["corpus"] += 1
        ctx.count(("corpus", repr(case)))
        if bad:
            report(ctx, case, bad)
    for h in CORPUS_HISTORIES:
        _, bad = run_history(h)
        S["corpus"] += 1
        ctx.count(("corpus", repr(h)))
        if bad:
            report_history(ctx, h, bad)


def correspondence(ctx):
    rs = ctx.np_rng("K")
    n_gen = ctx.n(3000, 24000)
    cases, meta, hist = [], [], {}

    def add(case, box, inv, tag, nontrivial=True):
        obs = impl_distance(case["self"], case["other_kind"], case["other"], box, inv, **obj_kw(case))
        cases.append(coq_case(case["self"], case["other_kind"], case["other"], box, inv, obs))
        m = dict(case, inv=bool(inv), variant=tag, observed=list(obs))
        if box is None:
            m["nobox"] = True
        elif inv:
            m["box_argument"] = np.array(box).tolist()
        meta.append(m)
        hist[tag] = hist.get(tag, 0) + 1
        ctx.count(("K", tag, repr(case), inv), nontrivial)
        return obs

    wrapped = 0
    for case, _ in CORPUS:
        add(case, np.array(case["box"]), False, "corpus")
    for k in range(n_gen):
        case = gen_case(rs)
        B = np.array(case["box"])
        inv = bool(rs.randint(0, 3) == 0)
        tag = "%s/%s/%s%s" % (case["boxkind"], arg_tag(case), "inv" if inv else "box", "/boundary" if case["boundary"] else "")
        obs = add(case, np.linalg.inv(B) if inv else B, inv, tag)
        o = centre(case["other"]) if case["other_kind"] == "residue" else np.array(case["other"])
        if obs[0] == "ok" and abs(obs[1] - np.linalg.norm(o - centre(case["self"]))) > 1e-9:
            wrapped += 1
        if k % 10 == 0 or (case.get("same_kind") and k % 3 == 0):
            add(case, None, False, "nobox" + ("/same_kind" if case.get("same_kind") else ""), nontrivial=False)
        # S on a part of the same cases
        if k % 4 == 0 and in_domain(case):
            ctx.cov["S"]["on_K_cases"] = ctx.cov["S"].get("on_K_cases", 0) + 1
            bad = oracle_case(case, pick_shifts(rs, 4))
            if bad:
                report(ctx, case, bad)
    for _ in range(ctx.n(40, 400)):
        B = gen_singular(rs)
        case = gen_pair(rs, np.diag([3.0, 4.0, 5.0]))
        case.update(kind="distance", boxkind="singular", box=B.tolist(), boundary=False)
        add(case, B, bool(rs.randint(0, 2)), "singular")
    for _ in range(ctx.n(60, 600)):
        case = gen_tie(rs)
        B = np.array(case["box"])
        obs = impl_distance(case["self"], case["other_kind"], case["other"], B, False)
        cases.append(coq_case(case["self"], case["other_kind"], case["other"], B, False, obs).replace("chk_dist", "chk_dist_exact", 1))
        meta.append(dict(case, inv=False, variant="tie_dyadic", observed=list(obs)))
        hist["tie_dyadic"] = hist.get("tie_dyadic", 0) + 1
        ctx.count(("K", "tie", repr(case)))
    # call histories: each call is an ordinary case fed the values the caller's arrays hold when the call starts
    # (the model is pure); S decides on the same run whether the arrays were left alone and the values are right
    n_hcalls = 0
    for h in list(CORPUS_HISTORIES) + [gen_history(rs) for _ in range(ctx.n(300, 3000))]:
        records, bad = run_history(h)
        for k, r in enumerate(records):
            cases.append(coq_case(r["self"], r["other_kind"], r["other"], r["box"], r["inv"], r["obs"]))
            meta.append({"kind": "history", "history": h, "call": k, "fed": {x: r[x] for x in ("self", "other", "box", "inv")},
                         "observed": list(r["obs"])})
            n_hcalls += 1
        tag = history_tag(h)
        hist[tag] = hist.get(tag, 0) + 1
        ctx.count(("K", "history", repr(h)))
        ctx.cov["S"]["histories_on_K_cases"] = ctx.cov["S"].get("histories_on_K_cases", 0) + 1
        if bad:
            report_history(ctx, h, bad)
    # the empty residue cannot be built: ValueError <-> Err EValue
    for sp, ok, ot in (([], "point", [1.0, 2.0, 3.0]), ([[0.0, 0.0, 0.0]], "residue", [])):
        case = {"kind": "distance", "boxkind": "ortho", "box": np.diag([3.0, 4.0, 5.0]).tolist(), "self": sp,
                "other_kind": ok, "other": ot, "boundary": False}
        add(case, np.array(case["box"]), False, "empty_residue", nontrivial=False)
    # geometric_center alone
    for _ in range(ctx.n(50, 500)):
        pts = blob(rs, rs.uniform(-50, 50, size=3), int(rs.randint(1, 9)))
        g = make_residue(pts).geometric_center
        cases.append("chk_center %s (Ok %s)" % (coq_list([v3(p) for p in pts]), v3(g)))
        meta.append({"kind": "geometric_center", "points": pts.tolist(), "observed": g.tolist()})
        hist["geometric_center"] = hist.get("geometric_center", 0) + 1
        ctx.count(("K", "center", repr(pts.tolist())), False)
    ctx.sample(meta[0])
    ctx.sample(meta[len(CORPUS) + 1])
    ctx.sample(meta[len(CORPUS) + 7])
    codes, log = lib.run_coq_cases(ctx.cid, "K", HEADER, cases)
    K = ctx.cov["K"]
    K["cases"] = len(cases)
    K["wrapped_nearest_image_differs_from_separation"] = wrapped
    K["calls_in_histories"] = n_hcalls
    K["input_distribution"] = hist
    K["log"] = log
    if codes is None:
        K["error"] = log
        return [{"error": "coqc failed on the correspondence cases", "log": log[-1500:]}]
    K["disagree"] = sum(1 for c in codes.values() if c in (1, 3))
    K["indeterminate"] = sum(1 for c in codes.values() if c == 2)
    K["agree"] = len(cases) - len(codes)
    dis = [dict(meta[i], code=c) for i, c in sorted(codes.items()) if c in (1, 3)]
    # DESIGN 4.5: the property oracle decides on every disagreeing input
    for d in dis[:50]:
        if d.get("kind") == "history":
            _, bad = run_history(d["history"])
            if bad:
                report_history(ctx, d["history"], bad)
        elif d.get("kind") == "distance" and d["boxkind"] not in ("singular", "tie_dyadic") and d["self"] and d["other"] \
                and in_domain(d):
            bad = oracle_case(d, ALL_SHIFTS)
            if bad:
                report(ctx, d, bad)
    return dis


def oracle(ctx, scale):
    rs = ctx.np_rng("S%d" % scale)
    S = ctx.cov["S"]
    n = ctx.n(1500, 10000) * scale
    n_full = ctx.n(40, 400) * scale
    fails = skipped = 0
    hist = S.setdefault("input_distribution", {})
    for k in range(n):
        case = gen_case(rs)
        if not in_domain(case):
            skipped += 1
            continue
        shifts = ALL_SHIFTS if k < n_full else pick_shifts(rs, 8)
        bad = oracle_case(case, shifts)
        tag = "%s/%s%s" % (case["boxkind"], arg_tag(case), "/boundary" if case["boundary"] else "")
        hist[tag] = hist.get(tag, 0) + 1
        ctx.count(("S", repr(case)))
        if bad:
            fails += 1
            report(ctx, case, bad)
    n_hist = ctx.n(500, 5000) * scale
    for _ in range(n_hist):
        h = gen_history(rs)
        _, bad = run_history(h)
        tag = history_tag(h)
        hist[tag] = hist.get(tag, 0) + 1
        ctx.count(("S", repr(h)))
        if bad:
            fails += 1
            report_history(ctx, h, bad)
    S["call_histories_x%d" % scale] = n_hist
    S["cases_x%d" % scale] = n - skipped
    S["cases_with_all_342_shifts_x%d" % scale] = n_full
    S["outside_quantifier_skipped"] = S.get("outside_quantifier_skipped", 0) + skipped
    S["failures"] = S.get("failures", 0) + fails


def replay(ctx, obj):
    r = obj["replay"]
    if r.get("kind") == "history" and "history" in r:      # a K disagreement inside a history
        r = r["history"]
    if r.get("kind") == "history":
        _, bad = run_history(r)
        print(bad)
        return not bad
    if r.get("kind") != "distance" or "box" not in r:
        print("replay names a proof/correspondence, not an input:", r)
        return False
    if not in_domain(r):
        print("input is outside the quantifier (separation within 1e-6 nm of a half box)")
        return True
    bad = oracle_case(r, ALL_SHIFTS)
    print(bad)
    return not bad


def finish(ctx):
    ctx.assumptions = [
        "theorems are exact statements over the real numbers; IEEE rounding is modelled, not verified: the 1e-9 tolerances of the "
        "property are checked on the implementation by the S oracle (testing)",
        "np.linalg.inv (LAPACK LU) is modelled by adjugate/determinant: equal over the reals, compared within 1e-9 relative in K; "
        "'singular' means determinant = 0 in the model and LinAlgError in numpy (K uses boxes where both are exact)",
        "separations within 1e-6 nm of a half box are outside the property; K counts rounding decisions closer than 2^-30 "
        "(fractional) to a tie as indeterminate",
        "the model is a pure function of values: that distance_to leaves the caller's point/box/position arrays untouched and does "
        "not depend on earlier calls is decided by the S oracle on call histories (testing)",
        "C19_lattice_invariant needs fractional coordinates that are not half-integers for a general box (round-half-even: "
        "round(1/2)=0 but round(3/2)=2); for orthorhombic boxes C19_lattice_invariant_ortho has no such hypothesis",
    ]
    return ctx.finish(level="proof", rule=RULE,
                      trusted=["numpy evaluation order of mean/dot/norm and the 3x3 inverse written out by hand in coq/Model/Pbc.v",
                               "np.round = round-half-even = Flocq ZnearestE at R, (x + 2^52) - 2^52 in binary64"])
