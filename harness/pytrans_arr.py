"""Fail-closed translator for the array kernels of Chi2Calculator (gaddlemaps/_backend.py): the four methods that
EVALUATE the measure (chi2_molecules, _chi2_molecules_restrains_contrib, _chi2_molecules_only_restrains,
_chi2_molecules_with_restrains).  Second tie, DESIGN.md 4.6.  The constructor (path selection, mask, gathers) stays
tied by K only.

numpy calls keep their hand-written models from coq/Model/Chi2.v:
  cdist(A, B, 'sqeuclidean')                    dist_rows A B
  D.min(axis=1), D.argmin(axis=1)               map fst / map snd of (row_mins D ncols)   (first index of the minimum;
                                                ValueError -> Err EValue on a zero-length axis; bound once, right
                                                after D is defined, because both reductions raise on the same inputs)
  np.sum(<list of scalars>)                     ssum
  np.sum((A - B)**2)   (A, B arrays of points)  ssum (map2 vdist2 A B)
  X[idx]  (idx an index array)                  gather X idx   (IndexError -> Err EIndex)
  len(X), len(set(I)), S.union(I)               Z.of_nat (length ..), distinct, ++
  1.1 ** n  (n a Python int)                    spow_Z (sofQ 11 10) n
  `if n:` on an int                             Z.eqb n 0
Types: LV (array of points), MAT (distance matrix), LS (list of scalars), LN (index array / set of indices), ZI (int), S.
"""
import ast
import textwrap
from fractions import Fraction


class Unsupported(Exception):
    pass


LV, MAT, LS, LN, ZI, S = "LV", "MAT", "LS", "LN", "ZI", "S"
COQ_TY = {LV: "list (V3 T)", LN: "list nat", ZI: "Z", S: "T"}


class Tr:
    def __init__(self, attrs, methods):
        self.attrs = attrs        # "self.x" -> (coq name, type)
        self.methods = methods    # "self.m" -> (coq name, arg types, result type, partial)
        self.ncols = {}           # matrix name -> coq text of its number of columns
        self.used_attrs = []

    def attr(self, key):
        if key not in self.attrs:
            raise Unsupported("unknown attribute %s" % key)
        if key not in self.used_attrs:
            self.used_attrs.append(key)
        return self.attrs[key]

    def expr(self, n, env):
        """(text, type, partial)"""
        if isinstance(n, ast.Name):
            if n.id not in env:
                raise Unsupported("unknown name %s" % n.id)
            return env[n.id][0], env[n.id][1], False
        if isinstance(n, ast.Attribute) and isinstance(n.value, ast.Name) and n.value.id == "self":
            t, ty = self.attr("self." + n.attr)
            return t, ty, False
        if isinstance(n, ast.Constant) and isinstance(n.value, float):
            fr = Fraction(repr(n.value))
            return "(sofQ (%d)%%Z (%d)%%Z)" % (fr.numerator, fr.denominator), S, False
        if isinstance(n, ast.Subscript) and not isinstance(n.slice, (ast.Slice, ast.Constant)):
            a, ta, pa = self.expr(n.value, env)
            i, ti, pi = self.expr(n.slice, env)
            if pa or pi or ta != LV or ti != LN:
                raise Unsupported("fancy indexing form")
            return "(gather %s %s)" % (a, i), LV, True
        if isinstance(n, ast.BinOp):
            if isinstance(n.op, ast.Pow):
                b, tb, pb = self.expr(n.left, env)
                e, te, pe = self.expr(n.right, env)
                if pb or pe or tb != S or te != ZI:
                    raise Unsupported("power form")
                return "(spow_Z %s %s)" % (b, e), S, False
            a, ta, pa = self.expr(n.left, env)
            b, tb, pb = self.expr(n.right, env)
            if pa or pb:
                raise Unsupported("partial operand")
            if isinstance(n.op, ast.Sub) and (ta, tb) == (ZI, ZI):
                return "(%s - %s)%%Z" % (a, b), ZI, False
            if isinstance(n.op, ast.Add) and (ta, tb) == (S, S):
                return "(sadd %s %s)" % (a, b), S, False
            if isinstance(n.op, ast.Mult) and (ta, tb) == (S, S):
                return "(smul %s %s)" % (a, b), S, False
            raise Unsupported("operator on %s, %s" % (ta, tb))
        if isinstance(n, ast.Call):
            return self.call(n, env)
        raise Unsupported("expression %s" % type(n).__name__)

    def call(self, n, env):
        f, a = n.func, n.args
        if isinstance(f, ast.Name) and f.id == "cdist" and len(a) == 3 and isinstance(a[2], ast.Constant) \
                and a[2].value == "sqeuclidean":
            x, tx, px = self.expr(a[0], env)
            y, ty, py = self.expr(a[1], env)
            if px or py or tx != LV or ty != LV:
                raise Unsupported("cdist arguments")
            return "(dist_rows %s %s)" % (x, y), MAT, False, ("(length %s)" % y)
        if isinstance(f, ast.Name) and f.id == "len" and len(a) == 1:
            if isinstance(a[0], ast.Call) and isinstance(a[0].func, ast.Name) and a[0].func.id == "set":
                x, tx, px = self.expr(a[0].args[0], env)
                if px or tx != LN:
                    raise Unsupported("len(set(..)) argument")
                return "(Z.of_nat (length (distinct %s)))" % x, ZI, False
            x, tx, px = self.expr(a[0], env)
            if px:
                raise Unsupported("len of a partial value")
            if tx == LV:
                return "(Z.of_nat (length %s))" % x, ZI, False
            if tx == LN:    # a set of indices (already distinct by construction: set.union result)
                return "(Z.of_nat (length (distinct %s)))" % x, ZI, False
            raise Unsupported("len of %s" % tx)
        if isinstance(f, ast.Attribute) and f.attr == "union" and len(a) == 1:
            s, ts, ps = self.expr(f.value, env)
            x, tx, px = self.expr(a[0], env)
            if ps or px or ts != LN or tx != LN:
                raise Unsupported("union arguments")
            return "(%s ++ %s)" % (s, x), LN, False
        if isinstance(f, ast.Attribute) and f.attr in ("min", "argmin") and isinstance(f.value, ast.Name) \
                and not a and len(n.keywords) == 1 and n.keywords[0].arg == "axis" \
                and isinstance(n.keywords[0].value, ast.Constant) and n.keywords[0].value.value == 1:
            m = f.value.id
            if m not in env or env[m][1] != MAT:
                raise Unsupported("reduction of a non-matrix")
            return "(map %s mins_%s)" % ("fst" if f.attr == "min" else "snd", m), (LS if f.attr == "min" else LN), False
        if isinstance(f, ast.Attribute) and isinstance(f.value, ast.Name) and f.value.id in ("np", "numpy") and f.attr == "sum" \
                and len(a) == 1:
            arg = a[0]
            # np.sum((A - B)**2) on two arrays of points
            if isinstance(arg, ast.BinOp) and isinstance(arg.op, ast.Pow) and isinstance(arg.right, ast.Constant) \
                    and arg.right.value == 2 and isinstance(arg.left, ast.BinOp) and isinstance(arg.left.op, ast.Sub):
                x, tx, px = self.expr(arg.left.left, env)
                y, ty, py = self.expr(arg.left.right, env)
                if px or py or tx != LV or ty != LV:
                    raise Unsupported("np.sum((A-B)**2) arguments")
                return "(ssum (map2 vdist2 %s %s))" % (x, y), S, False
            x, tx, px = self.expr(arg, env)
            if px or tx != LS:
                raise Unsupported("np.sum argument")
            return "(ssum %s)" % x, S, False
        if isinstance(f, ast.Attribute) and isinstance(f.value, ast.Name) and f.value.id == "self" \
                and ("self." + f.attr) in self.methods:
            cn, atys, rty, partial = self.methods["self." + f.attr]
            ts = []
            for arg, want in zip(a, atys):
                x, tx, px = self.expr(arg, env)
                if px or tx != want:
                    raise Unsupported("argument of %s" % f.attr)
                ts.append(x)
            return "(%s %s)" % (cn, " ".join(ts)), rty, partial
        raise Unsupported("call %s" % ast.unparse(f))

    def block(self, stmts, env):
        if not stmts:
            raise Unsupported("no return")
        s, rest = stmts[0], stmts[1:]
        if isinstance(s, ast.Expr) and isinstance(s.value, ast.Constant) and isinstance(s.value.value, str):
            return self.block(rest, env)
        if isinstance(s, ast.Return):
            if rest:
                raise Unsupported("statements after return")
            r = self.expr(s.value, env)
            if r[1] != S:
                raise Unsupported("return type %s" % r[1])
            return ("%s" % r[0]) if r[2] else ("Ok %s" % r[0])
        if isinstance(s, ast.Assign) and len(s.targets) == 1 and isinstance(s.targets[0], ast.Name):
            return self.bind(s.targets[0].id, s.value, env, rest)
        if isinstance(s, ast.AugAssign) and isinstance(s.target, ast.Name):
            op = ast.BinOp(left=ast.Name(id=s.target.id, ctx=ast.Load()), op=s.op, right=s.value)
            return self.bind(s.target.id, op, env, rest)
        if isinstance(s, ast.If) and isinstance(s.test, ast.Name) and not s.orelse and len(s.body) == 1 \
                and isinstance(s.body[0], ast.AugAssign) and isinstance(s.body[0].target, ast.Name):
            c, tc, _ = self.expr(s.test, env)
            if tc != ZI:
                raise Unsupported("truth value of %s" % tc)
            tgt = s.body[0].target.id
            op = ast.BinOp(left=ast.Name(id=tgt, ctx=ast.Load()), op=s.body[0].op, right=s.body[0].value)
            v, tv, pv = self.expr(op, env)
            if pv or tv != env[tgt][1]:
                raise Unsupported("conditional update")
            return "let %s := (if Z.eqb %s 0 then %s else %s) in\n%s" % (tgt, c, env[tgt][0], v, self.block(rest, env))
        raise Unsupported("statement %s" % type(s).__name__)

    def bind(self, name, value, env, rest):
        r = self.expr(value, env)
        env2 = dict(env)
        env2[name] = (name, r[1])
        txt = "let%s %s := %s in\n" % ("*" if r[2] else "", name, r[0])
        if r[1] == MAT:
            # bind the row reductions once: both .min(axis=1) and .argmin(axis=1) raise ValueError on a zero-length axis
            txt += "let* mins_%s := row_mins %s %s in\n" % (name, name, r[3])
        return txt + self.block(rest, env2)


def translate(source, cls, pyname, coqname, params, attrs, methods):
    tree = ast.parse(textwrap.dedent(source))
    node = None
    for c in ast.walk(tree):
        if isinstance(c, ast.ClassDef) and c.name == cls:
            for m in c.body:
                if isinstance(m, ast.FunctionDef) and m.name == pyname:
                    node = m
    if node is None:
        raise Unsupported("method %s.%s not found" % (cls, pyname))
    if [a.arg for a in node.args.args] != ["self"] + [p for p, _ in params]:
        raise Unsupported("%s: parameters changed" % pyname)
    tr = Tr(attrs, methods)
    env = {p: (p, ty) for p, ty in params}
    body = tr.block(node.body, env)
    binders = ["(%s : %s)" % (attrs[k][0], COQ_TY[attrs[k][1]]) for k in attrs if k in tr.used_attrs]
    # attributes used by called methods are passed through
    binders += ["(%s : %s)" % (p, COQ_TY[ty]) for p, ty in params]
    return "Definition %s %s : res T :=\n%s.\n" % (coqname, " ".join(binders), textwrap.indent(body, "  ")), tr.used_attrs


HEADER = """(* GENERATED at every run from the source text of /repo by harness/pytrans_arr.py.  Do not edit.
   The evaluating methods of Chi2Calculator; numpy calls keep their hand-written models (Model/Chi2.v). *)
From Coq Require Import ZArith List.
From GM Require Import Base.Res Base.Scalar Base.Vec Model.Chi2.
Import ListNotations.
Local Open Scope scalar_scope.

Section Chi2Gen.
Context {T : Type} `{Scalar T}.

"""


def generate(repo):
    import os
    src = open(os.path.join(repo, "gaddlemaps", "_backend.py")).read()
    attrs = {
        "self._mol1_positions": ("mol1_positions", LV),
        "self._mol1_not_restriction": ("mol1_not_restriction", LV),
        "self._mol1_restriction": ("mol1_restriction", LV),
        "self.restriction2": ("restriction2", LN),
        "self.set_restriction2": ("set_restriction2", LN),
        "self.len_mol2": ("len_mol2", ZI),
        "self.n_cg_far_fact": ("n_cg_far_fact", S),
    }
    out = [HEADER]
    t, used = translate(src, "Chi2Calculator", "chi2_molecules", "chi2_molecules_gen", [("mol2", LV)], attrs, {})
    out.append(t)
    t, used_c = translate(src, "Chi2Calculator", "_chi2_molecules_restrains_contrib", "restrains_contrib_gen",
                          [("mol2", LV)], attrs, {})
    out.append(t)
    # the contribution method is called with the attributes it uses, in the order of the attrs table
    carg = " ".join(attrs[k][0] for k in attrs if k in used_c)
    methods = {"self._chi2_molecules_restrains_contrib": ("restrains_contrib_gen " + carg, [LV], S, True)}

    def with_contrib(pyname, coqname):
        text, used_m = translate(src, "Chi2Calculator", pyname, coqname, [("mol2", LV)], attrs, methods)
        # add binders for the attributes the called method needs and the caller did not mention
        missing = [k for k in attrs if k in used_c and k not in used_m]
        extra = " ".join("(%s : %s)" % (attrs[k][0], COQ_TY[attrs[k][1]]) for k in missing)
        return text.replace("Definition %s " % coqname, "Definition %s %s " % (coqname, extra), 1)
    out.append(with_contrib("_chi2_molecules_only_restrains", "only_restrains_gen"))
    out.append(with_contrib("_chi2_molecules_with_restrains", "with_restrains_gen"))
    out.append("End Chi2Gen.\n")
    return "\n".join(out)


if __name__ == "__main__":
    import sys
    print(generate(sys.argv[1] if len(sys.argv) > 1 else "/repo"))
