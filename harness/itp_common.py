"""Shared by c15.py / c16.py: Coq term writers for text, generators of topology files with ground truth,
drivers of the implementation (ItpFile, read_topology, MoleculeTop, are_connected) and size-aware sharding."""
import os

import lib
import molgen

# ------------------------------------------------------------------ Coq terms
_SAFE = set(range(32, 127)) | {10, 9}


def cs(s):
    """Coq `string` term for an ASCII python str (newlines and tabs are written raw inside the literal)."""
    if all(ord(ch) in _SAFE for ch in s):
        return '"' + s.replace('"', '""') + '"'
    parts, cur = [], []
    for ch in s:
        if ord(ch) in _SAFE:
            cur.append('""' if ch == '"' else ch)
        else:
            if cur:
                parts.append('"' + "".join(cur) + '"')
                cur = []
            if ord(ch) > 127:
                raise ValueError("non-ASCII text is outside the model")
            parts.append('(String.String (Ascii.ascii_of_nat %d) String.EmptyString)' % ord(ch))
    if cur:
        parts.append('"' + "".join(cur) + '"')
    term = parts[-1]
    for p in reversed(parts[:-1]):
        term = "(String.append %s %s)" % (p, term)
    return term


def cz(n):
    return "(%d)%%Z" % int(n)


def cn(n):
    return "%d%%N" % int(n)


def cb(b):
    return "true" if b else "false"


def clist(items):
    return "[" + "; ".join(items) + "]"


ERR_TABLE = [(RecursionError, "ERecursion"), (IndexError, "EIndex"), (KeyError, "EKey"), (ValueError, "EValue"),
             (TypeError, "EType"), (AttributeError, "EType"), (OSError, "EIO")]


def err_class(ex):
    for cls, name in ERR_TABLE:
        if isinstance(ex, cls):
            return name
    return "ESystem"


def cres(obs, okterm):
    """obs = ('ok', value) | ('err', class name)"""
    if obs[0] == "ok":
        return "(Ok %s)" % okterm(obs[1])
    return "(Err %s)" % obs[1]


def guarded(fn):
    try:
        return ("ok", fn())
    except RecursionError:
        return ("err", "ERecursion")
    except Exception as ex:   # noqa: BLE001 - the class is the observation
        return ("err", err_class(ex))


# ------------------------------------------------------------------ files
def write_text(text, crlf=False, ext="itp", path=None):
    """writes `text` (\\n newlines) to a fresh file (or OVER the given path: call histories on one scratch name);
    crlf: with \\r\\n line ends (Python reads it back as \\n)"""
    if path is None:
        path = molgen.fresh_path(ext, "t")
    with open(path, "w", newline="") as f:
        f.write(text.replace("\n", "\r\n") if crlf else text)
    return path


def read_text(path):
    """the text as Python's universal-newline file iterator presents it to the parser"""
    with open(path, encoding="utf-8") as f:
        return f.read()


# ------------------------------------------------------------------ implementation drivers
def obs_itpfile(path):
    """('ok', (header, [(name, len(section), [(content, comment, str(line))...])...])) | ('err', cls)"""
    from gaddlemaps.parsers import ItpFile

    def run():
        f = ItpFile(path)
        secs = []
        for name, sec in f.items():
            if name == "header":
                continue
            secs.append((name, len(sec), [(l.content, l.comment, str(l)) for l in sec.lines]))
        return (list(f["header"]), secs), f
    r = guarded(run)
    if r[0] == "err":
        return r, None
    return ("ok", r[1][0]), r[1][1]


def obs_itp_term(v):
    hdr, secs = v
    return "(%s, %s)" % (
        clist(cs(h) for h in hdr),
        clist("(%s, %s, %s)" % (cs(n), cn(k), clist("(%s, %s, %s)" % (cs(c), cs(m), cs(l)) for c, m, l in ls))
              for n, k, ls in secs))


def obs_topology(path):
    from gaddlemaps.parsers import read_topology
    return guarded(lambda: read_topology(path))


def obs_top_term(v):
    name, atoms, bonds = v
    return "(%s, %s, %s)" % (cs(name), clist("(%s, %s, %s)" % (cs(a), cs(r), cz(i)) for a, r, i in atoms),
                             clist("(%s, %s)" % (cz(a), cz(b)) for a, b in bonds))


def obs_molecule(path):
    """MoleculeTop(path): (name, [(name, resname, resid, index, sorted bonds)], are_connected(atoms), raw orders)"""
    from gaddlemaps.components import MoleculeTop, are_connected

    def run():
        m = MoleculeTop(path)
        atoms = [(a.name, a.resname, a.resid, a.index, sorted(a.bonds)) for a in m]
        return m.name, atoms, bool(are_connected(m.atoms)), [list(a.bonds) for a in m]
    return guarded(run)


def obs_mol_term(v):
    name, atoms, conn = v[0], v[1], v[2]
    return "(%s, %s, %s)" % (cs(name), clist("(%s, %s, %s, %s, %s)" % (cs(n), cs(r), cz(i), cz(k), clist(cz(b) for b in bs))
                                             for n, r, i, k, bs in atoms), cb(conn))


class FakeAtom:
    """an object with a `bonds` attribute in a chosen iteration order (are_connected only iterates it)"""
    def __init__(self, bonds):
        self.bonds = bonds


def obs_connected(adj):
    from gaddlemaps.components import are_connected
    return guarded(lambda: bool(are_connected([FakeAtom(list(b)) for b in adj])))


# ------------------------------------------------------------------ size-aware sharding
def run_cases_sized(cid, name, header, cases, budget=60000):
    """like lib.run_coq_cases but keeps every shard below `budget` bytes of case text (one oversized case
    gets a shard of its own); the size classes run concurrently.  Returns ({index: code} | None, log)."""
    from concurrent.futures import ThreadPoolExecutor
    classes = [(250, "s"), (1500, "a"), (6000, "b"), (20000, "c"), (budget, "d"), (10 ** 9, "e")]
    groups = {tag: [] for _, tag in classes}
    for i, c in enumerate(cases):
        for lim, tag in classes:
            if len(c) <= lim:
                groups[tag].append(i)
                break

    def one(cl):
        lim, tag = cl
        idx = groups[tag]
        if not idx:
            return idx, {}, ""
        per = max(1, budget // lim) if lim < 10 ** 9 else 1
        codes, log = lib.run_coq_cases(cid, name + tag, header, [cases[i] for i in idx], shard=per, timeout=1500, jobs=5)
        if codes is None:      # a coqc killed on an overloaded machine must not become a verdict: one calm retry
            codes, log2 = lib.run_coq_cases(cid, name + tag, header, [cases[i] for i in idx], shard=per, timeout=1500, jobs=2)
            log = "retried after: " + log[-300:] + " | " + log2
        return idx, codes, log
    out, logs = {}, []
    with ThreadPoolExecutor(max_workers=len(classes)) as ex:
        results = list(ex.map(one, classes))
    for idx, codes, log in results:
        if log:
            logs.append(log)
        if codes is None:
            return None, "\n".join(logs)
        for k, v in codes.items():
            out[idx[k]] = v
    return out, "; ".join(logs)


# ------------------------------------------------------------------ generators
SEPS = [" ", "  ", "   ", "\t", " \t", "      "]
NOISE = ["", "   ", "\t", "; comment", ";", ";;;; generated", "; a ; b", "#ifdef FLEX", "#endif", '#include "ff.itp"',
         "#define X 1", "; #hash comment", ';#include "old.itp"', "   ; indented", ";[ not a section", "; [ bonds ]x"]
TRAIL = ["", "", "", " ; c", ";", " ;", " ;  ", ";x", " ; a ; b", " ; #1 tagged", " ;# t", "\t; tab"]
TRAIL_WS = [t for t in TRAIL if not t.startswith(";")]
ALNUM = "ABCDEFGHIJKLMNOPQRSTUVWXYZabcdefghijklmnopqrstuvwxyz0123456789"


def pick(rs, seq):
    return seq[int(rs.randint(0, len(seq)))]


def gen_name(rs, maxlen=5, extra="_+-*'"):
    n = int(rs.randint(1, maxlen + 1))
    chars = ALNUM + extra
    s = pick(rs, ALNUM[:52]) + "".join(pick(rs, chars) for _ in range(n - 1))
    return s


def spell_int(rs, n, plain=False):
    if plain or rs.randint(0, 8):
        return str(n)
    k = int(rs.randint(0, 4))
    if n < 0:
        return str(n)
    if k == 0:
        return "+%d" % n
    if k == 1:
        return "00%d" % n
    if k == 2 and n >= 1000:
        s = str(n)
        return s[:-3] + "_" + s[-3:]
    return str(n)


def join_tokens(rs, toks, deco, trail=None):
    if not deco:
        return " ".join(toks)
    lead = pick(rs, ["", "", " ", "    ", "\t"])
    s = lead
    for i, t in enumerate(toks):
        s += t + (pick(rs, SEPS) if i + 1 < len(toks) else "")
    return s + pick(rs, trail or TRAIL)


def header_line(rs, name, deco):
    if not deco:
        return "[ %s ]" % name
    return pick(rs, ["[ %s ]", "[%s]", "[  %s  ]", "  [ %s ]", "[ %s ]  ", "[\t%s ]", "[ %s ] ; trailing", "[ %s ]\t"]) % name


def gen_graph(rs, n, shape):
    """bond list (0-based, may repeat / contain both orientations) and the shape label"""
    if n == 1:
        return []
    if shape == "chain":
        return [(k, k + 1) for k in range(n - 1)]
    if shape == "chain_rev":
        return [(k + 1, k) for k in reversed(range(n - 1))]
    if shape == "star":
        return [(0, k) for k in range(1, n)]
    if shape == "tree":
        return molgen.random_tree(rs, n)
    if shape == "cyclic":
        return molgen.random_graph(rs, n, int(rs.randint(1, max(2, n // 3))))
    if shape == "forest":
        t = molgen.random_tree(rs, n)
        drop = set(int(x) for x in rs.choice(len(t), size=min(len(t), int(rs.randint(1, 4))), replace=False))
        return [b for i, b in enumerate(t) if i not in drop]
    if shape == "hub_absent":      # atom 0 isolated, the rest connected
        return [(a + 1, b + 1) for a, b in molgen.random_tree(rs, n - 1)]
    if shape == "dups":
        t = molgen.random_tree(rs, n)
        return t + [(b, a) for a, b in t[: max(1, len(t) // 2)]] + t[:2]
    raise ValueError(shape)


SHAPES = ["chain", "chain_rev", "star", "tree", "tree", "cyclic", "forest", "hub_absent", "dups"]


def gen_topology(rs, n, shape, deco=True, selfbond=False, bonds=None, spread=None):
    """ground truth of a generated topology.  bonds: explicit 0-based bond list instead of a shape;
    spread: gapped numbering and bonds over the three sections (default: as deco)"""
    spread = deco if spread is None else spread
    numbers, cur = [], int(rs.randint(1, 50)) if spread else 1
    # numbering modes are enumerated, not hoped for: general gaps, contiguous from any start, exactly ONE skipped number
    mode = int(rs.randint(0, 6)) if spread else 0
    skip_at = int(rs.randint(1, n)) if (mode == 1 and n >= 2) else -1
    for k in range(n):
        if k == skip_at:
            cur += 1
        numbers.append(cur)
        if mode in (0, 1):
            cur += 1
        else:
            cur += 1 if (not spread or rs.randint(0, 3)) else int(rs.randint(2, 40))
    resid, atoms = 1, []
    rn = gen_name(rs, 4, "")
    for k in range(n):
        if deco and k and rs.randint(0, 6) == 0:
            resid += int(rs.randint(1, 3))
            rn = gen_name(rs, 4, "")
        atoms.append((gen_name(rs, 4, "'*") if deco else "A%d" % k, rn, resid))
    bonds = gen_graph(rs, n, shape) if bonds is None else list(bonds)
    if selfbond and n:
        k = int(rs.randint(0, n))
        bonds = bonds + [(k, k)]
    secs = {"constraints": [], "bonds": [], "pairs": []}
    for b in bonds:
        key = pick(rs, ["bonds", "bonds", "constraints", "pairs"]) if spread else "bonds"
        secs[key].append(b)
    return {"name": gen_name(rs, 8, "_-+") if deco else "MOL", "atoms": atoms, "numbers": numbers, "secs": secs,
            "shape": shape}


def expected_topology(t):
    return (t["name"], list(t["atoms"]), t["secs"]["constraints"] + t["secs"]["bonds"] + t["secs"]["pairs"])


def noise_lines(rs, deco, p=4):
    out = []
    while deco and rs.randint(0, p) == 0:
        out.append(pick(rs, NOISE))
    return out


def render_topology(rs, t, deco=True, final_newline=True):
    """file text (\\n newlines) of a generated topology: every section may be split into several occurrences of
    the same name and the sections come in any order, with unrelated sections, comments, blank and preprocessor
    lines in between"""
    num = t["numbers"]
    blocks = []     # (section name, [content lines])

    def split_block(name, lines):
        if deco and len(lines) > 1 and rs.randint(0, 3) == 0:
            k = int(rs.randint(1, len(lines)))
            return [(name, lines[:k]), (name, lines[k:])]
        return [(name, lines)]
    mol = [join_tokens(rs, [t["name"], spell_int(rs, int(rs.randint(1, 4)))], deco)]
    atom_lines = []
    for nr, (an, rn, rid) in zip(num, t["atoms"]):
        toks = [spell_int(rs, nr), gen_name(rs, 3, "_"), spell_int(rs, rid), rn, an, spell_int(rs, nr)]
        extra = int(rs.randint(0, 4)) if deco else 2
        if extra >= 1:
            toks.append(pick(rs, ["0.0", "-0.5", "+1", "1e-3", ".25", "1.", "0", "1_0.5", "nan", "-inf"]) if deco else "0.0")
        if extra >= 2:
            toks.append(pick(rs, ["1.008", "12.011", "72", "1E2", "Infinity"]) if deco else "1.0")
        if extra >= 3:
            toks.append(gen_name(rs, 3, ""))
        atom_lines.append(join_tokens(rs, toks, deco))
    ordered = [("moleculetype", mol)] + split_block("atoms", atom_lines)
    bond_blocks = []
    for key in ("bonds", "constraints", "pairs"):
        lines = []
        for a, b in t["secs"][key]:
            toks = [spell_int(rs, num[a]), spell_int(rs, num[b])]
            k = int(rs.randint(0, 4)) if deco else 3
            if k >= 1:
                toks.append(spell_int(rs, int(rs.randint(1, 7)), plain=True))
            if k >= 2:
                toks += [pick(rs, ["0.153", "1e3", "gb_27", "5000", "0.1_5"]) for _ in range(k - 1)]
            lines.append(join_tokens(rs, toks, deco))
        if lines or (not deco) or rs.randint(0, 2):
            bond_blocks += split_block(key, lines)
    others = []
    if deco:
        for _ in range(int(rs.randint(0, 3))):
            nm = pick(rs, ["angles", "dihedrals", "dihedrals", "exclusions", "settles"])
            others.append((nm, [join_tokens(rs, [str(int(x)) for x in rs.randint(1, 50, size=int(rs.randint(2, 6)))], deco)
                                for _ in range(int(rs.randint(0, 4)))]))
    if deco:
        rest = bond_blocks + others
        # random interleaving; occurrences of the SAME name keep their relative order (they merge in file order)
        queues = {}
        for nm, ls in rest:
            queues.setdefault(nm, []).append(ls)
        names = [rest[i][0] for i in rs.permutation(len(rest))]
        fixed = [(nm, queues[nm].pop(0)) for nm in names]
        mode = int(rs.randint(0, 3))
        if mode == 0:
            blocks = ordered + fixed
        elif mode == 1:     # bonds before the atoms: the parser works on the dictionary, not on file order
            blocks = fixed + ordered
        else:
            k = int(rs.randint(0, len(fixed) + 1))
            blocks = fixed[:k] + ordered + fixed[k:]
    else:
        blocks = ordered + bond_blocks
    out = []
    if deco:
        out += noise_lines(rs, deco, 2)
        if rs.randint(0, 3) == 0:
            out.append("free header text [ without closing bracket")
    for nm, ls in blocks:
        out.append(header_line(rs, nm, deco))
        out += noise_lines(rs, deco)
        for l in ls:
            out.append(l)
            out += noise_lines(rs, deco)
    text = "\n".join(out)
    if final_newline:
        text += "\n"
    return text


def tree_on(rs, nodes, shuffle=True):
    """random tree on the given node labels"""
    nodes = [int(x) for x in (rs.permutation(nodes) if shuffle else nodes)]
    return [(nodes[int(rs.randint(0, k))], nodes[k]) for k in range(1, len(nodes))]


def boundary_graphs(rs):
    """(label, n, bonds): sizes around 500 and beyond (an implementation may switch algorithm with the size),
    connected graphs and forests whose isolated atoms / second component sit at the end, the start or the middle
    of the file order.  The expected connectivity comes from union-find, not from the label."""
    out = []
    big = [int(800 + rs.randint(0, 40)), int(1200 + rs.randint(0, 60))]
    for n in [499, 500, 501, 502] + big:
        kind = int(rs.randint(0, 3))
        bonds = tree_on(rs, range(n))
        if kind == 1:
            bonds += [(int(rs.randint(0, n)), int(rs.randint(0, n))) for _ in range(30)]
            bonds = [b for b in bonds if b[0] != b[1]]
        elif kind == 2:
            bonds = [(k, k + 1) for k in range(n - 1)]
        out.append(("connected_%d" % n, n, bonds))
    for n in [500, 501, int(520 + rs.randint(0, 200))] + big:
        k = int(rs.randint(1, 5))
        mid = int(rs.randint(1, n - 1))
        out.append(("isolated_last_%d" % n, n, tree_on(rs, range(n - 1))))
        out.append(("isolated_trailing%d_%d" % (k, n), n, tree_on(rs, range(n - k))))
        out.append(("isolated_first_%d" % n, n, tree_on(rs, range(1, n))))
        out.append(("isolated_middle_%d" % n, n, tree_on(rs, [x for x in range(n) if x != mid])))
        out.append(("chain_then_isolated_%d" % n, n, [(j, j + 1) for j in range(n - 2)]))
        out.append(("two_components_%d" % n, n, tree_on(rs, range(n // 2)) + tree_on(rs, range(n // 2, n))))
        cyc = tree_on(rs, range(n - 1)) + [(int(rs.randint(0, n - 1)), int(rs.randint(0, n - 1))) for _ in range(40)]
        out.append(("cyclic_then_isolated_%d" % n, n, [b for b in cyc if b[0] != b[1]]))
    return out


def variant_sequence(rs, steps=None):
    """[(kind, text, truth)]: successive DIFFERENT topologies meant to be written to ONE path and loaded back to back
    (a loader must reflect the current content of the file, whatever it loaded from that path before).  Steps of kind
    names / bonds / comment have exactly the byte length of their predecessor (two atom names, two bond partners or
    two comment words swapped); `new` is an unrelated topology."""
    def fresh():
        n = int(rs.randint(4, 12))
        t = gen_topology(rs, n, "tree", deco=False, spread=True)
        t["comment"] = ["alpha", "beta"]
        return t

    def render(t):
        num = t["numbers"]
        lines = ["; %s %s" % tuple(t["comment"]), "[ moleculetype ]", "%s 1" % t["name"], "[ atoms ]"]
        for k, (nr, (an, rn, rid)) in enumerate(zip(num, t["atoms"])):
            lines.append("%d C %d %s %s %d 0.0 12.0%s" % (nr, rid, rn, an, nr, (" ; %s %s" % tuple(t["comment"])) if k == 0 else ""))
        for key in ("pairs", "bonds", "constraints"):
            lines.append("[ %s ]" % key)
            lines.append("; %s then %s" % tuple(t["comment"]))
            lines += ["%d %d 1" % (num[a], num[b]) for a, b in t["secs"][key]]
        return "\n".join(lines) + "\n"
    t = fresh()
    out = [("first", render(t), expected_topology(t))]
    for _ in range(steps or int(rs.randint(3, 7)) - 1):
        kind = pick(rs, ["names", "names", "bonds", "bonds", "comment", "new"])
        t = {k: (v if k != "secs" else {a: list(b) for a, b in v.items()}) for k, v in t.items()}
        t["atoms"], t["comment"] = list(t["atoms"]), list(t["comment"])
        if kind == "names":
            i, j = [int(x) for x in rs.choice(len(t["atoms"]), size=2, replace=False)]
            (ni, ri, di), (nj, rj, dj) = t["atoms"][i], t["atoms"][j]
            t["atoms"][i], t["atoms"][j] = (nj, ri, di), (ni, rj, dj)
        elif kind == "bonds":
            keys = [k for k in ("bonds", "constraints", "pairs") if len(t["secs"][k]) >= 2]
            done = False
            if keys:
                key = pick(rs, keys)
                i, j = [int(x) for x in rs.choice(len(t["secs"][key]), size=2, replace=False)]
                (a, b), (c, d) = t["secs"][key][i], t["secs"][key][j]
                if b != d and a != d and c != b:
                    t["secs"][key][i], t["secs"][key][j] = (a, d), (c, b)
                    done = True
            if not done:
                kind = "comment"
        if kind == "comment":
            t["comment"] = t["comment"][::-1]
        if kind == "new":
            t = fresh()
        text = render(t)
        assert kind == "new" or len(text) == len(out[-1][1])
        assert text != out[-1][1]
        out.append((kind, text, expected_topology(t)))
    return out


# ------------------------------------------------------------------ union-find (S oracle of C15)
def components(n, bonds):
    parent = list(range(n))

    def find(x):
        while parent[x] != x:
            parent[x] = parent[parent[x]]
            x = parent[x]
        return x
    for a, b in bonds:
        ra, rb = find(a), find(b)
        if ra != rb:
            parent[ra] = rb
    return len({find(x) for x in range(n)})


SHIPPED_DIR = os.path.join(lib.REPO, "gaddlemaps", "data")


def shipped_topologies(include_large):
    out = []
    for fn in sorted(os.listdir(SHIPPED_DIR)):
        if fn.endswith(".itp"):
            p = os.path.join(SHIPPED_DIR, fn)
            if include_large or os.path.getsize(p) < 100000:
                out.append(p)
    return out
