"""C13 - writing then reading a .gro file returns the same system."""
import os
import re
from decimal import Decimal

import numpy as np

import gro_common as gc
import lib

RULE = ("writer runs: 1..300 records (mostly 1..20), names of 1-5 non-blank printable characters, residue/atom numbers from "
        "the boundary list (0, 99998..100001, 199999, 200000, 10^7 ...) or uniform in [0,10^5) / [0,10^7], coordinates that "
        "fit the field (zero, k+0.5 units rounding boundaries, the widest value that fits, tiny values rounding to +-0, "
        "integers, log-uniform magnitudes, both signs) and, in K only, values too wide for the field; decimals 1..6 or the "
        "default format, velocities on/off, box default / 3-vector / diagonal 3x3 / triclinic (single off-diagonal entry "
        "of either sign in each slot, mixed-sign subsets, exactly cancelling pairs and triples, all-negative, tiny entries "
        "around 5e-6 of both signs, zeros and negative zeros in some slots, dense), title default / random printable / with trailing newline / empty / a bare newline, records handed over by writeline, by one writelines, or (half of the cases) by a random mix of writeline runs and writelines chunks incl. empty and final ones, count declared or not; a "
        "malformed writer stream (velocity mismatch between records, wrong declared count). A case is non-trivial when "
        "distinct.")


# ------------------------------------------------------------------ S oracle (property text)
def strip1(s):
    return s[:-1] if s.endswith("\n") else s


def expected_box(conf):
    b = conf["box"]
    if b[0] == "default":
        return np.zeros((3, 3))
    if b[0] == "vec":
        return np.diag(np.array(b[1], dtype=float))
    return np.array(b[1], dtype=float)


def oracle_roundtrip(conf, recs):
    """the property text on the implementation; list of failed clauses (empty = holds)"""
    path = os.path.join(gc.tmpdir(), "s13.gro")
    w = gc.run_writer(path, conf, recs)
    if w[0] == "err":
        return ["writing raised an exception (class %d)" % w[1]]
    text = w[1]
    r = gc.run_reader(path)
    if r[0] == "err":
        return ["reading the written file raised an exception (class %d)" % r[1]]
    _, comment, natoms, atoms, box = r
    bad = []
    n = len(recs)
    if natoms != n or len(atoms) != n:
        bad.append("number of records %d/%d instead of %d" % (natoms, len(atoms), n))
    raw_lines = text.split("\n")[2:2 + n]
    d = gc.effective_d(conf)
    for i, (rec, a) in enumerate(zip(recs, atoms)):
        if len(a) != len(rec):
            bad.append("record %d: %d fields instead of %d" % (i, len(a), len(rec)))
            continue
        if a[1] != rec[1] or a[2] != rec[2]:
            bad.append("record %d: names %r %r read as %r %r" % (i, rec[1], rec[2], a[1], a[2]))
        for k in (0, 3):
            if rec[k] < 100000:
                if a[k] != rec[k]:
                    bad.append("record %d: number %d read as %d" % (i, rec[k], a[k]))
            elif not (0 <= a[k] < 100000):
                bad.append("record %d: number %d not wrapped into five columns (%d)" % (i, rec[k], a[k]))
        # "within half a unit of their last written decimal": the decimals actually written, read off the
        # file by cutting the part after column 20 into as many equal fields as the record has numbers
        written = []
        if i < len(raw_lines):
            nf = len(rec) - 4
            part = raw_lines[i][20:]
            if nf and len(part) % nf == 0:
                fw = len(part) // nf
                for j in range(nf):
                    m = re.fullmatch(r" *-?\d+\.(\d+)", part[j * fw:(j + 1) * fw])
                    if m:
                        written.append(m.group(1))
        for k in range(4, len(rec)):
            if k - 4 >= len(written):
                bad.append("record %d: field %d is not written as a fixed-point number" % (i, k))
                continue
            # positions: the decimals of the position format that was asked for; velocities: those written
            dd = d if k < 7 else len(written[k - 4])
            tol = Decimal(5).scaleb(-dd - 1) + abs(Decimal(rec[k])) * Decimal(2) ** -51
            if abs(Decimal(float(a[k])) - Decimal(rec[k])) > tol:
                bad.append("record %d field %d: %r read as %r (more than half a unit of decimal %d)"
                           % (i, k, rec[k], a[k], dd))
    eb = expected_box(conf)
    if np.abs(np.asarray(box, dtype=float) - eb).max() > 5e-6 * (1 + 1e-9):
        bad.append("box differs by %.3g" % np.abs(np.asarray(box, dtype=float) - eb).max())
    title = gc.GroFile().DEFAULT_COMMENT if conf["title"] is None else conf["title"]
    if strip1(comment) != strip1(title):
        bad.append("title %r read as %r" % (title, comment))
    lines = text.split("\n")[2:2 + n]
    if len(set(len(x) for x in lines)) > 1:
        bad.append("atom lines of different byte lengths %s" % sorted(set(len(x) for x in lines)))
    return bad[:8]


def oracle_crlf(conf, recs):
    """a copy of the written file with CRLF line ends (a file that went through a Windows editor) reads back as
    the same records, count, box and title"""
    path = os.path.join(gc.tmpdir(), "s13c.gro")
    w = gc.run_writer(path, conf, recs)
    if w[0] == "err":
        return []
    ref = gc.run_reader(path)
    if ref[0] == "err":
        return []                          # reported by oracle_roundtrip
    with open(path, "wb") as f:
        f.write(gc.to_crlf(w[1]).encode("latin-1"))
    r = gc.run_reader(path)
    if r[0] == "err":
        return ["reading the CRLF copy of the written file raised an exception (class %d)" % r[1]]
    bad = []
    if r[2] != ref[2] or r[3] != ref[3]:
        bad.append("the CRLF copy returns other records (%d) than the written file (%d)" % (len(r[3]), len(ref[3])))
    if np.abs(np.asarray(r[4], dtype=float) - np.asarray(ref[4], dtype=float)).max() > 0:
        bad.append("the CRLF copy returns another box")
    if strip1(r[1]) != strip1(ref[1]):
        bad.append("the CRLF copy returns the title %r instead of %r" % (r[1], ref[1]))
    return bad


def in_domain(conf, recs):
    """the property's domain: values that fit the field (the generator guarantees the rest)"""
    d = gc.effective_d(conf)
    w = gc.effective_w(conf)
    for r in recs:
        for k in range(4, len(r)):
            dd = d if k < 7 else d + 1
            if len(format(r[k], ".%df" % dd)) > w:
                return False
    if len(set(len(r) for r in recs)) != 1:
        return False
    if conf["natoms"] is not None and conf["natoms"] != len(recs):
        return False
    return True


MAX_REPORTS = 25


def sequence_fails(cases):
    """run the round trips in order (one process); failed clauses of the first case that fails"""
    for conf, recs in cases:
        bad = oracle_roundtrip(conf, recs)
        if bad:
            return bad
    return []


def fails_in_fresh_process(cases):
    """does the sequence violate the property when it is all a fresh interpreter does?"""
    import json
    import subprocess
    code = ("import sys, json; sys.path.insert(0, %r); import lib; lib.setup_impl_path(); import c13, gro_common as gc; "
            "cases = [gc.case_from_json(o) for o in json.load(sys.stdin)]; "
            "print('FAILS' if c13.sequence_fails(cases) else 'HOLDS')" % os.path.dirname(os.path.abspath(__file__)))
    try:
        p = subprocess.run([lib.PY, "-c", code], input=json.dumps([gc.case_json(c, r) for c, r in cases]),
                           stdout=subprocess.PIPE, stderr=subprocess.STDOUT, universal_newlines=True, timeout=120,
                           env=dict(os.environ, **lib.impl_env()))
    except subprocess.TimeoutExpired:
        return False
    return "FAILS" in p.stdout


def report(ctx, bad, conf, recs, extra=None):
    """record a violation with a replay that reproduces in a fresh process: the failing run alone, or preceded by
    earlier runs of this process (first run with each position format / velocities flag) when the failure
    depends on the process history"""
    ctx.cov["S"]["violating_cases"] = ctx.cov["S"].get("violating_cases", 0) + 1
    if ctx.cov["S"]["violating_cases"] > MAX_REPORTS:
        return
    this = (conf, recs)
    earlier = [(c, r) for key, c, r in gc.WRITER_HISTORY
               if not (c is conf) and key != (gc.effective_w(conf), gc.effective_d(conf), len(recs[0]))]
    same_flag = [(c, r) for c, r in earlier if len(r[0]) == len(recs[0])]
    candidates = [[this]] + [[e, this] for e in same_flag[:4]] + [[e, this] for e in earlier[:4] if e not in same_flag]
    if earlier:
        candidates.append(earlier + [this])
    chosen, reproduced = candidates[-1], False
    for cand in candidates:
        if fails_in_fresh_process(cand):
            chosen, reproduced = cand, True
            break
    rep = {"kind": "sequence", "cases": [gc.case_json(c, r) for c, r in chosen],
           "reproduces_in_fresh_process": reproduced}
    if extra:
        rep.update({k: v for k, v in extra.items() if k not in ("case", "kind")})
    what = "gro round trip: " + "; ".join(bad)
    if len(chosen) > 1:
        what = ("after %d earlier write(s) with another position format in the same process: " % (len(chosen) - 1)) + what
    ctx.violation(what, rep, key="roundtrip")


MIXED_RECS = [(1 + (i >= 2) + (i >= 5), ["BMIM", "BF4", "SOL"][(i >= 2) + (i >= 5)], "A%d" % i, i + 1,
               0.1 * (i + 1), -0.2 * (i + 1), 2.5 + i) for i in range(9)]

CORPUS = [
    # D4: five-digit wrap (99999 was written as 0, 100000 as 2)
    ({"title": "wrap", "natoms": None, "fmt": None, "box": ("vec", [1.0, 2.0, 3.0])},
     [(99999, "SOL", "OW", 99999, 0.1, 0.2, 0.3), (100000, "SOL", "HW1", 100000, 0.4, 0.5, 0.6),
      (100001, "SOL", "HW2", 199999, 0.7, 0.8, 0.9), (200000, "SOL", "OW", 99998, 1.0, 1.1, 1.2)]),
    # D5: non-default position format set before the first writeline
    ({"title": "fmt", "natoms": 2, "fmt": (10, 5), "box": ("mat", [[3.0, 0.0, 0.0], [0.5, 3.0, 0.0], [0.25, 0.5, 3.0]])},
     [(1, "A", "B", 1, 1.234565, -2.5, 0.000004), (1, "A", "C", 2, 9999.999994, -999.999994, -0.000004)]),
    ({"title": None, "natoms": None, "fmt": (7, 2), "box": ("default",)},
     [(7, "LIG", "C1", 7, 0.125, 0.135, -0.005, 0.0625, -0.0005, 99.9994)]),
    # triclinic boxes whose off-diagonal entries cancel in a signed sum (pair, triple) / are all negative:
    # nine numbers must be written (seeded C13-3, C05-3)
    ({"title": "cancelling pair", "natoms": None, "fmt": None,
      "box": ("mat", [[3.0, 0.0, 0.0], [1.5, 3.0, 0.0], [-1.5, 0.0, 3.0]])},
     [(1, "SOL", "OW", 1, 0.1, 0.2, 0.3)]),
    ({"title": "cancelling triple", "natoms": 1, "fmt": None,
      "box": ("mat", [[4.0, 0.0, 0.0], [0.5, 4.0, 0.0], [0.25, -0.75, 4.0]])},
     [(1, "SOL", "OW", 1, 0.1, 0.2, 0.3)]),
    ({"title": "monoclinic, beta > 90", "natoms": None, "fmt": None,
      "box": ("mat", [[4.0, 0.0, 0.0], [0.0, 3.5, 0.0], [-0.77646, 0.0, 2.89778]])},
     [(1, "SOL", "OW", 1, 0.1, 0.2, 0.3)]),
    # a file written in several calls (seeded C13-7: writelines SET the atom counter): one writelines per residue
    # with the count filled on close / declared, and writeline followed by writelines
    ({"title": "one writelines per residue", "natoms": None, "fmt": None, "calls": [["lines", 2], ["lines", 3], ["lines", 4]],
      "box": ("mat", [[3.0, 0.0, 0.0], [0.5, 3.0, 0.0], [0.25, -0.5, 3.0]])}, MIXED_RECS),
    ({"title": "one writelines per residue, declared", "natoms": 9, "fmt": None, "calls": [["lines", 2], ["lines", 3], ["lines", 4]],
      "box": ("mat", [[3.0, 0.0, 0.0], [0.5, 3.0, 0.0], [0.25, -0.5, 3.0]])}, MIXED_RECS),
    ({"title": "writeline then writelines", "natoms": None, "fmt": None, "calls": [["line", 1], ["lines", 8]],
      "box": ("vec", [3.0, 3.0, 3.0])}, MIXED_RECS),
    ({"title": "empty writelines calls", "natoms": None, "fmt": (9, 4), "calls": [["lines", 0], ["line", 4], ["lines", 0], ["lines", 5], ["lines", 0]],
      "box": ("default",)}, MIXED_RECS),
    # titles with multi-byte characters (seeded C13-5: placeholder located by character count), count declared or not
    ({"title": "BMIM BF4, cutoff 12 \u00c5, 25 \u00b0C", "natoms": None, "fmt": None, "box": ("vec", [3.0, 4.0, 5.0])},
     [(1, "BMIM", "N1", 1, 1.593, 1.896, 0.729), (1, "BMIM", "C2", 2, 1.706, 1.984, 0.708),
      (2, "BF4", "B1", 3, -0.250, 0.001, 12.345), (2, "BF4", "F1", 4, 0.125, -3.500, 7.000)]),
    ({"title": "\u6c34 box", "natoms": None, "fmt": (9, 4), "box": ("vec", [3.0, 4.0, 5.0])},
     [(1, "SOL", "OW", 1, 0.1, 0.2, 0.3, 0.01, 0.02, 0.03)]),
    ({"title": "\u6c34 box \u00b5", "natoms": 1, "fmt": None, "box": ("vec", [3.0, 4.0, 5.0])},
     [(1, "SOL", "OW", 1, 0.1, 0.2, 0.3)]),
    # empty title (IndexError on comment[-1] before efbff8f), given as '' and as a bare newline
    ({"title": "", "natoms": None, "fmt": None, "box": ("vec", [2.0, 2.0, 2.0])},
     [(1, "SOL", "OW", 1, 0.1, 0.2, 0.3), (1, "SOL", "HW1", 2, 0.4, 0.5, 0.6)]),
    ({"title": "\n", "natoms": 1, "fmt": (9, 4), "box": ("default",)},
     [(1, "SOL", "OW", 1, 0.1, 0.2, 0.3, -0.01, 0.02, 0.03)]),
]


def corpus(ctx):
    S = ctx.cov["S"]
    S["corpus"] = 0
    for conf, recs in CORPUS:
        if any(ord(ch) > 127 for ch in (conf["title"] or "")) and not gc.nonascii_ok():
            continue
        bad = oracle_roundtrip(conf, recs)
        S["corpus"] += 1
        if bad:
            report(ctx, bad, conf, recs)
        bad = oracle_crlf(conf, recs)
        if bad:
            report_crlf(ctx, bad, conf, recs)


def report_crlf(ctx, bad, conf, recs):
    ctx.cov["S"]["violating_cases"] = ctx.cov["S"].get("violating_cases", 0) + 1
    if ctx.cov["S"]["violating_cases"] <= MAX_REPORTS:
        ctx.violation("gro round trip (CRLF copy): " + "; ".join(bad), {"kind": "crlf", "case": gc.case_json(conf, recs)},
                      key="crlf")


# ------------------------------------------------------------------ K
def malformed(rs):
    """writer runs that must fail (or that leave the domain): class of the exception is compared"""
    conf, recs = gc.gen_case(rs, natoms=int(rs.randint(2, 5)))
    k = int(rs.randint(0, 3))
    if k == 0:                             # velocities mismatch on a later record
        i = int(rs.randint(1, len(recs)))
        r = list(recs[i])
        d = gc.effective_d(conf)
        recs[i] = tuple(r[:7]) if len(r) == 10 else tuple(r + [gc.gen_value(rs, 3, d + 1) for _ in range(3)])
    elif k == 1:                           # declared count differs from the records written
        conf["natoms"] = len(recs) + int(rs.choice([-1, 1, 2]))
    else:                                  # names longer than five characters are cut
        recs[0] = (recs[0][0], "LONGNAME", "ATOMNAME7") + tuple(recs[0][3:])
    return conf, recs


def case_term(conf, recs, path):
    """(coq term, writer observation, reader observation) or None when not exactly comparable"""
    d = gc.effective_d(conf)
    w = gc.run_writer(path, conf, recs)
    if w[0] == "err":
        wo, ro = "(WErr %d)" % w[1], "(RErr 0)"
        r = None
    else:
        wo = "(WFile %s)" % gc.t_bytes(w[1])
        r = gc.run_reader(path)
        ro = gc.t_robs(r)
    term = "chk_c13 %s\n    [%s]\n    %s\n    %s" % (
        gc.t_conf(conf), ";\n     ".join(gc.t_rec(x, d) for x in recs), wo, ro)
    return term, w, r


def correspondence(ctx):
    rs = ctx.np_rng("K")
    n_small = ctx.n(260, 4000)
    n_bad = ctx.n(30, 300)
    big_sizes = ctx.n([60, 150, 300, 300], [300] * 12 + [299, 150, 120, 100, 80, 64])
    path = os.path.join(gc.tmpdir(), "k13.gro")
    small, big, meta_s, meta_b = [], [], [], []
    hist = {"velocities": 0, "declared": 0, "wide": 0, "malformed": 0, "skipped": 0, "format_check_failed": 0,
            "box": {}, "decimals": {}}
    gens = [("ok", None)] * n_small + [("bad", None)] * n_bad + [("big", s) for s in big_sizes]
    for i, (kind, size) in enumerate(gens):
        if kind == "ok":
            conf, recs = gc.gen_case(rs, allow_wide=(i % 8 == 7))
        elif kind == "bad":
            conf, recs = malformed(rs)
            hist["malformed"] += 1
        else:
            conf, recs = gc.gen_case(rs, natoms=size)
        if not gc.all_values_ok(conf, recs):
            hist["format_check_failed"] += 1      # CPython's formatting is not correctly rounded (trusted base broken)
            continue
        try:
            term, w, r = case_term(conf, recs, path)
        except gc.Skip:
            hist["skipped"] += 1
            continue
        m = {"kind": "roundtrip", "case": gc.case_json(conf, recs), "gen": kind}
        (big if kind == "big" else small).append(term)
        (meta_b if kind == "big" else meta_s).append(m)
        hist["velocities"] += len(recs[0]) == 10
        hist["declared"] += conf["natoms"] is not None
        hist["wide"] += not in_domain(conf, recs)
        hist["box"][conf["box"][0]] = hist["box"].get(conf["box"][0], 0) + 1
        dk = "default" if conf["fmt"] is None else str(conf["fmt"][1])
        hist["decimals"][dk] = hist["decimals"].get(dk, 0) + 1
        ctx.count(("k13", repr(conf), repr(recs)))
        if len(ctx.cov["samples"]) < 2 and kind == "ok":
            ctx.sample({"conf": conf, "records": [list(x) for x in recs[:3]], "file": (w[1] if w[0] == "file" else None)})
        # S on the same case when it is inside the property's domain
        if kind != "bad" and in_domain(conf, recs):
            bad = oracle_roundtrip(conf, recs)
            if bad:
                report(ctx, bad, conf, recs)
    K = ctx.cov["K"]
    K["input_distribution"] = hist
    dis = []
    tot = 0
    for name, cases, meta, shard in (("K", small, meta_s, 30), ("Kbig", big, meta_b, 1)):
        codes, log = lib.run_coq_cases(ctx.cid, name, gc.HEADER13, cases, shard=shard)
        K["log_" + name] = log
        if codes is None:
            K["error"] = log
            return [{"error": "coqc failed on the correspondence cases", "log": log[-1500:]}]
        tot += len(cases)
        K["disagree"] = K.get("disagree", 0) + sum(1 for c in codes.values() if c in (1, 3))
        K["indeterminate"] = K.get("indeterminate", 0) + sum(1 for c in codes.values() if c == 2)
        dis += [dict(meta[i], code=c) for i, c in sorted(codes.items()) if c in (1, 3)]
    K["cases"] = tot
    K["agree"] = tot - K["disagree"] - K["indeterminate"]
    for dcase in dis[:50]:
        conf, recs = gc.case_from_json(dcase["case"])
        if in_domain(conf, recs):
            bad = oracle_roundtrip(conf, recs)
            if bad:
                report(ctx, bad, conf, recs, extra=dcase)
    return dis


def oracle(ctx, scale):
    rs = ctx.np_rng("S%d" % scale)
    S = ctx.cov["S"]
    n = ctx.n(1500, 20000) * scale
    fails = 0
    sizes = {}
    for i in range(n):
        size = None
        if i % 400 == 0:
            size = int(rs.choice([100, 200, 300]))
        conf, recs = gc.gen_case(rs, natoms=size, nonascii=True)
        sizes[len(recs)] = sizes.get(len(recs), 0) + 1
        ctx.count(("s13", repr(conf), repr(recs)))
        if any(ord(ch) > 127 for ch in (conf["title"] or "")):
            S["nonascii_titles"] = S.get("nonascii_titles", 0) + 1
        bad = oracle_roundtrip(conf, recs)
        if bad:
            fails += 1
            report(ctx, bad, conf, recs)
        if i % 3 == 0:
            S["crlf_copies"] = S.get("crlf_copies", 0) + 1
            bad = oracle_crlf(conf, recs)
            if bad:
                fails += 1
                report_crlf(ctx, bad, conf, recs)
    S["roundtrips_x%d" % scale] = n
    S["failures"] = S.get("failures", 0) + fails
    S["atoms_histogram"] = {str(k): v for k, v in sorted(sizes.items())}


def replay(ctx, obj):
    r = obj["replay"]
    if r.get("kind") == "sequence":
        bad = sequence_fails([gc.case_from_json(o) for o in r["cases"]])
    elif r.get("kind") == "roundtrip":
        bad = oracle_roundtrip(*gc.case_from_json(r["case"]))
    elif r.get("kind") == "crlf":
        bad = oracle_crlf(*gc.case_from_json(r["case"]))
    else:
        print("replay names a proof/correspondence, not an input:", str(r)[:300])
        return False
    print(bad)
    return not bad


def finish(ctx):
    ctx.assumptions = [
        "decimal values are scaled integers in the model; that '{:w.df}'.format(x) is the correctly rounded decimal of the "
        "double x and float(s) the correctly rounded double of s is a property of CPython (trusted; the first is re-checked "
        "with decimal arithmetic on every generated value, the second through repr round trips of <= 15 significant digits)",
        "the Coq model and K are ASCII text without carriage returns (text-mode tell/seek are byte offsets); titles with "
        "multi-byte characters and CRLF copies of written files are exercised by the S oracle only (testing)",
        "the theorems restrict to values that fit the field width, names of 1-5 characters without whitespace, titles "
        "without newline; the model's behaviour outside (widened lines) is tied by K only",
    ]
    return ctx.finish(level="proof", rule=RULE,
                      trusted=["CPython float formatting/parsing (correct rounding)", "Python str.format/int()/float()/split/strip "
                               "semantics transcribed by hand in coq/Base/StrGro.v (tied by K)"])
