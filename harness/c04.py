"""C04 - applying an exchange map is pure, history-independent and species-checked.

K: operation sequences on a real ExchangeMap vs the state machine of coq/Model/EMState.v (whole observable heap
   compared after every operation, cell by cell, aliasing included: Python objects are numbered by identity).
S: the property text on the implementation: every call's result vs a FRESH ExchangeMap built from snapshot copies taken
   at construction time; bitwise snapshots of every live molecule's coordinates around every operation; labels of the
   result; TypeError for non-molecules / other species and the map still answering afterwards.
   S only: arguments with a degenerate anchor / NaN / inf coordinates (NaN-aware comparison) with the construction target
   moved in between (seeded/C04-12); several different maps alive, the older one used after the newer ones were built,
   expectation recorded BEFORE the other maps existed + fresh map afterwards + fresh interpreter (seeded/C04-11)."""
import json

import numpy as np

import lib
import molgen
from lib import fl, v3

HEADER = """From Coq Require Import String.
From GM Require Import Corr.CorrBase Model.Aux Model.EMState Corr.CheckC04.
Open Scope string_scope.
Open Scope list_scope.
"""

RULE = ("one case = one operation sequence on one reference/target pair: reference of 3..12 atoms (random trees, cyclic "
        "graphs, chains, stars; 1..4 residues, residue names of a multi-residue molecule all different / all the same / repeated "
        "in consecutive pairs - molecules with repeated names are built with MoleculeTop + Residue([AtomGro]) directly; geometry: 55% generic, 15% rod = all atoms on a lattice line on a dyadic grid, "
        "15% one or two anchors exactly collinear with their two lowest-index bonded neighbours, 15% collinear only in the "
        "arguments - the aligned branch of calcule_base), target of 1..20 atoms (1..3 residues, with/without velocities), scale in "
        "(0,2]; handles: 2..5 arguments (copy()/deep_copy() of the reference after a rigid motion, a dyadic translation, an "
        "axis permutation, a deformation or a new random conformation, with their own gro residue numbers: all different, all equal as after `mol.resids = 7`, or equal in two consecutive "
        "residues), the construction molecules themselves, 1..3 molecules "
        "of other species (other name, other atom name, other length, the target), every returned molecule; operations: "
        "call on a valid argument (repeats included), call on another species, call on a non-molecule, in-place coordinate "
        "changes of the construction reference / target / an argument / a previously returned molecule, residue renumbering "
        "(`mol.resids = [...]`, gro and topology numbers; 1 in 12 with a wrong length) of the construction reference / target / "
        "any handle incl. molecules sharing the reference's topology; in 25% of the pairs with a target of >= 3 atoms a reverse "
        "map ExchangeMap(tgt, ref) is alive in the same world with its own arguments (copies of the target) and is called "
        "in between. S only: in 1 of 3 pairs 1..2 arguments with a degenerate anchor (an atom with >= 2 bonds coinciding "
        "with the second, by index, of its bonded atoms) or a NaN / inf coordinate, results compared NaN-aware; rigid motion "
        "of the whole construction target / reference between calls; and `twomaps` cases: a map is used, 1..2 OTHER maps "
        "(another pair, same pair with another scale factor, the reverse map, the same reference with a re-aligned target) "
        "are built and used, the first map is used again with the same arguments - expected = its own results from before "
        "the other maps existed, a fresh map built afterwards, and (first cases) a fresh interpreter. K only: same-name "
        "species with another bond graph, reference and target sharing one topology, a deep copy with other topology "
        "residue numbers. A case is non-trivial when distinct and containing >= 2 successful calls with at least one "
        "mutation or rejected call between the first and the last of them.")

EXC = {TypeError: "EType", ValueError: "EValue", IndexError: "EIndex", KeyError: "EKey", ZeroDivisionError: "EDiv0",
       OSError: "EIO"}


def exc_code(e):
    for k, v in EXC.items():
        if isinstance(e, k):
            return v
    return "EStop"


# ------------------------------------------------------------------ scenario generation (static part)
def chain(n):
    return [(i, i + 1) for i in range(n - 1)]


def gen_graph(rs, n):
    kind = rs.choice(["tree", "cyclic", "chain", "star"], p=[0.4, 0.3, 0.2, 0.1])
    if kind == "tree":
        b = molgen.random_tree(rs, n)
    elif kind == "cyclic":
        b = molgen.random_graph(rs, n, int(rs.randint(1, 4)))
    elif kind == "chain":
        b = chain(n)
    else:
        b = [(0, i) for i in range(1, n)]
    perm = rs.permutation(n)
    return str(kind), sorted([int(min(perm[a], perm[c])), int(max(perm[a], perm[c]))] for a, c in b)


def walk_positions(rs, n, bonds, centre=None):
    nb = [[] for _ in range(n)]
    for a, b in bonds:
        nb[a].append(b)
        nb[b].append(a)
    pos = [None] * n
    start = int(rs.randint(n))
    pos[start] = rs.uniform(-5, 5, size=3) if centre is None else np.array(centre, dtype=float)
    stack = [start]
    while stack:
        a = stack.pop()
        for b in nb[a]:
            if pos[b] is None:
                d = rs.normal(size=3)
                d /= np.linalg.norm(d)
                pos[b] = pos[a] + d * rs.uniform(0.1, 0.4)
                stack.append(b)
    for k in range(n):
        if pos[k] is None:
            pos[k] = pos[start] + rs.uniform(-0.5, 0.5, size=3)
    return np.array(pos)


def rotmat(rs):
    axis = rs.normal(size=3)
    axis /= np.linalg.norm(axis)
    th = rs.uniform(-np.pi, np.pi)
    K = np.array([[0, -axis[2], axis[1]], [axis[2], 0, -axis[0]], [-axis[1], axis[0], 0]])
    return np.eye(3) + np.sin(th) * K + (1 - np.cos(th)) * (K @ K)


def line_direction(rs):
    """a lattice direction: coordinate axis, face/space diagonal or a small integer vector"""
    k = rs.randint(4)
    if k == 0:
        return np.eye(3)[rs.randint(3)] * rs.choice([-1.0, 1.0])
    if k == 1:
        d = rs.choice([-1.0, 0.0, 1.0], size=3)
        while np.count_nonzero(d) < 2 or d[0] ** 2 + d[1] ** 2 == d[2] ** 2:
            d = rs.choice([-1.0, 0.0, 1.0], size=3)
        return d
    d = rs.randint(-3, 4, size=3).astype(float)
    while not d.any() or d[0] ** 2 + d[1] ** 2 == d[2] ** 2:     # (the fallback's 0.5 test would be a tie)
        d = rs.randint(-3, 4, size=3).astype(float)
    return d


def rod_positions(rs, n):
    """all atoms on one line, on a dyadic grid (so that dyadic translations and axis permutations are exact):
    every anchor is exactly collinear with its bonded neighbours"""
    step = 2.0 ** rs.randint(-4, 0)
    base = rs.randint(-40, 41, size=3) / 8.0
    t = rs.permutation(np.arange(-(n // 2), n - n // 2)) if rs.randint(2) else np.arange(n)
    return base[None, :] + (t[:, None] * step) * line_direction(rs)[None, :]


def collinearize(rs, pos, bonds):
    """moves the two lowest-index bonded neighbours of one or two anchors onto a line through the anchor (the
    three points `_calculate_refsystems_general` hands to calcule_base); the rest stays generic"""
    pos = np.array(pos, dtype=float)
    n = len(pos)
    nb = [[] for _ in range(n)]
    for a, b in bonds:
        nb[a].append(b)
        nb[b].append(a)
    anchors = [i for i in range(n) if len(set(nb[i])) >= 2]
    for a in rs.permutation(anchors)[:int(rs.randint(1, 3))]:
        n1, n2 = sorted(set(nb[a]))[:2]
        d = line_direction(rs) * 2.0 ** rs.randint(-4, -1)
        s1, s2 = rs.choice([-3, -2, -1, 1, 2, 3], size=2, replace=False)
        pos[n1] = pos[a] + s1 * d
        pos[n2] = pos[a] + s2 * d
    return pos


def axis_rotation(rs):
    """a signed permutation matrix of determinant +1 (exact in binary64)"""
    while True:
        m = np.zeros((3, 3))
        for i, j in enumerate(rs.permutation(3)):
            m[i, j] = rs.choice([-1.0, 1.0])
        if np.linalg.det(m) > 0:
            return m


def split_residues(rs, n, nres, tag):
    """contiguous blocks: [(atomname, resname, resid)].  Residue names of a multi-residue molecule: all different, all
    the same (a dimer/polymer of identical units) or repeated in consecutive pairs (A A B)."""
    nres = max(1, min(nres, n))
    cuts = sorted(rs.choice(np.arange(1, n), size=nres - 1, replace=False).tolist()) if nres > 1 else []
    atoms, r = [], 0
    naming = "same" if nres == 1 else str(rs.choice(["distinct", "same", "pairs"], p=[0.45, 0.35, 0.2]))
    for k in range(n):
        if r < len(cuts) and k == cuts[r]:
            r += 1
        rn = tag if naming == "same" else "%s%d" % (tag[:3], r if naming == "distinct" else r // 2)
        atoms.append(["%s%d" % (tag[0], k), rn, r + 1])
    return atoms


def repeated_resnames(atoms):
    """two consecutive residues with the same residue name"""
    res = []
    for an, rn, rid in atoms:
        if not res or res[-1][0] != rid:
            res.append((rid, rn))
    return any(a[1] == b[1] for a, b in zip(res, res[1:]))


def gen_resids(rs, nres):
    """gro residue numbers of an argument: all different, all the same (`mol.resids = 7`), or some consecutive ones equal"""
    k = rs.randint(10)
    if k < 6 or nres == 1:
        return [int(x) for x in rs.randint(1, 9000, size=nres)]
    if k < 8:
        return [int(rs.randint(1, 9000))] * nres
    base = rs.randint(1, 9000, size=nres)
    j = int(rs.randint(nres - 1))
    base[j + 1] = base[j]
    return [int(x) for x in base]


def build_molecule(molname, atoms, positions, bonds, resid_offset=0, direct=True):
    """a Molecule with the given atoms [(atomname, resname, resid)] (contiguous residues), exact positions and bonds.
    direct: MoleculeTop(itp) + Residue([AtomGro, ...]) through the public constructors (needed when consecutive residues
    share their name: System does not recognise such a molecule in a .gro file); else through files (molgen)."""
    if not direct:
        return molgen.make_molecule(molname, atoms, positions, bonds, resid_offset=resid_offset)
    from gaddlemaps.components import AtomGro, Molecule, MoleculeTop, Residue
    itp = molgen.write_itp(molgen.fresh_path("itp", molname), molname, atoms, bonds)
    mtop = MoleculeTop(itp)
    residues, cur, last = [], [], None
    for k, (an, rn, rid) in enumerate(atoms):
        if last is not None and rid != last:
            residues.append(Residue(cur))
            cur = []
        last = rid
        cur.append(AtomGro([int(rid + resid_offset), rn, an, k + 1] + [float(x) for x in positions[k]]))
    residues.append(Residue(cur))
    return Molecule(mtop, residues)


def lst(a):
    return [[float(x) for x in p] for p in np.asarray(a)]


def neighbours(n, bonds):
    nb = [set() for _ in range(n)]
    for a, b in bonds:
        nb[a].add(b)
        nb[b].add(a)
    return [sorted(x) for x in nb]


def gen_degenerate(rs, ref_pos, bonds, tgt_pos):
    """recipe (JSON, finite numbers only) that makes an argument degenerate: `collapse` = the second, by index, of the
    bonded atoms of an anchor is put exactly on the anchor (first base vector 0/0); `nan` / `inf` = one coordinate of an
    atom entering an anchor's frame is replaced.  Generator only: nothing here is used to judge a result."""
    ref_pos, tgt_pos = np.asarray(ref_pos, dtype=float), np.asarray(tgt_pos, dtype=float)
    nb = neighbours(len(ref_pos), bonds)
    anchors = [i for i in range(len(ref_pos)) if len(nb[i]) >= 2]
    if not anchors:
        return {"mode": "nan", "atom": 0, "axis": int(rs.randint(3))}
    used = sorted(set(anchors[int(np.argmin([np.linalg.norm(t - ref_pos[a]) for a in anchors]))] for t in tgt_pos))
    a = int(rs.choice(used if rs.randint(6) else anchors))
    mode = str(rs.choice(["collapse", "nan", "inf"], p=[0.6, 0.25, 0.15]))
    if mode == "collapse":
        return {"mode": "collapse", "anchor": a, "onto": int(nb[a][1])}
    return {"mode": mode, "atom": int(rs.choice([a] + nb[a][:2])), "axis": int(rs.randint(3))}


def apply_degenerate(pos, d):
    pos = np.array(pos, dtype=float)
    if d["mode"] == "collapse":
        pos[d["onto"]] = pos[d["anchor"]]
    else:
        pos[d["atom"], d["axis"]] = np.nan if d["mode"] == "nan" else np.inf
    return pos


def gen_static(rs, uid, k_only=False):
    n_ref = int(rs.randint(3, 13))
    n_tgt = int(rs.randint(1, 21))
    gkind, bonds = gen_graph(rs, n_ref)
    nres_t = int(rs.choice([1, 1, 2, 2, 3, 4]))
    nres_t = min(nres_t, n_tgt)
    nres_r = nres_t if rs.randint(10) else int(rs.choice([1, 2, 3]))
    nres_r = min(nres_r, n_ref)
    rname, tname = "R%dX" % (uid % 1000), "T%dX" % (uid % 1000)
    ref_atoms = split_residues(rs, n_ref, nres_r, rname)
    tgt_atoms = split_residues(rs, n_tgt, nres_t, tname)
    geom = str(rs.choice(["generic", "rod", "collinear_anchor", "collinear_in_argument_only"], p=[0.55, 0.15, 0.15, 0.15]))
    ref_pos = walk_positions(rs, n_ref, bonds)
    if geom == "rod":
        ref_pos = rod_positions(rs, n_ref)
    elif geom == "collinear_anchor":
        ref_pos = collinearize(rs, ref_pos, bonds)
    tbonds = chain(n_tgt) if rs.randint(2) else [list(b) for b in molgen.random_tree(rs, n_tgt)]
    tgt_pos = ref_pos[rs.randint(n_ref, size=n_tgt)] + rs.normal(scale=0.15, size=(n_tgt, 3))
    spec = {
        "uid": uid, "graph_kind": gkind, "geometry": geom,
        "ref": {"name": rname, "atoms": ref_atoms, "bonds": bonds, "pos": lst(ref_pos),
                "resid_offset": int(rs.randint(0, 50)), "direct": bool(rs.randint(2))},
        "tgt": {"name": tname, "atoms": tgt_atoms, "bonds": [list(map(int, b)) for b in tbonds], "pos": lst(tgt_pos),
                "resid_offset": int(rs.randint(0, 50)), "direct": bool(rs.randint(2)),
                "vel": lst(rs.normal(size=(n_tgt, 3))) if rs.randint(3) == 0 else None},
        "scale": float(rs.choice([1.0, 0.5, float(rs.uniform(0.05, 2.0))])),
        "shared_top": False, "objs": [], "ops": [],
    }
    nres_r = len(set(a[2] for a in ref_atoms))
    if k_only and rs.randint(8) == 0:
        # reference and target of the same species sharing ONE topology (tgt = ref.copy() displaced)
        spec["shared_top"] = True
        spec["tgt"] = {"pos": lst(ref_pos + rs.normal(scale=0.1, size=ref_pos.shape)), "vel": None}
    objs = []
    for _ in range(int(rs.randint(2, 6))):
        how = rs.choice(["rigid", "deform", "new", "same", "translate", "axisrot"], p=[0.3, 0.2, 0.15, 0.1, 0.15, 0.1])
        if how == "rigid":
            p = (ref_pos - ref_pos.mean(0)) @ rotmat(rs).T + rs.uniform(-50, 50, size=3)
        elif how == "deform":
            p = ref_pos + rs.normal(scale=rs.uniform(0.05, 0.3), size=ref_pos.shape)
        elif how == "new":
            p = walk_positions(rs, n_ref, bonds)
        elif how == "translate":
            p = ref_pos + rs.randint(-80, 81, size=3) / 4.0          # dyadic: exact on the dyadic grid
        elif how == "axisrot":
            p = ref_pos @ axis_rotation(rs).T + rs.randint(-80, 81, size=3) / 4.0
        else:
            p = ref_pos.copy()
        if geom == "collinear_in_argument_only" and rs.randint(3):
            p = rod_positions(rs, n_ref) if rs.randint(2) else collinearize(rs, p, bonds)
        elif geom != "generic" and how in ("deform", "new") and rs.randint(2):
            p = collinearize(rs, p, bonds)
        objs.append({"kind": str(rs.choice(["copy", "deep"])), "pos": lst(p),
                     "gro_resids": gen_resids(rs, nres_r) if rs.randint(4) else None})
    if rs.randint(3) == 0:
        objs.append({"kind": "ref"})
    others = ["othername", "otheratoms", "shorter", "tgt"]
    if k_only:
        others += ["diffbonds", "deep_topresid"]
    if not k_only and rs.randint(3) == 0:
        # S only (K cuts a sequence at the first non-finite result, and the model stops at Err EDiv0 where numpy goes on
        # with NaN): 1..2 arguments of the species with a DEGENERATE anchor - an atom with >= 2 bonds that coincides with
        # the second (by index) of its bonded atoms, so that the first base vector is 0/0 - or with a NaN / inf coordinate.
        # The anchor is taken among those some target atom is attached to (nearest anchor, computed here for the
        # generator only), so that part of the result really is non-finite.
        for _ in range(int(rs.randint(1, 3))):
            withpos = [o for o in objs if "pos" in o]
            base = np.array(withpos[int(rs.randint(len(withpos)))]["pos"], dtype=float)
            objs.append({"kind": str(rs.choice(["copy", "deep"])), "pos": lst(base + rs.randint(-8, 9, size=3) / 4.0),
                         "gro_resids": gen_resids(rs, nres_r) if rs.randint(4) else None,
                         "degenerate": gen_degenerate(rs, ref_pos, bonds, tgt_pos)})
    for kind in rs.choice(others, size=int(rs.randint(1, 4)), replace=False):
        o = {"kind": str(kind), "pos": lst(walk_positions(rs, n_ref, bonds))}
        if kind == "diffbonds":
            _, b2 = gen_graph(rs, n_ref)
            o["bonds"] = b2
        if kind == "deep_topresid":
            o["top_resids"] = [int(x) for x in rs.randint(100, 200, size=nres_r)]
        objs.append(o)
    spec["reverse"] = False
    if not spec["shared_top"] and n_tgt >= 3 and rs.randint(4) == 0:
        # a reverse map ExchangeMap(tgt, ref) alive in the same world, with arguments of the target's species
        spec["reverse"] = True
        nres_tt = len(set(a[2] for a in tgt_atoms))
        for _ in range(int(rs.randint(1, 4))):
            p = (tgt_pos - tgt_pos.mean(0)) @ rotmat(rs).T + rs.uniform(-50, 50, size=3)
            objs.append({"kind": str(rs.choice(["tcopy", "tdeep"])), "pos": lst(p),
                         "gro_resids": gen_resids(rs, nres_tt) if rs.randint(4) else None})
    order = rs.permutation(len(objs))
    spec["objs"] = [objs[i] for i in order]
    return spec


def collinear_anchors(mol):
    """number of anchors of the molecule that are collinear (1e-6 relative, the threshold of calcule_base) with their two
    lowest-index bonded neighbours - computed here independently, for the evidence only"""
    pos = np.array(mol.atoms_positions, dtype=float)
    k = 0
    for i, a in enumerate(mol):
        b = sorted(a.bonds)
        if len(b) >= 2:
            u, v = pos[b[1]] - pos[i], pos[b[0]] - pos[i]
            nu = np.linalg.norm(u)
            if nu > 0 and np.linalg.norm(np.cross(u / nu, v)) <= 1e-6 * np.linalg.norm(v):
                k += 1
    return k


VALID = ("copy", "deep", "ref", "rresult")          # handles of the reference's species (rresult: returned by the reverse map)
RVALID = ("tcopy", "tdeep", "tgt", "result")       # handles of the target's species = arguments of the reverse map
NONMOL = ["none", "int", "str", "array", "residue", "moltop", "atomlist"]


# ------------------------------------------------------------------ the real objects
class Session:
    """realises a spec on the implementation and applies operations to it"""

    def __init__(self, spec, before_build=None):
        from gaddlemaps import ExchangeMap
        self.spec = spec
        r, t = spec["ref"], spec["tgt"]
        self.ref = build_molecule(r["name"], [tuple(a) for a in r["atoms"]], np.array(r["pos"]),
                                  [tuple(b) for b in r["bonds"]], resid_offset=r["resid_offset"],
                                  direct=r.get("direct", False) or repeated_resnames(r["atoms"]))
        if spec["shared_top"]:
            self.tgt = self.ref.copy()
            self.tgt.atoms_positions = np.array(t["pos"], dtype=float)
        else:
            self.tgt = build_molecule(t["name"], [tuple(a) for a in t["atoms"]], np.array(t["pos"]),
                                      [tuple(b) for b in t["bonds"]], resid_offset=t["resid_offset"],
                                      direct=t.get("direct", False) or repeated_resnames(t["atoms"]))
            if t.get("vel") is not None:
                self.tgt.atoms_velocities = np.array(t["vel"], dtype=float)
        self.objs, self.kinds = [], []
        for o in spec["objs"]:
            self.objs.append(self._make_obj(o))
            self.kinds.append(o["kind"])
        self.n_static = len(self.objs)
        self.collinear_calls = 0           # calls on an argument with a collinear anchor (aligned branch of calcule_base)
        self.collinear_at_build = collinear_anchors(self.ref)
        # snapshots taken at construction time (for the fresh-map oracle)
        self.ref0 = self.ref.deep_copy()
        self.tgt0 = self.tgt.deep_copy()
        self.build_exc = None
        self.map = None
        self.rev = None
        if before_build is not None:
            before_build(self)            # observation point: every molecule exists, the map does not yet
        with np.errstate(all="ignore"):
            try:
                self.map = ExchangeMap(self.ref, self.tgt, spec["scale"])
                self.rev = ExchangeMap(self.tgt, self.ref, spec["scale"]) if spec.get("reverse") else None
            except Exception as e:  # noqa
                self.build_exc = e

    def _make_obj(self, o):
        k = o["kind"]
        r = self.spec["ref"]
        if k == "ref":
            return self.ref
        if k == "tgt":
            return self.tgt
        if k in ("tcopy", "tdeep"):
            a = self.tgt.copy() if k == "tcopy" else self.tgt.deep_copy()
            a.atoms_positions = np.array(o["pos"], dtype=float)
            if o.get("gro_resids"):
                for res, v in zip(a.residues, o["gro_resids"]):
                    res.resid = int(v)
            return a
        if k in ("copy", "deep", "deep_topresid"):
            a = self.ref.copy() if k == "copy" else self.ref.deep_copy()
            a.atoms_positions = (np.array(o["pos"], dtype=float) if not o.get("degenerate") else
                                 apply_degenerate(o["pos"], o["degenerate"]))
            if o.get("gro_resids"):
                for res, v in zip(a.residues, o["gro_resids"]):
                    res.resid = int(v)
            if k == "deep_topresid":
                a.resids = [int(x) for x in o["top_resids"]]
            return a
        atoms = [tuple(a) for a in r["atoms"]]
        bonds = [tuple(b) for b in r["bonds"]]
        name = r["name"]
        pos = np.array(o["pos"], dtype=float)
        if k == "othername":
            name = "Q" + name[1:]
        elif k == "otheratoms":
            j = len(atoms) // 2
            atoms[j] = ("Z" + atoms[j][0][1:],) + tuple(atoms[j][1:])
        elif k == "shorter":
            # drop the last atom (keep every residue non-empty and the bonds inside the range)
            n = len(atoms) - 1
            if n < 1 or len(set(a[2] for a in atoms[:n])) != len(set(a[2] for a in atoms)):
                n = len(atoms)
                atoms = atoms + [("Y9", atoms[-1][1], atoms[-1][2])]
                pos = np.vstack([pos, pos[-1] + 0.1])
                bonds = bonds + [(n - 1, n)]
            else:
                atoms, pos = atoms[:n], pos[:n]
                bonds = [b for b in bonds if b[0] < n and b[1] < n]
        elif k == "diffbonds":
            bonds = [tuple(b) for b in o["bonds"]]
        return build_molecule(name, atoms, pos, bonds, resid_offset=r["resid_offset"],
                              direct=r.get("direct", False) or repeated_resnames(atoms))

    def nonmol(self, what):
        if what == "none":
            return None
        if what == "int":
            return 3
        if what == "str":
            return self.spec["ref"]["name"]
        if what == "array":
            return np.array(self.spec["ref"]["pos"])
        if what == "residue":
            return self.ref.residues[0]
        if what == "moltop":
            return self.ref.molecule_top
        return list(self.ref)

    def apply(self, op):
        """returns ('ok', result or None) or ('exc', exception)"""
        k = op["op"]
        try:
            with np.errstate(all="ignore"):
                if k == "call":
                    if self.kinds[op["h"]] in VALID and collinear_anchors(self.objs[op["h"]]):
                        self.collinear_calls += 1
                    res = self.map(self.objs[op["h"]])
                    self.objs.append(res)
                    self.kinds.append("result")
                    return "ok", res
                if k == "callrev":
                    res = self.rev(self.objs[op["h"]])
                    self.objs.append(res)
                    self.kinds.append("rresult")
                    return "ok", res
                if k == "nonmol":
                    res = self.map(self.nonmol(op["what"]))
                    return "ok", res
                if k in ("renumref", "renumtgt", "renumobj"):
                    mol = self.ref if k == "renumref" else self.tgt if k == "renumtgt" else self.objs[op["h"]]
                    if op.get("int"):
                        mol.resids = int(op["rids"][0])      # documented int form: every residue gets this number
                    else:
                        mol.resids = [int(x) for x in op["rids"]]
                    return "ok", None
                if k in ("moveref", "movetgt"):
                    # S only: the whole construction molecule is moved / rotated / re-aligned after the map was built
                    (self.ref if k == "moveref" else self.tgt).atoms_positions = np.array(op["pos"], dtype=float)
                    return "ok", None
                mol = self.ref if k == "pokeref" else self.tgt if k == "poketgt" else self.objs[op["h"]]
                mol[op["i"]].position = np.array(op["v"], dtype=float)
                return "ok", None
        except Exception as e:  # noqa
            return "exc", e

    def live(self):
        """distinct live molecules (by identity) with a label"""
        out, seen = [], set()
        for lab, m in [("construction reference", self.ref), ("construction target", self.tgt)] + \
                [("handle %d (%s)" % (i, self.kinds[i]), m) for i, m in enumerate(self.objs)]:
            if id(m) not in seen:
                seen.add(id(m))
                out.append((lab, m))
        return out


def next_op(rs, ses, allow_ambiguous):
    """one random operation given the current handles"""
    kinds = ses.kinds
    valid = [i for i, k in enumerate(kinds) if k in VALID or (allow_ambiguous and k == "diffbonds")]
    other = [i for i, k in enumerate(kinds) if k not in VALID and k != "diffbonds"]
    pokeable = [i for i, k in enumerate(kinds) if k in ("copy", "deep", "result", "deep_topresid", "tcopy", "tdeep", "rresult")]
    results = [i for i, k in enumerate(kinds) if k in ("result", "rresult")]
    if not allow_ambiguous:
        # S only: rigid motion of a whole construction molecule ("later changes to the molecules the map was built from")
        c2 = rs.uniform()
        if c2 < 0.09:
            mol = ses.tgt if c2 < 0.06 else ses.ref
            p = np.array(mol.atoms_positions, dtype=float)
            if np.isfinite(p).all():
                g = p.mean(0)
                p = (p - g) @ rotmat(rs).T + g + rs.uniform(-8, 8, size=3)
                return {"op": "movetgt" if c2 < 0.06 else "moveref", "pos": lst(p)}
    c = rs.uniform()
    v = [float(x) for x in rs.uniform(-6, 6, size=3)]

    def rids_for(mol):
        n = len(mol.resids)
        if rs.randint(12) == 0:
            return {"rids": [int(x) for x in rs.randint(1, 9000, size=n + 1)]}     # a wrong length: ValueError
        if rs.randint(5) == 0:
            return {"rids": [int(rs.randint(1, 9000))] * n, "int": True}          # the int form `mol.resids = 7`
        return {"rids": gen_resids(rs, n)}
    if ses.rev is not None and c < 0.18:
        rvalid = [i for i, k in enumerate(kinds) if k in RVALID]
        rother = [i for i, k in enumerate(kinds) if k not in RVALID]
        pool = rvalid if (rs.randint(5) or not rother) else rother
        if pool:
            return {"op": "callrev", "h": int(rs.choice(pool))}
    if c < 0.45 and valid:
        return {"op": "call", "h": int(rs.choice(valid))}
    if c < 0.55 and other:
        return {"op": "call", "h": int(rs.choice(other))}
    if c < 0.60:
        return {"op": "nonmol", "what": str(rs.choice(NONMOL))}
    if c < 0.64:
        return dict({"op": "renumref"}, **rids_for(ses.ref))
    if c < 0.67:
        return dict({"op": "renumtgt"}, **rids_for(ses.tgt))
    if c < 0.72 and pokeable:
        h = int(rs.choice(pokeable))
        return dict({"op": "renumobj", "h": h}, **rids_for(ses.objs[h]))
    if c < 0.78:
        return {"op": "pokeref", "i": int(rs.randint(len(ses.ref))), "v": v}
    if c < 0.84:
        return {"op": "poketgt", "i": int(rs.randint(len(ses.tgt))), "v": v}
    if c < 0.92 and results:
        h = int(rs.choice(results))
        return {"op": "pokeobj", "h": h, "i": int(rs.randint(len(ses.objs[h]))), "v": v}
    if pokeable:
        h = int(rs.choice(pokeable))
        return {"op": "pokeobj", "h": h, "i": int(rs.randint(len(ses.objs[h]))), "v": v}
    return {"op": "nonmol", "what": "none"}


# ------------------------------------------------------------------ K: heap observation
class HeapObserver:
    """numbers AtomGro / AtomTop objects by identity, in first-seen order"""

    def __init__(self):
        self.g, self.t = {}, {}
        self.gobj, self.tobj = [], []      # location -> object (None = unreachable garbage)
        self.gprev, self.tprev = [], []

    def gloc(self, a):
        if id(a) not in self.g:
            self.g[id(a)] = len(self.gobj)
            self.gobj.append(a)
        return self.g[id(a)]

    def tloc(self, a):
        if id(a) not in self.t:
            self.t[id(a)] = len(self.tobj)
            self.tobj.append(a)
        return self.t[id(a)]

    def add_dead(self, n):
        self.gobj += [None] * n

    def mol_record(self, m):
        mt = m.molecule_top
        tops = [self.tloc(mt[i]) for i in range(len(mt))]
        res = [[self.gloc(r[j]) for j in range(len(r))] for r in m.residues]
        return 'mkMol "%s" %s %s' % (m.name, natlist(tops), lib.coq_list([natlist(r) for r in res]))

    @staticmethod
    def gcontent(a):
        p = np.array(a.position, dtype=float)
        vel = None if a.velocity is None else tuple(float(x) for x in a.velocity)
        return (int(a.resid), str(a.resname), str(a.name), int(a.atomid), tuple(float(x) for x in p), vel)

    @staticmethod
    def tcontent(a):
        return (str(a.name), str(a.resname), int(a.resid), int(a.index), tuple(sorted(int(b) for b in a.bonds)))

    @staticmethod
    def gterm(c):
        vel = "None" if c[5] is None else "(Some %s)" % v3(c[5])
        return '(mkG %s "%s" "%s" %s %s %s)' % (lib.coq_z(c[0]), c[1], c[2], lib.coq_z(c[3]), v3(c[4]), vel)

    @staticmethod
    def tterm(c):
        return '(mkT "%s" "%s" %s %d%%nat %s)' % (c[0], c[1], lib.coq_z(c[2]), c[3], natlist(c[4]))

    def heap_term(self):
        self.gprev = [self.gcontent(a) for a in self.gobj]
        self.tprev = [self.tcontent(a) for a in self.tobj]
        return "(mkHeap %s %s)" % (lib.coq_list([self.gterm(c) for c in self.gprev]),
                                   lib.coq_list([self.tterm(c) for c in self.tprev]))

    def delta_terms(self):
        gnow = [None if a is None else self.gcontent(a) for a in self.gobj]
        tnow = [self.tcontent(a) for a in self.tobj]
        gt = []
        for k, c in enumerate(gnow):
            if c is None:
                gt.append("GDead")
            elif k < len(self.gprev) and same_content(self.gprev[k], c):
                gt.append("GSame")
            else:
                gt.append("GNow %s" % self.gterm(c))
        tt = []
        for k, c in enumerate(tnow):
            tt.append("TSame" if k < len(self.tprev) and self.tprev[k] == c else "TNow %s" % self.tterm(c))
        self.gprev, self.tprev = gnow, tnow
        return lib.coq_list(rle(gt, "GSame")), lib.coq_list(rle(tt, "TSame"))


def rle(items, same):
    """runs of `same` (>= 3) become `sameN k` (k <= 1000)"""
    out, k = [], 0
    for it in items + [None]:
        if it == same and k < 1000:
            k += 1
            continue
        if k >= 3:
            out.append("%sN %d%%nat" % (same, k))
        else:
            out += [same] * k
        k = 0
        if it == same:
            k = 1
        elif it is not None:
            out.append(it)
    return out


def same_content(a, b):
    """bitwise identity of two cell contents (floats compared by their bit patterns)"""
    if a is None or b is None:
        return a is b
    if a[:4] != b[:4]:
        return False
    fa = np.array(a[4] + (a[5] or ()), dtype=float)
    fb = np.array(b[4] + (b[5] or ()), dtype=float)
    return (a[5] is None) == (b[5] is None) and fa.tobytes() == fb.tobytes()


def natlist(l):
    return lib.coq_list(["%d%%nat" % int(x) for x in l])


def op_term(op):
    k = op["op"]
    if k == "callrev":
        return "KRev %d%%nat" % op["h"]
    return "KOp (%s)" % mop_term(op)


def mop_term(op):
    k = op["op"]
    if k == "call":
        return "Call %d%%nat" % op["h"]
    if k == "nonmol":
        return "CallNonMolecule"
    if k == "pokeref":
        return "PokeRef %d%%nat %s" % (op["i"], v3(op["v"]))
    if k == "poketgt":
        return "PokeTgt %d%%nat %s" % (op["i"], v3(op["v"]))
    if k in ("renumref", "renumtgt"):
        return "%s %s" % ("RenumRef" if k == "renumref" else "RenumTgt", lib.coq_list([lib.coq_z(x) for x in op["rids"]]))
    if k == "renumobj":
        return "RenumObj %d%%nat %s" % (op["h"], lib.coq_list([lib.coq_z(x) for x in op["rids"]]))
    return "PokeObj %d%%nat %d%%nat %s" % (op["h"], op["i"], v3(op["v"]))


def run_K_case(spec, rs, n_ops):
    """Runs (and, when spec['ops'] is empty, generates) the sequence on the implementation, observing the heap.
    Returns (coq term, stats)."""
    ho = HeapObserver()
    pre = {}

    def before_build(ses_):
        pre["ref"] = ho.mol_record(ses_.ref)
        pre["tgt"] = ho.mol_record(ses_.tgt)
        pre["objs"] = [ho.mol_record(m) for m in ses_.objs]
        pre["heap"] = ho.heap_term()
    ses = Session(spec, before_build)
    refrec, tgtrec, objrecs, heap0 = pre["ref"], pre["tgt"], pre["objs"], pre["heap"]
    bg, bt = ho.delta_terms()            # what the construction of the map did to the heap (nothing, in the model)
    n_tgt = len(ses.tgt)
    stats = {"calls_ok": 0, "rejected": 0, "valueerror": 0, "pokes": 0, "between": False, "nonfinite": False,
             "collinear_calls": 0, "collinear_build": int(bool(ses.collinear_at_build))}
    if ses.build_exc is not None:
        term = "chk_c04 %s %s %s (%s) (%s) %s (Some %s) [] [] [] [] [] []" % (
            fl(spec["scale"]), heap0, lib.coq_list(["(%s)" % r for r in objrecs]), refrec, tgtrec,
            "true" if spec.get("reverse") else "false", exc_code(ses.build_exc))
        return term, stats
    keys0 = [int(k) for k in ses.map._refsystems]
    eq0 = [None] * n_tgt
    for a, ts in ses.map.equivalences.items():
        for t in ts:
            eq0[t] = int(a)
    eq0 = [len(ses.ref) + 7 if x is None else x for x in eq0]
    generate = not spec["ops"]
    ops, obs = [], []
    seen_event_after_first = False
    for step in range(n_ops if generate else len(spec["ops"])):
        op = next_op(rs, ses, True) if generate else spec["ops"][step]
        if not generate and "h" in op and op["h"] >= len(ses.objs):
            break
        if not generate and op["op"] == "callrev" and ses.rev is None:
            break
        status, val = ses.apply(op)
        ops.append(op)
        if status == "exc":
            out = "OErr %s" % exc_code(val)
            if op["op"] in ("call", "callrev", "nonmol"):
                if isinstance(val, ValueError):
                    # the copy of the (reverse) map's target made before the setter raised
                    ho.add_dead(n_tgt if op["op"] != "callrev" else len(ses.ref))
                    stats["valueerror"] += 1
                else:
                    stats["rejected"] += 1
                if stats["calls_ok"]:
                    seen_event_after_first = True
        elif op["op"] in ("call", "callrev", "nonmol"):
            if val is None or not hasattr(val, "atoms_positions"):
                out = "OErr EStop"
            elif not np.isfinite(val.atoms_positions).all():
                out = "ONonFinite"
                stats["nonfinite"] = True
            else:
                out = "OOkMol (%s)" % ho.mol_record(val)
                stats["calls_ok"] += 1
                if stats["calls_ok"] >= 2 and seen_event_after_first:
                    stats["between"] = True
        else:
            out = "OOkPoke"
            stats["pokes"] += 1
            if stats["calls_ok"]:
                seen_event_after_first = True
        g, t = ho.delta_terms()
        obs.append("(mkObs (%s) %s %s %s)" % (out, g, t, natlist(list(ses.map._refsystems))))
        if out == "ONonFinite":
            break
    if generate:
        spec["ops"] = ops
    stats["collinear_calls"] = ses.collinear_calls
    term = "chk_c04 %s %s %s (%s) (%s) %s None %s %s %s %s %s %s" % (
        fl(spec["scale"]), heap0, lib.coq_list(["(%s)" % r for r in objrecs]), refrec, tgtrec,
        "true" if spec.get("reverse") else "false", bg, bt,
        natlist(keys0), natlist(eq0), lib.coq_list(["(%s)" % op_term(o) for o in ops], sep=";\n      "),
        lib.coq_list(obs, sep=";\n      "))
    return term, stats


# ------------------------------------------------------------------ S: the property text on the implementation
TOL_FRESH = 1e-12
TOL_REPEAT = 4e-12        # two results of the same map for the same coordinates (each within TOL_FRESH of a fresh map's)


def coords(m):
    return np.array(m.atoms_positions, dtype=float).copy()


def coords_dev(got, want):
    """NaN-aware deviation of two coordinate arrays: inf when the shapes differ or the non-finite entries are not at the
    same places (what kind of non-finite value is not compared), else the largest |got - want| / (1 + |want|) over the
    finite entries (0 when there is none)"""
    got, want = np.asarray(got, dtype=float), np.asarray(want, dtype=float)
    if got.shape != want.shape:
        return float("inf")
    fg, fw = np.isfinite(got), np.isfinite(want)
    if (fg != fw).any():
        return float("inf")
    if not fw.any():
        return 0.0
    return float(np.max(np.abs(got[fw] - want[fw]) / (1.0 + np.abs(want[fw]))))


def dev_text(dev):
    return "by %.3g" % dev if np.isfinite(dev) else "(finite where the other is NaN/inf, or the reverse)"


def oracle_sequence(spec, gen=None):
    """Runs spec (generating the operations with `gen = (rs, n_ops)` when spec['ops'] is empty) and returns the list of
    violated clauses (empty = the property holds on this sequence), plus statistics."""
    from gaddlemaps import ExchangeMap
    from gaddlemaps.components import Molecule
    pre = []
    ses = Session(spec, lambda ses_: pre.extend((lab, m, coords(m)) for lab, m in ses_.live()))
    bad = []
    stats = {"calls_ok": 0, "rejected": 0, "skipped": 0, "pokes": 0, "between": False,
             "nonfinite_calls": 0, "nonfinite_after_target_moved": 0,
             "collinear_calls": 0, "collinear_build": int(bool(ses.collinear_at_build))}
    if ses.build_exc is not None:
        return ["construction raised %r" % ses.build_exc], stats
    for lab, m, c0 in pre:
        if c0.tobytes() != coords(m).tobytes():
            bad.append("building the map changed the coordinates of %s" % lab)
    labels = {"call": ([a.name for a in ses.tgt0], [a.resname for a in ses.tgt0]),
              "callrev": ([a.name for a in ses.ref0], [a.resname for a in ses.ref0])}
    own = {"call": VALID, "callrev": RVALID}
    # has the topology of the map's reference been renumbered since the construction?  (then "same species" is
    # decided by a map built at that moment; before, every handle of the species must be accepted)
    dirty = {"call": False, "callrev": False}
    target_moved = {"call": False, "callrev": False}     # evidence only: has the map's construction target been moved?
    memo = {}                                            # (map, argument coordinates) -> (step, first result)

    def fresh_now(which):
        """a map built NOW from the current construction molecules (current residue numbers, gro and topology) at their
        construction-time coordinates"""
        rf = ses.ref.deep_copy()
        rf.atoms_positions = coords(ses.ref0)
        tf = ses.tgt.deep_copy()
        tf.atoms_positions = coords(ses.tgt0)
        return ExchangeMap(rf, tf, spec["scale"]) if which == "call" else ExchangeMap(tf, rf, spec["scale"])

    generate = not spec["ops"]
    ops = []
    event = False
    n = gen[1] if generate else len(spec["ops"])
    for step in range(n):
        op = next_op(gen[0], ses, False) if generate else spec["ops"][step]
        if "h" in op and op["h"] >= len(ses.objs):
            continue                              # replay on another tree: the handle was never produced
        if op["op"] == "callrev" and ses.rev is None:
            continue
        ops.append(op)
        which = op["op"]
        is_call = which in ("call", "callrev")
        before = [(lab, m, coords(m)) for lab, m in ses.live()]
        kind = ses.kinds[op["h"]] if is_call else None
        arg = ses.objs[op["h"]] if is_call else None
        arg_resids = list(arg.resids) if arg is not None else None
        arg_coords = coords(arg) if arg is not None else None
        unclassified = is_call and (kind in ("diffbonds", "deep_topresid") or spec["shared_top"])
        exp_kind, exp = None, None
        if is_call and not unclassified:
            with np.errstate(all="ignore"):
                try:
                    exp = fresh_now(which)(arg.deep_copy())
                    exp_kind = "ok"
                except TypeError:
                    exp_kind = "type"
                except ValueError:
                    exp_kind = "value"
                except Exception as e:  # noqa
                    exp_kind = "other %r" % e
        status, val = ses.apply(op)
        where = "step %d %s" % (step, json.dumps(op)[:80])
        # --- purity: coordinates of every live molecule, bit for bit
        poked = moved = None
        if which.startswith("poke") and status == "ok":
            poked = ses.ref if which == "pokeref" else ses.tgt if which == "poketgt" else ses.objs[op["h"]]
        if which.startswith("move") and status == "ok":
            moved = ses.ref if which == "moveref" else ses.tgt
            if which == "movetgt":
                target_moved["call"] = True
            else:
                target_moved["callrev"] = True
        if which == "poketgt":
            target_moved["call"] = True
        if which == "pokeref":
            target_moved["callrev"] = True
        if which.startswith("poke") or which.startswith("renum") or which.startswith("move"):
            stats["pokes"] += 1
            if stats["calls_ok"]:
                event = True
        for lab, m, c0 in before:
            c1 = coords(m)
            if m is poked:
                c0 = c0.copy()
                c0[op["i"]] = np.array(op["v"], dtype=float)
            if m is moved:
                c0 = np.array(op["pos"], dtype=float)
            if c0.shape != c1.shape or c0.tobytes() != c1.tobytes():
                bad.append("%s: coordinates of %s changed" % (where, lab))
        # --- bookkeeping of topology renumbering (after the operation)
        if status == "ok":
            if which in ("renumref", "renumobj") or which == "callrev":
                dirty["call"] = True
            if which in ("renumtgt", "renumobj") or which == "call":
                dirty["callrev"] = True
        # --- outcome
        if which == "nonmol":
            if not (status == "exc" and isinstance(val, TypeError)):
                bad.append("%s: expected TypeError, got %s" % (where, repr(val)[:80]))
            stats["rejected"] += 1
            if stats["calls_ok"]:
                event = True
        elif is_call and not unclassified:
            rejected = status == "exc" and isinstance(val, TypeError)
            if kind not in own[which]:
                # another species (other name / atom names / length): TypeError, whatever happened before
                if not rejected:
                    bad.append("%s: expected TypeError, got %s" % (where, repr(val)[:80]))
                stats["rejected"] += 1
                if stats["calls_ok"]:
                    event = True
                continue
            if not dirty[which] and exp_kind == "type":
                bad.append("%s: a freshly built map rejects an argument of its own species" % where)
                continue
            if exp_kind == "type":
                # the reference's topology was renumbered: this handle is no longer of the species NOW
                if not rejected:
                    bad.append("%s: accepted, but a map built at this moment from the current construction molecules "
                               "raises TypeError: got %s" % (where, repr(val)[:60]))
                stats["rejected"] += 1
                continue
            n_res_target = len((ses.tgt if which == "call" else ses.ref).residues)
            if len(arg_resids) != n_res_target:
                stats["skipped"] += 1             # residue numbers cannot be transferred: outside the property
                continue
            if exp_kind == "value":
                # same number of residues as the map's target, accepted species: nothing in the history may make a map
                # (this one or one built now on the same objects) refuse it
                bad.append("%s: a map built at this moment from the current construction molecules raises ValueError for an "
                           "argument of the species with the target's number of residues%s" %
                           (where, "" if status == "ok" else "; so does the map (%s)" % repr(val)[:60]))
                continue
            if exp_kind != "ok":
                bad.append("%s: a freshly built map raised %s" % (where, exp_kind))
                continue
            if status != "ok" or not isinstance(val, Molecule):
                bad.append("%s: argument of the map's species not mapped (%s), while a map built at this moment from the "
                           "current construction molecules maps it" % (where, repr(val)[:60]))
                continue
            stats["calls_ok"] += 1
            if stats["calls_ok"] >= 2 and event:
                stats["between"] = True
            got, want = coords(val), coords(exp)
            if got.shape != want.shape:
                bad.append("%s: %d atoms returned, fresh map returns %d" % (where, len(got), len(want)))
            else:
                # NaN-aware (a degenerate anchor or a NaN/inf coordinate of the ARGUMENT gives non-finite positions for the
                # target atoms attached to that anchor, on every call and in the fresh map alike): non-finite at the same
                # places, finite ones equal
                if not np.isfinite(want).all():
                    stats["nonfinite_calls"] += 1
                    if target_moved[which]:
                        stats["nonfinite_after_target_moved"] += 1
                dev = coords_dev(got, want)
                if not dev <= TOL_FRESH:
                    bad.append("%s: result differs from a freshly built map's %s" % (where, dev_text(dev)))
                # the same map, an argument with the same coordinates as in an earlier call: the same molecule, whatever
                # happened in between (earlier calls, other maps, changes of the construction molecules)
                key = (which, arg_coords.shape, arg_coords.tobytes())
                if key in memo:
                    dev = coords_dev(got, memo[key][1])
                    if not dev <= TOL_REPEAT:
                        bad.append("%s: result differs from the one this map returned at step %d for an argument with the same "
                                   "coordinates %s" % (where, memo[key][0], dev_text(dev)))
                else:
                    memo[key] = (step, got)
            if [a.name for a in val] != labels[which][0]:
                bad.append("%s: atom names/order are not the target's" % where)
            if [a.resname for a in val] != labels[which][1]:
                bad.append("%s: residue names are not the target's" % where)
            if list(val.resids) != arg_resids:
                bad.append("%s: residue numbers %s are not the argument's %s" % (where, list(val.resids)[:5], arg_resids[:5]))
            for lab, m, _ in before:
                if val is m:
                    bad.append("%s: the returned molecule is %s itself" % (where, lab))
        if len(bad) > 5:
            break
    if generate:
        spec["ops"] = ops
    stats["collinear_calls"] = ses.collinear_calls
    return bad, stats


# ------------------------------------------------------------------ committed witnesses
def corpus_specs():
    """hand-written sequences: repeats, A-B-A order, rejected arguments and construction mutations in between"""
    rs = np.random.RandomState(4)
    out = []
    for uid, (nres, n_tgt) in enumerate([(1, 5), (2, 7), (1, 1)]):
        n_ref = 5
        bonds = [[0, 1], [1, 2], [2, 3], [1, 4]]
        ref_atoms = [["R%d" % k, "RC%d" % (k * nres // n_ref), 1 + k * nres // n_ref] for k in range(n_ref)]
        tgt_atoms = [["T%d" % k, "TC%d" % (k * nres // n_tgt), 1 + k * nres // n_tgt] for k in range(n_tgt)]
        ref_pos = walk_positions(rs, n_ref, bonds)
        spec = {"uid": 900 + uid, "graph_kind": "corpus",
                "ref": {"name": "RC%dX" % uid, "atoms": ref_atoms, "bonds": bonds, "pos": lst(ref_pos), "resid_offset": 0},
                "tgt": {"name": "TC%dX" % uid, "atoms": tgt_atoms, "bonds": chain(n_tgt),
                        "pos": lst(ref_pos[rs.randint(n_ref, size=n_tgt)] + rs.normal(scale=0.1, size=(n_tgt, 3))),
                        "resid_offset": 3, "vel": None},
                "scale": 0.5, "shared_top": False,
                "objs": [{"kind": "copy", "pos": lst(ref_pos @ rotmat(rs).T + 3.0), "gro_resids": [7 + j for j in range(nres)]},
                         {"kind": "deep", "pos": lst(ref_pos + rs.normal(scale=0.2, size=ref_pos.shape)),
                          "gro_resids": [70 + j for j in range(nres)]},
                         {"kind": "othername", "pos": lst(ref_pos)},
                         {"kind": "tgt"}, {"kind": "ref"}],
                "ops": [{"op": "call", "h": 0}, {"op": "call", "h": 1}, {"op": "call", "h": 0},
                        {"op": "call", "h": 2}, {"op": "nonmol", "what": "none"}, {"op": "call", "h": 1},
                        {"op": "pokeref", "i": 1, "v": [9.0, -3.0, 2.5]}, {"op": "poketgt", "i": 0, "v": [1.0, 2.0, 3.0]},
                        {"op": "call", "h": 0}, {"op": "call", "h": 3}, {"op": "pokeobj", "h": 5, "i": 0, "v": [0.0, 0.0, 1.0]},
                        {"op": "call", "h": 4}, {"op": "call", "h": 1}, {"op": "pokeobj", "h": 1, "i": 2, "v": [4.0, 4.0, 4.0]},
                        {"op": "call", "h": 1}, {"op": "call", "h": 0}]}
        out.append(spec)
    out.append(rod_witness())
    out += renumber_witnesses()
    out.append(dimer_witness())
    return out


def rod_witness():
    """a 5-bead reference whose last three beads are exactly on a line (parallel to x), mapped to a 7-atom target;
    four rigidly moved arguments, each mapped twice, interleaved (seeded/C04-6: an in-place `pos1 += ...` in the aligned
    branch of calcule_base moved one atom of the argument by 1 nm per call and the reference at construction)"""
    cg = np.array([[0.100, 0.450, 0.120], [0.250, 0.300, 0.050], [0.400, 0.200, 0.300], [0.550, 0.200, 0.300],
                   [0.700, 0.200, 0.300]])
    aa = np.array([[0.110, 0.440, 0.130], [0.240, 0.310, 0.060], [0.410, 0.190, 0.290], [0.540, 0.210, 0.310],
                   [0.710, 0.205, 0.295], [0.050, 0.500, 0.100], [0.760, 0.150, 0.330]])

    def moved(k):
        ang = 0.41 * k
        rot = np.array([[np.cos(ang), -np.sin(ang), 0.], [np.sin(ang), np.cos(ang), 0.], [0., 0., 1.]])
        return cg.dot(rot.T) + np.array([0.7 * k, -0.3 * k, 0.2 * k])
    return {"uid": 950, "graph_kind": "corpus", "geometry": "collinear_anchor",
            "ref": {"name": "RODCG", "atoms": [["B%d" % (k + 1), "ROD", 1] for k in range(5)], "bonds": chain(5),
                    "pos": lst(cg), "resid_offset": 0},
            "tgt": {"name": "RODAA", "atoms": [[n, "ROD", 1] for n in ["C1", "C2", "C3", "C4", "C5", "H1", "H2"]],
                    "bonds": [[0, 1], [1, 2], [2, 3], [3, 4], [0, 5], [4, 6]], "pos": lst(aa), "resid_offset": 0,
                    "vel": None},
            "scale": 0.5, "shared_top": False,
            "objs": [{"kind": "copy", "pos": lst(moved(k)), "gro_resids": [10 + k]} for k in range(4)],
            "ops": [{"op": "call", "h": k} for k in [0, 1, 0, 2, 3, 2, 1, 3]]}


def renumber_witnesses():
    """seeded/C04-7 (species fingerprint of the reference cached at construction):
    A - the construction reference is renumbered after the map was built; an argument sharing its topology is still of
        the species and must be mapped as before;
    B - a forward and a reverse map alive together: one forward call with an argument numbered 5 writes that number
        into the target's topology = the topology of the reverse map's reference; the reverse map must go on accepting
        an argument that shares that topology."""
    rs = np.random.RandomState(7)
    bonds = [[0, 1], [1, 2], [2, 3], [1, 4]]
    ref_pos = walk_positions(rs, 5, bonds)
    tgt_pos = ref_pos[[0, 1, 1, 2, 3, 4]] + rs.normal(scale=0.1, size=(6, 3))
    base = {"graph_kind": "corpus", "geometry": "generic",
            "ref": {"name": "CGW", "atoms": [["G%d" % k, "CGW", 1] for k in range(5)], "bonds": bonds, "pos": lst(ref_pos),
                    "resid_offset": 0},
            "tgt": {"name": "AAW", "atoms": [["A%d" % k, "AAW", 1] for k in range(6)], "bonds": chain(6), "pos": lst(tgt_pos),
                    "resid_offset": 0, "vel": None},
            "scale": 1.0, "shared_top": False}
    a = dict(base, uid=960, reverse=False,
             objs=[{"kind": "copy", "pos": lst(ref_pos + np.array([0.3, -0.2, 0.7])), "gro_resids": [1]}],
             ops=[{"op": "call", "h": 0}, {"op": "renumref", "rids": [7]}, {"op": "call", "h": 0},
                  {"op": "renumobj", "h": 0, "rids": [9]}, {"op": "call", "h": 0}])
    b = dict(base, uid=961, reverse=True,
             objs=[{"kind": "tcopy", "pos": lst(tgt_pos + np.array([1.0, 2.0, 3.0])), "gro_resids": [1]},
                   {"kind": "copy", "pos": lst(ref_pos + 0.1), "gro_resids": [5]}],
             ops=[{"op": "callrev", "h": 0}, {"op": "call", "h": 1}, {"op": "callrev", "h": 0},
                  {"op": "call", "h": 1}, {"op": "callrev", "h": 0}])
    return [json.loads(json.dumps(a)), json.loads(json.dumps(b))]


def dimer_witness():
    """seeded/C04-9: reference and target made of two residues with the SAME residue name; one accepted argument carries the
    same number in both residues ([7, 7], what `mol.resids = 7` gives).  Every argument must be mapped as before afterwards
    (a helper setting the numbers through MoleculeTop.resids of the shared target topology merged the two residue runs
    and every later call raised ValueError)."""
    cg = np.array([[0.0, 0.0, 0.0], [0.3, 0.05, 0.0], [0.55, 0.3, 0.1], [0.85, 0.33, 0.2]])
    aa = np.array([[-0.05, 0.02, 0.01], [0.1, 0.06, -0.03], [0.27, 0.0, 0.05], [0.5, 0.25, 0.12], [0.66, 0.36, 0.1],
                   [0.9, 0.3, 0.24]])
    th = 0.7
    rot = np.array([[np.cos(th), -np.sin(th), 0], [np.sin(th), np.cos(th), 0], [0, 0, 1]])
    return {"uid": 970, "graph_kind": "corpus", "geometry": "generic", "reverse": False, "shared_top": False, "scale": 0.5,
            "ref": {"name": "DIMC", "atoms": [["B%d" % (k + 1), "MON", 1 + k // 2] for k in range(4)], "bonds": chain(4),
                    "pos": lst(cg), "resid_offset": 0, "direct": True},
            "tgt": {"name": "DIMA", "atoms": [["A%d" % (k + 1), "MON", 1 + k // 3] for k in range(6)], "bonds": chain(6),
                    "pos": lst(aa), "resid_offset": 0, "direct": True, "vel": None},
            "objs": [{"kind": "copy", "pos": lst(cg.dot(rot.T) + [1., 2., 3.]), "gro_resids": [11, 12]},
                     {"kind": "copy", "pos": lst(cg.dot(rot) + [-2., 0.5, 1.]), "gro_resids": [21, 22]},
                     {"kind": "deep", "pos": lst(cg + 4.0), "gro_resids": [7, 7]}],
            "ops": [{"op": "call", "h": 0}, {"op": "call", "h": 2}, {"op": "call", "h": 1}, {"op": "call", "h": 0},
                    {"op": "call", "h": 2}, {"op": "renumobj", "h": 1, "rids": [7, 7], "int": True}, {"op": "call", "h": 1},
                    {"op": "call", "h": 0}]}


def degenerate_witness():
    """seeded/C04-12 (S only; K cuts a sequence at the first non-finite result): an ordinary argument and arguments with a
    degenerate anchor - bead 2 has the bonded beads 1 and 3 and bead 3 sits exactly on it, so the first base vector of its
    frame is 0/0; another argument carries one NaN coordinate - mapped before and after the construction target is moved
    (+7 nm), rotated, and one of its atoms displaced.  The target atoms attached to the degenerate anchor are NaN on every
    call; a fallback to the coordinates of the live construction target made them follow it."""
    rs = np.random.RandomState(12)
    bonds = [[0, 1], [1, 2], [2, 3], [1, 4]]
    ref_pos = walk_positions(rs, 5, bonds)
    tgt_pos = ref_pos[[0, 1, 1, 2, 3, 4, 2, 3]] + rs.normal(scale=0.05, size=(8, 3))
    g = tgt_pos.mean(0)
    th = 1.0
    rot = np.array([[np.cos(th), -np.sin(th), 0], [np.sin(th), np.cos(th), 0], [0, 0, 1]])
    moved1 = tgt_pos + np.array([7.0, 0.0, 0.0])
    moved2 = (moved1 - g) @ rot.T + g
    return {"uid": 980, "graph_kind": "corpus", "geometry": "degenerate_argument", "reverse": False, "shared_top": False,
            "scale": 0.5,
            "ref": {"name": "DGC", "atoms": [["G%d" % k, "DGC", 1] for k in range(5)], "bonds": bonds, "pos": lst(ref_pos),
                    "resid_offset": 0},
            "tgt": {"name": "DGA", "atoms": [["A%d" % k, "DGA", 1] for k in range(8)], "bonds": chain(8), "pos": lst(tgt_pos),
                    "resid_offset": 0, "vel": None},
            "objs": [{"kind": "copy", "pos": lst(ref_pos + np.array([1.0, -2.0, 0.5])), "gro_resids": [3]},
                     {"kind": "copy", "pos": lst(ref_pos + np.array([0.3, 0.2, -0.1])), "gro_resids": [4],
                      "degenerate": {"mode": "collapse", "anchor": 2, "onto": 3}},
                     {"kind": "deep", "pos": lst(ref_pos @ rot.T - 1.5), "gro_resids": [5],
                      "degenerate": {"mode": "nan", "atom": 1, "axis": 2}},
                     {"kind": "deep", "pos": lst(ref_pos + 2.25), "gro_resids": [6],
                      "degenerate": {"mode": "inf", "atom": 3, "axis": 0}}],
            "ops": [{"op": "call", "h": 0}, {"op": "call", "h": 1}, {"op": "call", "h": 2}, {"op": "call", "h": 3},
                    {"op": "movetgt", "pos": lst(moved1)}, {"op": "call", "h": 0}, {"op": "call", "h": 1},
                    {"op": "movetgt", "pos": lst(moved2)}, {"op": "call", "h": 1}, {"op": "call", "h": 2},
                    {"op": "poketgt", "i": 4, "v": [1.0, 2.0, 3.0]}, {"op": "poketgt", "i": 7, "v": [-3.0, 0.5, 2.0]},
                    {"op": "call", "h": 3}, {"op": "call", "h": 1}, {"op": "moveref", "pos": lst(ref_pos @ rot.T + 4.0)},
                    {"op": "call", "h": 0}, {"op": "call", "h": 2}, {"op": "call", "h": 1}]}


def s_only_corpus_specs():
    """witnesses for the S oracle only (non-finite results / whole-molecule moves are not in K's alphabet)"""
    return [degenerate_witness()]


# ------------------------------------------------------------------ S: several maps alive in one process
def valid_handles(ses):
    """handles of the reference's species with the target's number of residues (the domain of the property)"""
    n = len(ses.tgt.residues)
    return [i for i in range(ses.n_static) if ses.kinds[i] in ("copy", "deep", "ref") and len(ses.objs[i].residues) == n]


def map_all(m, ses, handles):
    out = []
    for h in handles:
        with np.errstate(all="ignore"):
            try:
                r = m(ses.objs[h])
                out.append(("ok", coords(r), [a.name for a in r], [a.resname for a in r], list(r.resids)))
            except Exception as e:  # noqa
                out.append(("exc", type(e).__name__))
    return out


def outcome_diff(a, b, tol):
    """None when the two outcomes of one call agree (NaN-aware), else a text"""
    if a[0] != b[0]:
        return "%s vs %s" % (a[0] if a[0] == "ok" else a[1], b[0] if b[0] == "ok" else b[1])
    if a[0] == "exc":
        return None if a[1] == b[1] else "%s vs %s" % (a[1], b[1])
    dev = coords_dev(a[1], b[1])
    if not dev <= tol:
        return "coordinates differ " + dev_text(dev)
    if a[2:] != b[2:]:
        return "atom names / residue names / residue numbers differ"
    return None


def gen_twomaps(rs, uid):
    a = gen_static(rs, uid, k_only=False)
    second = []
    for _ in range(int(rs.randint(1, 3))):
        how = str(rs.choice(["pair", "scale", "reverse", "moved_target"], p=[0.5, 0.2, 0.15, 0.15]))
        if how == "reverse" and len(a["tgt"]["atoms"]) < 3:
            how = "pair"
        if how == "pair":
            second.append({"how": "pair", "spec": gen_static(rs, uid + 500, k_only=False)})
        elif how == "scale":
            s2 = float(rs.uniform(0.05, 2.0))
            second.append({"how": "scale", "scale": s2 if abs(s2 - a["scale"]) > 0.01 else s2 + 0.25})
        elif how == "moved_target":
            p = np.array(a["tgt"]["pos"], dtype=float)
            second.append({"how": "moved_target", "pos": lst((p - p.mean(0)) @ rotmat(rs).T + p.mean(0) +
                                                             rs.normal(scale=0.1, size=3))})
        else:
            second.append({"how": "reverse"})
    return {"uid": uid, "A": a, "second": second, "subprocess": False}


def twomaps_witness():
    """seeded/C04-11 (`_target_coordinates` one dictionary for the whole class): a map of one pair is used, then a map of
    an UNRELATED pair and a map of the same pair with another scale factor are built (Manager builds one map per species
    before using any), then the first map is used again with the same arguments."""
    a = renumber_witnesses()[0]
    rs = np.random.RandomState(11)
    p = np.array(a["ref"]["pos"], dtype=float)
    a.update(uid=990, scale=0.5, ops=[],
             objs=[{"kind": str(k), "pos": lst((p - p.mean(0)) @ rotmat(rs).T + rs.uniform(-3, 3, size=3)), "gro_resids": [21 + j]}
                   for j, k in enumerate(["copy", "deep", "copy", "copy"])])
    b = rod_witness()
    b["ops"] = []
    return {"uid": 990, "A": a, "second": [{"how": "pair", "spec": b}, {"how": "scale", "scale": 1.0}], "subprocess": True}


CHILD = ("import sys, json; sys.path.insert(0, %r); import lib; lib.setup_impl_path(); import c04; "
         "c04.child_main()")


def child_main():
    """runs in a FRESH interpreter: builds the pair of the spec read from stdin - the first ExchangeMap of that process -
    and maps its arguments; floats are printed in hexadecimal"""
    import sys
    spec = json.loads(sys.stdin.read())
    ses = Session(spec)
    if ses.build_exc is not None:
        print(json.dumps({"build_exc": type(ses.build_exc).__name__}))
        return
    out = []
    for o in map_all(ses.map, ses, valid_handles(ses)):
        out.append(list(o) if o[0] == "exc" else ["ok", [[float(x).hex() for x in p] for p in o[1]], o[2], o[3], o[4]])
    print(json.dumps({"results": out}))


def in_fresh_process(spec_a):
    """outcomes of map(arg) for every valid handle of the pair, computed in a separate fresh interpreter on the tree under
    test; None when the child could not be run (never an alarm by itself)"""
    import os
    import subprocess
    import sys
    for _ in range(2):
        try:
            r = subprocess.run([sys.executable, "-c", CHILD % os.path.dirname(os.path.abspath(__file__))],
                               input=json.dumps(spec_a), capture_output=True, text=True, timeout=120)
        except Exception:  # noqa
            continue
        if r.returncode == 0:
            try:
                d = json.loads(r.stdout.strip().splitlines()[-1])
            except Exception:  # noqa
                continue
            if "results" not in d:
                return None
            return [tuple(o) if o[0] == "exc" else
                    ("ok", np.array([[float.fromhex(x) for x in p] for p in o[1]], dtype=float).reshape(-1, 3), o[2], o[3], o[4])
                    for o in d["results"]]
    return None


def oracle_twomaps(spec):
    """Other maps alive in the process.  The expected molecules are the ones the first map returned BEFORE any other map
    was built (and, at the end, those of a map freshly built from the construction-time snapshots and of a fresh
    interpreter); the same arguments must give the same molecules after other, different maps were built and used."""
    from gaddlemaps import ExchangeMap
    sa = json.loads(json.dumps(spec["A"]))
    sa["ops"] = []
    A = Session(sa)
    stats = {"args": 0, "second_maps": 0, "compared": 0, "subprocess": 0, "nonfinite": 0}
    if A.build_exc is not None:
        return ["construction raised %r" % A.build_exc], stats
    bad = []
    hA = valid_handles(A)
    stats["args"] = len(hA)
    before = map_all(A.map, A, hA)
    stats["nonfinite"] = sum(1 for o in before if o[0] == "ok" and not np.isfinite(o[1]).all())
    alive, pairs = [], []
    for b in spec["second"]:
        how = b["how"]
        with np.errstate(all="ignore"):
            try:
                if how == "pair":
                    sb = json.loads(json.dumps(b["spec"]))
                    sb["ops"] = []
                    B = Session(sb)
                    if B.build_exc is not None:
                        continue
                    hB = valid_handles(B)
                    pairs.append((B, hB, map_all(B.map, B, hB)))
                    alive.append(B.map)
                elif how == "scale":
                    alive.append(ExchangeMap(A.ref, A.tgt, b["scale"]))
                elif how == "reverse":
                    alive.append(ExchangeMap(A.tgt, A.ref, sa["scale"]))
                else:
                    t2 = A.tgt.copy()
                    t2.atoms_positions = np.array(b["pos"], dtype=float)
                    alive.append(ExchangeMap(A.ref, t2, sa["scale"]))
                    alive.append(t2)
                stats["second_maps"] += 1
            except Exception as e:  # noqa
                bad.append("building a second map (%s) raised %r" % (how, e))
        if how != "pair":
            with np.errstate(all="ignore"):
                m2 = [m for m in alive if isinstance(m, ExchangeMap)][-1]
                if how != "reverse":
                    map_all(m2, A, hA[:2])                    # the other map is used as well
    desc = "+".join(b["how"] for b in spec["second"])

    def compare(now, ref, what, tol):
        for h, x, y in zip(hA, now, ref):
            d = outcome_diff(x, y, tol)
            stats["compared"] += 1
            if d:
                bad.append("handle %d: %s: %s" % (h, what, d))
                return
    after = map_all(A.map, A, hA)
    compare(after, before, "the map returns another molecule for the same argument after other maps (%s) were built than "
            "it returned before they existed" % desc, TOL_REPEAT)
    for B, hB, beforeB in pairs:
        afterB = map_all(B.map, B, hB)
        for h, x, y in zip(hB, afterB, beforeB):
            d = outcome_diff(x, y, TOL_REPEAT)
            if d:
                bad.append("second map, handle %d: another molecule for the same argument after the first map was used "
                           "again: %s" % (h, d))
                break
    again = map_all(A.map, A, hA)
    compare(again, before, "the map returns another molecule for the same argument after the other maps (%s) were used" % desc,
            TOL_REPEAT)
    # a map freshly built from the construction-time snapshots, built AFTER all the calls above (so it cannot repair
    # anything for them), applied to copies of the arguments
    with np.errstate(all="ignore"):
        fresh = ExchangeMap(A.ref0.deep_copy(), A.tgt0.deep_copy(), sa["scale"])

        class _F:       # the handles' deep copies under the session interface of map_all
            objs = {h: A.objs[h].deep_copy() for h in hA}
        exp = map_all(fresh, _F, hA)
    compare(before, exp, "result (before any other map existed) differs from a freshly built map's", TOL_FRESH)
    compare(again, exp, "result (other maps %s alive) differs from a freshly built map's" % desc, TOL_FRESH)
    if spec.get("subprocess"):
        sub = in_fresh_process(sa)
        if sub is not None and len(sub) == len(before):
            stats["subprocess"] = 1
            compare(before, sub, "result differs from the one of the same pair's map built in a fresh interpreter", TOL_FRESH)
            compare(again, sub, "result (other maps %s alive) differs from the one of the same pair's map built in a fresh "
                    "interpreter" % desc, TOL_FRESH)
    return bad, stats


def nontrivial(stats):
    return stats["calls_ok"] >= 2 and stats["between"]


def corpus(ctx):
    S = ctx.cov["S"]
    S["corpus"] = 0
    for spec in corpus_specs():
        bad, stats = oracle_sequence(json.loads(json.dumps(spec)))
        S["corpus"] += 1
        ctx.count(("corpus", spec["uid"]), nontrivial(stats))
        if bad:
            ctx.violation("exchange map call sequence: " + "; ".join(bad[:4]), {"kind": "sequence", "spec": spec},
                          key="sequence")
    for spec in s_only_corpus_specs():
        bad, stats = oracle_sequence(json.loads(json.dumps(spec)))
        S["corpus"] += 1
        S["corpus_calls_with_nonfinite_result_after_target_moved"] = stats["nonfinite_after_target_moved"]
        ctx.count(("corpus", spec["uid"]), nontrivial(stats) and stats["nonfinite_after_target_moved"] > 0)
        if bad:
            ctx.violation("exchange map call sequence: " + "; ".join(bad[:4]), {"kind": "sequence", "spec": spec},
                          key="sequence")
    spec = twomaps_witness()
    bad, stats = oracle_twomaps(spec)
    S["corpus"] += 1
    S["corpus_twomaps_compared_with_fresh_interpreter"] = stats["subprocess"]
    ctx.count(("corpus", spec["uid"]), stats["args"] > 0 and stats["second_maps"] > 0)
    if bad:
        ctx.violation("several exchange maps alive: " + "; ".join(bad[:4]), {"kind": "twomaps", "spec": spec}, key="twomaps")


def run_cases_robust(ctx, cases, shard):
    """lib.run_coq_cases, repeated with fewer parallel coqc processes when a shard was killed from outside (SIGKILL by the
    kernel's out-of-memory handler on a machine shared with other builds; one shard needs < 0.5 GB and a few seconds).
    A deterministic Coq error fails all three attempts and is reported as before."""
    import time
    log = ""
    for attempt, jobs in enumerate((16, 5, 2)):
        if attempt:
            time.sleep(15 * attempt)
        codes, log1 = lib.run_coq_cases(ctx.cid, "K", HEADER, cases, shard=shard, jobs=jobs)
        log += ("" if not log else "\n-- retry with %d jobs --\n" % jobs) + log1
        if codes is not None:
            if attempt:
                ctx.notes.append("K: coqc shards were killed externally; succeeded on attempt %d" % (attempt + 1))
            return codes, log1
        if "Killed" not in log1 and "TIMEOUT" not in log1 and "Terminated" not in log1:
            break
    return None, log


def hist_add(h, k, n=1):
    h[k] = h.get(k, 0) + n


def has_coincident_atoms(spec):
    """some object of the case (an argument, or a construction molecule given with positions) has two atoms at exactly
    the same position"""
    def rows(x):
        if isinstance(x, dict):
            if isinstance(x.get("pos"), list) and x["pos"] and isinstance(x["pos"][0], list):
                yield x["pos"]
            for v in x.values():
                yield from rows(v)
        elif isinstance(x, list):
            for v in x:
                yield from rows(v)
    for pos in rows(spec):
        seen = set()
        for r in pos:
            t = tuple(r)
            if t in seen:
                return True
            seen.add(t)
    return False


def correspondence(ctx):
    rs = ctx.np_rng("K")
    n_cases = ctx.n(120, 700)
    n_long = ctx.n(0, 24)
    cases, metas = [], []
    hist = {}
    K = ctx.cov["K"]
    tot = {"calls_ok": 0, "rejected": 0, "valueerror": 0, "pokes": 0, "collinear_calls": 0, "collinear_build": 0}
    specs = [json.loads(json.dumps(s)) for s in corpus_specs()]
    for k in range(n_cases + n_long):
        specs.append(gen_static(rs, k, k_only=True))
    for k, spec in enumerate(specs):
        long = k >= len(specs) - n_long
        n_ops = int(rs.randint(60, 201)) if long else int(rs.randint(4, 31))
        term, stats = run_K_case(spec, rs, n_ops)
        cases.append(term)
        metas.append({"kind": "sequence", "spec": spec})
        for key in tot:
            tot[key] += stats[key]
        hist_add(hist, "graph_" + spec["graph_kind"])
        hist_add(hist, "geometry_" + spec.get("geometry", "generic"))
        hist_add(hist, "n_ref_%d" % len(spec["ref"]["atoms"]))
        hist_add(hist, "ops_%s" % ("<=10" if len(spec["ops"]) <= 10 else "<=30" if len(spec["ops"]) <= 30 else ">30"))
        for o in spec["ops"]:
            hist_add(hist, "op_" + o["op"])
        if spec.get("reverse"):
            hist_add(hist, "forward_and_reverse_map")
        if "atoms" in spec["tgt"] and repeated_resnames(spec["tgt"]["atoms"]):
            hist_add(hist, "target_with_repeated_consecutive_resnames")
        if any(o.get("gro_resids") and len(o["gro_resids"]) > 1 and
               any(a == b for a, b in zip(o["gro_resids"], o["gro_resids"][1:])) for o in spec["objs"]):
            hist_add(hist, "argument_with_equal_numbers_in_consecutive_residues")
        hist_add(hist, "multi_residue" if len(set(a[2] for a in spec["ref"]["atoms"])) > 1 else "single_residue")
        if spec["shared_top"]:
            hist_add(hist, "shared_topology")
        for o in spec["objs"]:
            hist_add(hist, "obj_" + o["kind"])
        if stats["valueerror"]:
            hist_add(hist, "residue_count_mismatch")
        ctx.count(("K", spec["uid"], len(spec["ops"]), json.dumps(spec["ops"])[:400]), nontrivial(stats))
        if k in (3, 10):
            ctx.sample({"layer": "K", "n_ref": len(spec["ref"]["atoms"]), "n_objs": len(spec["objs"]),
                        "ops": spec["ops"][:12], "stats": stats})
    shard = 6 if not n_long else 4
    codes, log = run_cases_robust(ctx, cases, shard)
    K["cases"] = len(cases)
    K["operations"] = sum(len(s["ops"]) for s in specs)
    K.update({"calls_returning_a_molecule": tot["calls_ok"], "calls_rejected_TypeError": tot["rejected"],
              "calls_ValueError": tot["valueerror"], "coordinate_mutations": tot["pokes"],
              "calls_on_argument_with_collinear_anchor": tot["collinear_calls"],
              "maps_built_on_reference_with_collinear_anchor": tot["collinear_build"]})
    K["input_distribution"] = hist
    K["log"] = log
    if codes is None:
        K["error"] = log
        return [{"error": "coqc failed on the correspondence cases", "log": log[-1500:]}]
    # an argument with two COINCIDENT atoms (exactly equal rows; the collinear_anchor generator can produce one by
    # accident) is outside the quantifier of C01-C04 (distinct positions): the implementation propagates NaN where the
    # float model stops with Err EDiv0, and the error classes need not agree.  Such a case is indeterminate (code 2)
    # when, and only when, the comparison reports an error-class mismatch (code 3); a value disagreement stays one.
    for i in list(codes):
        if codes[i] == 3 and has_coincident_atoms(metas[i]["spec"]):
            codes[i] = 2
    K["disagree"] = sum(1 for c in codes.values() if c in (1, 3))
    K["indeterminate"] = sum(1 for c in codes.values() if c == 2)
    K["agree"] = len(cases) - len(codes)
    dis = [dict(metas[i], code=c) for i, c in sorted(codes.items()) if c in (1, 3)]
    for d in dis[:20]:
        spec = json.loads(json.dumps(d["spec"]))
        bad, _ = oracle_sequence(spec)
        if bad:
            ctx.violation("exchange map call sequence: " + "; ".join(bad[:4]), {"kind": "sequence", "spec": d["spec"]},
                          key="sequence")
    return dis


def oracle(ctx, scale):
    rs = ctx.np_rng("S%d" % scale)
    S = ctx.cov["S"]
    n = ctx.n(150, 1500) * scale
    fails = 0
    tot = {"calls_ok": 0, "rejected": 0, "skipped": 0, "pokes": 0, "collinear_calls": 0, "collinear_build": 0,
           "nonfinite_calls": 0, "nonfinite_after_target_moved": 0}
    hist = {}
    for k in range(n):
        spec = gen_static(rs, 1000 + k, k_only=False)
        n_ops = int(rs.randint(4, 31)) if (ctx.quick or k % 10) else int(rs.randint(31, 201))
        bad, stats = oracle_sequence(spec, gen=(rs, n_ops))
        for key in tot:
            tot[key] += stats[key]
        hist_add(hist, "n_ref_%d" % len(spec["ref"]["atoms"]))
        hist_add(hist, "geometry_" + spec.get("geometry", "generic"))
        for o in spec["ops"]:
            hist_add(hist, "op_" + o["op"])
        if spec.get("reverse"):
            hist_add(hist, "forward_and_reverse_map")
        if "atoms" in spec["tgt"] and repeated_resnames(spec["tgt"]["atoms"]):
            hist_add(hist, "target_with_repeated_consecutive_resnames")
        if any(o.get("gro_resids") and len(o["gro_resids"]) > 1 and
               any(a == b for a, b in zip(o["gro_resids"], o["gro_resids"][1:])) for o in spec["objs"]):
            hist_add(hist, "argument_with_equal_numbers_in_consecutive_residues")
        hist_add(hist, "n_tgt_%s" % ("1" if len(spec["tgt"]["atoms"]) == 1 else "2-5" if len(spec["tgt"]["atoms"]) <= 5 else "6-20"))
        ctx.count(("S", scale, k, json.dumps(spec["ops"])[:400]), nontrivial(stats))
        if k == 1:
            ctx.sample({"layer": "S", "n_ref": len(spec["ref"]["atoms"]), "ops": spec["ops"][:10], "stats": stats})
        if bad:
            fails += 1
            ctx.violation("exchange map call sequence: " + "; ".join(bad[:4]), {"kind": "sequence", "spec": spec},
                          key="sequence")
            if fails >= 5:
                break
    S["sequences_x%d" % scale] = n
    S["calls_compared_with_fresh_map"] = S.get("calls_compared_with_fresh_map", 0) + tot["calls_ok"]
    S["rejections_checked"] = S.get("rejections_checked", 0) + tot["rejected"]
    S["calls_outside_domain_residue_count"] = S.get("calls_outside_domain_residue_count", 0) + tot["skipped"]
    S["coordinate_mutations"] = S.get("coordinate_mutations", 0) + tot["pokes"]
    S["calls_on_argument_with_collinear_anchor"] = S.get("calls_on_argument_with_collinear_anchor", 0) + tot["collinear_calls"]
    S["maps_built_on_reference_with_collinear_anchor"] = (S.get("maps_built_on_reference_with_collinear_anchor", 0) +
                                                          tot["collinear_build"])
    S["calls_with_nonfinite_result_nan_aware"] = S.get("calls_with_nonfinite_result_nan_aware", 0) + tot["nonfinite_calls"]
    S["calls_with_nonfinite_result_after_target_moved"] = (S.get("calls_with_nonfinite_result_after_target_moved", 0) +
                                                           tot["nonfinite_after_target_moved"])
    S["input_distribution"] = hist
    S["failures"] = S.get("failures", 0) + fails
    # ---- several different maps alive in the process, the older one used after the newer ones were built
    rs2 = ctx.np_rng("T%d" % scale)
    n2 = ctx.n(40, 400) * scale
    t = {"args": 0, "second_maps": 0, "compared": 0, "subprocess": 0, "nonfinite": 0}
    fails2 = 0
    for k in range(n2):
        spec = gen_twomaps(rs2, 3000 + k)
        spec["subprocess"] = k < ctx.n(2, 10)
        bad, stats = oracle_twomaps(spec)
        for key in t:
            t[key] += stats[key]
        for b in spec["second"]:
            hist_add(hist, "second_map_" + b["how"])
        ctx.count(("T", scale, k), stats["args"] > 0 and stats["second_maps"] > 0)
        if bad:
            fails2 += 1
            ctx.violation("several exchange maps alive: " + "; ".join(bad[:4]), {"kind": "twomaps", "spec": spec},
                          key="twomaps")
            if fails2 >= 5:
                break
    S["twomaps_cases_x%d" % scale] = n2
    S["twomaps_second_maps_built"] = S.get("twomaps_second_maps_built", 0) + t["second_maps"]
    S["twomaps_outcomes_compared"] = S.get("twomaps_outcomes_compared", 0) + t["compared"]
    S["twomaps_compared_with_fresh_interpreter"] = S.get("twomaps_compared_with_fresh_interpreter", 0) + t["subprocess"]
    S["failures"] += fails2


def replay(ctx, obj):
    r = obj["replay"]
    if r.get("kind") == "twomaps":
        bad, stats = oracle_twomaps(json.loads(json.dumps(r["spec"])))
        print(bad, stats)
        return not bad
    if r.get("kind") != "sequence":
        print("replay names a proof/correspondence, not an input:", json.dumps(r)[:300])
        return False
    bad, stats = oracle_sequence(json.loads(json.dumps(r["spec"])))
    print(bad, stats)
    return not bad


def finish(ctx):
    ctx.assumptions = [
        "operation alphabet: calls (valid argument, other species, non-molecule), in-place coordinate changes and residue "
        "renumbering (gro + topology) of any live molecule; renaming atoms/residues/molecules, changing bonds, atom ids or "
        "velocities of existing objects and numpy in-place mutation of a position array are NOT operations of the model",
        "a second (reverse) map alive in the same world is executed in K (same `call` on the shared heap with the other map "
        "object) and checked in S; the theorems speak of one map and cover the other map's call only through its heap "
        "effect (fresh cells + renumbering of the reference's topology = RenumObj on a topology-sharing handle)",
        "after the reference's topology has been renumbered, 'argument of the species' means: accepted by a map built at that "
        "moment from the current construction molecules (C04_verdict_fresh_now; S builds that map)",
        "a valid argument has the reference's name, atom names, indices, topology residue numbers AND bond graph (the code's "
        "test, Molecule.__eq__, does not look at bonds); as many residues as the target (otherwise ValueError, modelled, "
        "outside the property)",
        "theorems hold for every geometric core with the two key laws (frames_keys, project_keys); the concrete core "
        "(calcule_base frames, references of >= 3 atoms) is executed in K only; its geometry is the subject of C01-C03/C17",
        "IEEE rounding is modelled, not verified: K compares map-produced coordinates within 2^-30 relative, everything "
        "else exactly; S compares with a fresh map within 1e-12 relative, non-finite coordinates (degenerate anchor or "
        "NaN/inf in the ARGUMENT) must be non-finite at the same places; such histories are S only (the model stops at "
        "Err EDiv0, K cuts the sequence at ONonFinite)",
        "several different maps alive in one process are checked in S only (twomaps cases, and the forward/reverse pairs); "
        "the model has one `_target_coordinates` per map by construction",
        "the model's allocation order of the fresh gro cells (residue by residue) is a convention shared with the harness's "
        "numbering of Python objects by identity",
    ]
    return ctx.finish(level="proof", rule=RULE,
                      trusted=["heap model of Molecule/Residue/AtomGro/AtomTop aliasing written by hand in coq/Model/EMState.v; "
                               "the Atom/Molecule constructors' name-consistency tests are not re-evaluated by the model"])
