"""Common machinery for the /verif checks (see DESIGN.md sections 1, 2, 4).

Three layers per property:
  P  proof         : coq/Props/Cxx.v compiled (full .vo build), Print Assumptions parsed
  K  correspondence: implementation observations evaluated against the Coq model (vm_compute)
  S  search/oracle : the property text evaluated directly on the implementation
"""
import fcntl
import glob
import hashlib
import json
import os
import random
import re
import subprocess
import sys
import time

ROOT = os.path.dirname(os.path.dirname(os.path.abspath(__file__)))
COQ = os.environ.get("VERIF_COQ", os.path.join(ROOT, "coq"))   # scratch runs against seeded copies of /repo use their own copy
BUILD = os.environ.get("VERIF_BUILD", os.path.join(ROOT, "build"))
OUT = os.environ.get("VERIF_OUT", ROOT)   # evidence/ and replays/ go here (scratch runs against seeded copies set it)
REPO = os.environ.get("VERIF_REPO", "/repo")
PY = "/venv/bin/python"

AXIOM_WHITELIST = {
    # declared by Coq's standard library itself (Reals, FunctionalExtensionality, Classical)
    "ClassicalDedekindReals.sig_not_dec",
    "ClassicalDedekindReals.sig_forall_dec",
    "FunctionalExtensionality.functional_extensionality_dep",
    "Classical_Prop.classic",
    "ProofIrrelevance.proof_irrelevance",
    "Eqdep.Eq_rect_eq.eq_rect_eq",
    "JMeq.JMeq_eq",
}

FORBIDDEN = re.compile(
    r"\b(Admitted|admit|Axiom|Axioms|Parameter|Parameters|Conjecture|Conjectures|Admit Obligations|"
    r"Unset Guard Checking|Unset Positivity Checking|Unset Universe Checking|bypass_check|"
    r"type-in-type|impredicative-set|native_compute)\b")


def sh(cmd, timeout=600, cwd=None, env=None, input=None):
    e = dict(os.environ)
    if env:
        e.update(env)
    try:
        p = subprocess.run(cmd, shell=isinstance(cmd, str), cwd=cwd, env=e, input=input,
                           stdout=subprocess.PIPE, stderr=subprocess.STDOUT, timeout=timeout,
                           universal_newlines=True)
        return p.returncode, p.stdout
    except subprocess.TimeoutExpired as ex:
        return 124, (ex.stdout or "") + "\nTIMEOUT"


# ----------------------------------------------------------------------------- coq build
class BuildLock:
    def __enter__(self):
        os.makedirs(BUILD, exist_ok=True)
        self.f = open(os.path.join(BUILD, ".lock"), "w")
        fcntl.flock(self.f, fcntl.LOCK_EX)
        return self

    def __exit__(self, *a):
        fcntl.flock(self.f, fcntl.LOCK_UN)
        self.f.close()


def coq_sources():
    out = []
    for d in ("Base", "Inst", "Gen", "Model", "Proofs", "Props", "Corr", "Legacy"):
        out += sorted(glob.glob(os.path.join(COQ, d, "*.v")))
    return [os.path.relpath(p, COQ) for p in out]


def forbidden_scan():
    """No Admitted/admit/Axiom/Parameter/... anywhere in the development."""
    bad = []
    for rel in coq_sources():
        txt = open(os.path.join(COQ, rel)).read()
        # strip comments (non-nested is enough for our own sources; nested handled by loop)
        prev = None
        while prev != txt:
            prev = txt
            txt = re.sub(r"\(\*[^*(]*(?:\*(?!\))[^*(]*|\((?!\*)[^*(]*)*\*\)", " ", txt)
        for m in FORBIDDEN.finditer(txt):
            bad.append("%s: %s" % (rel, m.group(0)))
    return bad


def gen_src_consts():
    """Gen/SrcConsts.v: constants read from the live modules of /repo (DESIGN 4.4)."""
    code = r'''
import inspect, json, sys
import gaddlemaps
from gaddlemaps.parsers import GroFile
from gaddlemaps.parsers._top_parsers import ItpParser
from gaddlemaps._alignment import Alignment
from gaddlemaps._backend import accept_metropolis
from fractions import Fraction
def fr(x):
    f = Fraction(str(x)); return [f.numerator, f.denominator]
out = dict(
  COORD_START=GroFile.COORD_START, NUMBER_FIGURES=GroFile.NUMBER_FIGURES,
  POSFMT=list(GroFile.DEFAULT_POSTION_FORMAT), GRO_EXT=list(GroFile.EXTENSIONS),
  ITP_EXT=list(ItpParser.EXTENSIONS), SIGMA_SCALE=fr(Alignment.SIGMA_SCALE),
  STEPS_FACTOR=Alignment.STEPS_FACTOR,
  ACCEPTANCE=fr(inspect.signature(accept_metropolis).parameters['acceptance'].default),
  DEFAULT_COMMENT=GroFile.DEFAULT_COMMENT)
print(json.dumps(out))
'''
    rc, out = sh([PY, "-c", code], env={"PYTHONPATH": REPO, "PYTHONHASHSEED": "0"}, timeout=120)
    if rc != 0:
        raise RuntimeError("cannot introspect /repo constants:\n" + out)
    c = json.loads(out.strip().splitlines()[-1])

    def strlist(l):
        return "[" + "; ".join('"%s"' % s for s in l) + "]"
    txt = """(* GENERATED at every run from the modules of /repo by harness/lib.py:gen_src_consts.
   Do not edit: constants of the implementation the models depend on. *)
From Coq Require Import ZArith String List.
Import ListNotations.
Open Scope string_scope.
Definition COORD_START : nat := %d.
Definition NUMBER_FIGURES : nat := %d.
Definition DEFAULT_POS_FIGURES : nat := %d.
Definition DEFAULT_POS_DECIMALS : nat := %d.
Definition GRO_EXTENSIONS : list string := %s.
Definition ITP_EXTENSIONS : list string := %s.
Definition SIGMA_SCALE_NUM : Z := %d.
Definition SIGMA_SCALE_DEN : Z := %d.
Definition STEPS_FACTOR : Z := %d.
Definition ACCEPTANCE_NUM : Z := %d.
Definition ACCEPTANCE_DEN : Z := %d.
Definition DEFAULT_COMMENT : string := "%s".
""" % (c["COORD_START"], c["NUMBER_FIGURES"], c["POSFMT"][0], c["POSFMT"][1],
       strlist(c["GRO_EXT"]), strlist(c["ITP_EXT"]), c["SIGMA_SCALE"][0], c["SIGMA_SCALE"][1],
       c["STEPS_FACTOR"], c["ACCEPTANCE"][0], c["ACCEPTANCE"][1], c["DEFAULT_COMMENT"].replace('"', '""'))
    path = os.path.join(COQ, "Gen", "SrcConsts.v")
    os.makedirs(os.path.dirname(path), exist_ok=True)
    old = open(path).read() if os.path.exists(path) else None
    if old != txt:
        with open(path, "w") as f:
            f.write(txt)
    gen_kernels()
    return c


def gen_kernels():
    """Gen/KernelsGen.v: the numeric kernels translated from the current source text (harness/pytrans.py).
    If the source left the translatable subset the file is replaced by one that does not compile, so that the
    equality obligations in Proofs/KernelsGenEq.v (and the property theorems that cite them) break."""
    import pytrans
    try:
        txt = pytrans.generate(REPO)
    except pytrans.Unsupported as ex:
        txt = ("(* GENERATED: harness/pytrans.py could not translate the current source: %s *)\n"
               "Definition translation_failed : True := untranslatable_source.\n" % str(ex).replace("*)", "* )"))
    path = os.path.join(COQ, "Gen", "KernelsGen.v")
    old = open(path).read() if os.path.exists(path) else None
    if old != txt:
        with open(path, "w") as f:
            f.write(txt)
    import pytrans_int
    try:
        txt = pytrans_int.generate(REPO)
    except pytrans_int.Unsupported as ex:
        txt = ("(* GENERATED: harness/pytrans_int.py could not translate the current source: %s *)\n"
               "Definition translation_failed : True := untranslatable_source.\n" % str(ex).replace("*)", "* )"))
    _write_gen("IntKernelsGen.v", txt)
    import pytrans_arr
    try:
        txt = pytrans_arr.generate(REPO)
    except pytrans_arr.Unsupported as ex:
        txt = ("(* GENERATED: harness/pytrans_arr.py could not translate the current source: %s *)\n"
               "Definition translation_failed : True := untranslatable_source.\n" % str(ex).replace("*)", "* )"))
    _write_gen("Chi2Gen.v", txt)
    import pytrans_str
    try:
        txt = pytrans_str.generate(REPO)
    except pytrans_str.Unsupported as ex:
        txt = ("(* GENERATED: harness/pytrans_str.py could not translate the current source: %s *)\n"
               "Definition translation_failed : True := untranslatable_source.\n" % str(ex).replace("*)", "* )"))
    _write_gen("GroKernelsGen.v", txt)
    import pytrans_itp
    try:
        txt = pytrans_itp.generate(REPO)
    except pytrans_itp.Unsupported as ex:
        txt = ("(* GENERATED: harness/pytrans_itp.py could not translate the current source: %s *)\n"
               "Definition translation_failed : True := untranslatable_source.\n" % str(ex).replace("*)", "* )"))
    _write_gen("ItpGen.v", txt)
    import pytrans_walk
    try:
        txt = pytrans_walk.generate(REPO)
    except pytrans_walk.Unsupported as ex:
        txt = ("(* GENERATED: harness/pytrans_walk.py could not translate the current source: %s *)\n"
               "Definition translation_failed : True := untranslatable_source.\n" % str(ex).replace("*)", "* )"))
    _write_gen("WalkGen.v", txt)
    import pytrans_atomline
    try:
        txt = pytrans_atomline.generate(REPO)
    except pytrans_atomline.Unsupported as ex:
        txt = ("(* GENERATED: harness/pytrans_atomline.py could not translate the current source: %s *)\n"
               "Definition translation_failed : True := untranslatable_source.\n" % str(ex).replace("*)", "* )"))
    _write_gen("AtomLineGen.v", txt)
    import pytrans_gen
    try:
        txt = pytrans_gen.generate(REPO)
    except pytrans_gen.Unsupported as ex:
        txt = ("(* GENERATED: harness/pytrans_gen.py could not translate the current source: %s *)\n"
               "Definition translation_failed : True := untranslatable_source.\n" % str(ex).replace("*)", "* )"))
    _write_gen("SysGen.v", txt)


def _write_gen(fname, txt):
    path = os.path.join(COQ, "Gen", fname)
    old = open(path).read() if os.path.exists(path) else None
    if old != txt:
        with open(path, "w") as f:
            f.write(txt)


def ensure_makefile():
    srcs = coq_sources()
    flags = open(os.path.join(COQ, "_CoqProject")).read().strip().splitlines()
    flags = [l for l in flags if l.startswith("-")]
    gen = "\n".join(flags + srcs) + "\n"
    p = os.path.join(COQ, "_CoqProject.gen")
    old = open(p).read() if os.path.exists(p) else None
    if old != gen or not os.path.exists(os.path.join(COQ, "Makefile")):
        with open(p, "w") as f:
            f.write(gen)
        rc, out = sh("coq_makefile -f _CoqProject.gen -o Makefile", cwd=COQ)
        if rc != 0:
            raise RuntimeError("coq_makefile failed:\n" + out)


def coq_make(targets, timeout=3000, jobs=8, keep_going=False):
    """make the given .vo targets (full build, never -vos)."""
    with BuildLock():
        gen_src_consts()
        ensure_makefile()
        rc, out = sh("timeout %d make %s -j%d %s" % (timeout, "-k" if keep_going else "", jobs, " ".join(targets)), cwd=COQ,
                     timeout=timeout + 60)
    return rc, out


def coq_build_all(timeout=3400):
    srcs = coq_sources()
    return coq_make([s[:-2] + ".vo" for s in srcs], timeout=timeout, jobs=16, keep_going=True)


def parse_print_assumptions(out):
    """Split coqc output into blocks, one per Print Assumptions."""
    blocks = []
    cur = None
    for line in out.splitlines():
        if line.startswith("Closed under the global context"):
            blocks.append([])
            cur = None
        elif line.startswith("Axioms:"):
            cur = []
            blocks.append(cur)
        elif cur is not None:
            m = re.match(r"^([A-Za-z_][\w.']*)\s*(:|$)", line)
            if m:
                cur.append(m.group(1))
            elif not line.startswith(" ") and line.strip():
                cur = None
    return blocks


def props_check(cid, timeout=1500):
    """Layer P: build the dependency cone, then re-compile Props/Cxx.v itself to read its
    Print Assumptions.  Returns a dict for the evidence file."""
    rel = "Props/%s.v" % cid
    src = open(os.path.join(COQ, rel)).read()
    theorems = re.findall(r"^\s*Theorem\s+([\w']+)", src, flags=re.M)
    prints = re.findall(r"^\s*Print Assumptions\s+([\w']+)\s*\.", src, flags=re.M)
    res = {"file": "coq/" + rel, "theorems": theorems, "obligations": len(theorems), "discharged": 0,
           "axioms": {}, "ok": False, "log": ""}
    bad = forbidden_scan()
    if bad:
        res["log"] = "forbidden tokens in the development: " + "; ".join(bad[:10])
        return res
    if set(theorems) - set(prints):
        res["log"] = "theorems without Print Assumptions: %s" % sorted(set(theorems) - set(prints))
        return res
    # proofs must be by `exact`
    rc, out = coq_make([rel[:-2] + ".vo"], timeout=timeout)
    if rc != 0:
        res["log"] = "make failed (rc=%d):\n%s" % (rc, out[-3000:])
        m = re.search(r'File "\./([^"]+)", line (\d+)', out)
        if m:
            res["broken_at"] = "%s:%s" % (m.group(1), m.group(2))
        return res
    os.makedirs(os.path.join(BUILD, cid, "props"), exist_ok=True)
    with BuildLock():
        rc, out = sh("timeout %d coqc -Q . GM -w -notation-overridden,-deprecated-hint-without-locality,"
                     "-deprecated-instance-without-locality,-ambiguous-paths,-deprecated-syntactic-definition "
                     "-o %s %s" % (timeout, os.path.join(BUILD, cid, "props", cid + ".vo"), rel),
                     cwd=COQ, timeout=timeout + 60)
    if rc != 0:
        res["log"] = "coqc Props failed:\n" + out[-3000:]
        return res
    blocks = parse_print_assumptions(out)
    if len(blocks) != len(prints):
        res["log"] = "could not parse Print Assumptions (%d blocks, %d expected)" % (len(blocks), len(prints))
        return res
    allax = set()
    ok = 0
    for name, ax in zip(prints, blocks):
        res["axioms"][name] = ax
        if name in theorems:
            if set(ax) <= AXIOM_WHITELIST:
                ok += 1
            allax |= set(ax)
    res["discharged"] = ok
    res["all_axioms"] = sorted(allax)
    res["ok"] = ok == len(theorems) and ok > 0
    if not res["ok"]:
        res["log"] = "non-whitelisted axioms: %s" % sorted(allax - AXIOM_WHITELIST)
    return res


def coqchk(cid, timeout=1500):
    """Thorough tier: re-check Props/Cxx.vo and everything it depends on with Coq's independent checker;
    `-o` lists the axioms of every loaded library (a superset of what the theorems use)."""
    with BuildLock():
        rc, out = sh("timeout %d coqchk -silent -o -Q . GM GM.Props.%s" % (timeout, cid), cwd=COQ, timeout=timeout + 60)
    res = {"rc": rc, "axioms": [], "ok": False, "tail": out[-1500:]}
    m = re.search(r"\* Axioms:(.*?)\n\s*\n\* ", out, flags=re.S)
    if rc == 0 and m:
        ax = [a.strip() for a in m.group(1).split() if a.strip() and a.strip() != "<none>"]
        res["axioms"] = ax
        # primitive 63-bit integers / binary64 floats and their specification axioms are declared by the
        # standard library (Coq.Floats.*, Coq.Numbers.Cyclic.Int63.*): they appear when a Props file evaluates a
        # non-vacuity Example on the float instance; never under a property theorem (Print Assumptions decides that)
        prim = [a for a in ax if a.startswith("Coq.Floats.") or a.startswith("Coq.Numbers.Cyclic.Int63.")]
        res["stdlib_primitives"] = len(prim)
        rest = [a for a in ax if a not in prim]
        res["axioms"] = rest + (["(+ %d PrimFloat/Uint63 primitives and spec axioms of the standard library)" % len(prim)] if prim else [])
        short = {a.replace("Coq.Logic.", "").replace("Coq.Reals.", "") for a in rest}
        bad = [a for a in short if a not in AXIOM_WHITELIST]
        clean = all(("%s: <none>" % k) in " ".join(out.split()) for k in
                    ("relying on type-in-type", "relying on unsafe (co)fixpoints", "whose positivity is assumed"))
        res["ok"] = not bad and clean
        res["not_whitelisted"] = bad
    return res


# ----------------------------------------------------------------------------- float literals
def fl(x):
    """Coq PrimFloat literal (exact, hexadecimal) for a Python float."""
    x = float(x)
    if x != x:
        return "nan"
    if x == float("inf"):
        return "infinity"
    if x == float("-inf"):
        return "neg_infinity"
    h = x.hex()
    neg = h.startswith("-")
    if neg:
        h = h[1:]
    # 0x1.8000000000000p+1 -> trim trailing zeros of the mantissa
    m = re.match(r"0x([01])\.([0-9a-f]+)p([+-]\d+)", h)
    a, frac, e = m.groups()
    frac = frac.rstrip("0")
    lit = "0x%s%sp%s" % (a, ("." + frac) if frac else "", e)
    if neg:
        return "(-%s)" % lit
    return lit


def v3(p):
    return "(mk3 %s %s %s)" % (fl(p[0]), fl(p[1]), fl(p[2]))


def m3(m):
    return "(mkM %s %s %s)" % (v3(m[0]), v3(m[1]), v3(m[2]))


def coq_list(items, sep="; "):
    return "[" + sep.join(items) + "]"


def coq_z(n):
    n = int(n)
    return "(%d)%%Z" % n


def coq_str(s):
    """Coq string literal for an ASCII python str."""
    out = []
    for ch in s:
        o = ord(ch)
        if ch == '"':
            out.append('""')
        elif 32 <= o < 127:
            out.append(ch)
        else:
            return None  # needs the byte-list form
    return '"' + "".join(out) + '"'


def coq_bytes(s):
    """Any str (latin-1 range) as a Coq string built from ascii codes (for control chars)."""
    lit = coq_str(s)
    if lit is not None:
        return lit
    parts = []
    cur = []
    for ch in s:
        o = ord(ch)
        if 32 <= o < 127:
            cur.append('""' if ch == '"' else ch)
        else:
            if cur:
                parts.append('"' + "".join(cur) + '"')
                cur = []
            parts.append("(String (Ascii.ascii_of_nat %d) EmptyString)" % o)
    if cur:
        parts.append('"' + "".join(cur) + '"')
    return "(" + " ++ ".join(parts) + ")"


# ----------------------------------------------------------------------------- cases -> coqc
COQC_FLAGS = ("-Q %s GM -w -notation-overridden,-deprecated-hint-without-locality,"
              "-deprecated-instance-without-locality,-ambiguous-paths,-deprecated-syntactic-definition" % COQ)


def run_coq_cases(cid, name, header, cases, shard=300, timeout=900, jobs=8, _retry=False):
    """cases: list of Coq terms of type nat (0 agree, 1 disagree, 2 indeterminate, 3 model error...).
    Each shard file ends with one Eval printing the (index, code) pairs with code <> 0.
    Returns (codes: dict idx->code, log).  On a Coq failure returns (None, log)."""
    d = os.path.join(BUILD, cid, name)
    os.makedirs(d, exist_ok=True)
    for f in glob.glob(os.path.join(d, "cases_*")):
        os.remove(f)
    files = []
    for k in range(0, len(cases), shard):
        chunk = cases[k:k + shard]
        fn = os.path.join(d, "cases_%04d.v" % (k // shard))
        with open(fn, "w") as f:
            f.write(header + "\n")
            f.write("Definition cases : list nat :=\n  [\n")
            f.write(";\n".join("   " + c for c in chunk))
            f.write("\n  ].\n")
            f.write("Definition nonzero (l : list nat) : list (nat * nat) :=\n"
                    "  filter (fun p => negb (Nat.eqb (snd p) 0)) (combine (seq %d (length l)) l).\n" % k)
            f.write("Eval vm_compute in (nonzero cases).\n")
        files.append(fn)
    # make sure the Corr cone the header imports is built (it is not in the cone of Props/Cxx.vo)
    targets = sorted(set("Corr/%s.vo" % m for m in re.findall(r"\bCorr\.(\w+)", header)))
    if targets:
        rc, out = coq_make(targets, timeout=1500)
        if rc != 0:
            return None, "make %s failed:\n%s" % (" ".join(targets), out[-2000:])
    procs = []
    results = {}
    log = []
    pending = list(files)
    running = []
    failed = False
    t0 = time.time()
    while pending or running:
        while pending and len(running) < jobs:
            fn = pending.pop(0)
            p = subprocess.Popen("ulimit -s unlimited 2>/dev/null; timeout %d coqc %s -o %s %s" %
                                 (timeout, COQC_FLAGS, fn[:-2] + ".vo", fn), shell=True,
                                 stdout=subprocess.PIPE, stderr=subprocess.STDOUT, universal_newlines=True,
                                 cwd=d)
            running.append((fn, p))
        still = []
        for fn, p in running:
            if p.poll() is None:
                still.append((fn, p))
                continue
            out = p.stdout.read()
            if p.returncode != 0:
                failed = True
                log.append("coqc failed on %s:\n%s" % (fn, out[-2000:]))
                continue
            flat = " ".join(out.split())
            m = re.search(r"= (\[.*?\]|nil)\s*: list \(nat \* nat\)", flat)
            if not m:
                failed = True
                log.append("cannot parse coqc output of %s:\n%s" % (fn, out[-2000:]))
                continue
            for a, b in re.findall(r"\((\d+)(?:%nat)?\s*,\s*(\d+)(?:%nat)?\)", m.group(1)):
                results[int(a)] = int(b)
        running = still
        if running:
            time.sleep(0.05)
    for f in glob.glob(os.path.join(d, "*.vo")) + glob.glob(os.path.join(d, "*.glob")) + \
            glob.glob(os.path.join(d, ".*.aux")) + glob.glob(os.path.join(d, "*.vok")) + glob.glob(os.path.join(d, "*.vos")):
        try:
            os.remove(f)
        except OSError:
            pass
    if failed and not _retry:
        # a shard killed by the machine (memory pressure when many checks run side by side) or timed out is not a
        # verdict: run the whole set once more with two processes; a deterministic Coq error fails again
        time.sleep(15)
        res2, log2 = run_coq_cases(cid, name, header, cases, shard=shard, timeout=timeout, jobs=2, _retry=True)
        if res2 is not None:
            return res2, log2 + " (after one retry with 2 processes: %s)" % "; ".join(l[:120] for l in log)[:400]
        return None, "\n".join(log) + "\nRETRY:\n" + log2
    if failed:
        return None, "\n".join(log)
    return results, "%d shards in %.1fs" % (len(files), time.time() - t0)


# ----------------------------------------------------------------------------- known findings
def load_known(cid):
    p = os.path.join(ROOT, "known_findings.txt")
    out = []
    if os.path.exists(p):
        for line in open(p):
            line = line.strip()
            m = re.match(r"known:\s+property=(\S+)\s+key=(\S+)\s+(.*)", line)
            if m and m.group(1) == cid:
                out.append((m.group(2), m.group(3)))
    return out


# ----------------------------------------------------------------------------- context
class Ctx:
    def __init__(self, cid, tier, seed):
        self.cid = cid
        self.tier = tier
        self.seed = seed
        self.rng = random.Random((seed, cid).__repr__())
        self.t0 = time.time()
        self.violations = []      # (what, replay_path, no_input)
        self.known_hits = []
        self.known = load_known(cid)
        self.cov = {"K": {}, "S": {}, "samples": []}
        self.assumptions = []
        self.P = None
        self.distinct = set()
        self.evaluations = 0
        self.notes = []
        os.makedirs(os.path.join(OUT, "replays", cid), exist_ok=True)

    @property
    def quick(self):
        return self.tier == "quick"

    def n(self, quick, thorough):
        return quick if self.quick else thorough

    def np_rng(self, salt=0):
        import numpy as np
        h = int(hashlib.sha256(("%s/%s/%s" % (self.seed, self.cid, salt)).encode()).hexdigest()[:8], 16)
        return np.random.RandomState(h)

    def count(self, key_obj, nontrivial=True):
        self.evaluations += 1
        if nontrivial:
            self.distinct.add(hashlib.md5(repr(key_obj).encode()).hexdigest())

    def sample(self, obj, limit=6):
        if len(self.cov["samples"]) < limit:
            self.cov["samples"].append(obj)

    def replay_path(self, tag):
        n = len(glob.glob(os.path.join(OUT, "replays", self.cid, "*.json")))
        return os.path.join(OUT, "replays", self.cid, "%s_%s_%03d.json" % (self.tier, tag, n))

    def violation(self, what, replay, key=None, no_input=False, tag="viol"):
        """record a violation (or a known finding if its key is listed)."""
        if key is not None:
            for k, desc in self.known:
                if k == key:
                    self.known_hits.append((k, desc))
                    return
        path = self.replay_path(tag)
        obj = {"property": self.cid, "what": what, "replay": replay, "seed": self.seed, "tier": self.tier,
               "no_failing_input_found": bool(no_input)}
        with open(path, "w") as f:
            json.dump(obj, f, indent=1, default=str)
        self.violations.append((what, path, no_input))

    # -- layer P
    def run_P(self):
        self.P = props_check(self.cid)
        if not self.P["ok"]:
            self.p_broken = True
        elif self.tier == "thorough":
            chk = coqchk(self.cid)
            self.P["coqchk"] = chk
            if not chk["ok"]:
                self.P["ok"] = False
                self.P["discharged"] = 0
                self.P["log"] = "coqchk did not accept Props/%s.vo: %s" % (self.cid, chk["tail"][-600:])
        return self.P

    def finish(self, level="proof", rule="", extra=None, trusted=None):
        P = self.P or {"obligations": 0, "discharged": 0, "theorems": [], "all_axioms": [], "ok": False,
                       "log": "P not run", "file": ""}
        cov = {
            "obligations": P["obligations"],
            "discharged": P["discharged"],
            "checker_cmd": "make -C /verif/coq %s (coq_makefile full .vo build, Coq 8.16.1 kernel) && coqc Props/%s.v "
                           "with Print Assumptions under every theorem" % ("Props/%s.vo" % self.cid, self.cid),
            "trusted_base": (trusted or []) + [
                "Coq 8.16.1 kernel + vm_compute (no native_compute, no extraction)",
                "axioms under Print Assumptions (all declared by the Coq standard library): " +
                (", ".join(P.get("all_axioms", [])) or "none (closed under the global context)"),
                "hand-written Gallina model tied to /repo by the executed correspondence K (differential testing, not proof)",
                "harness/lib.py, harness/%s.py (generators, drivers, tolerances), Gen/SrcConsts.v introspection" % self.cid.lower(),
            ],
            "theorems": P["theorems"],
            "evaluations": self.evaluations,
            "distinct_nontrivial": len(self.distinct),
            "rule": rule,
            "samples": self.cov["samples"] or [{"note": "no sample recorded"}],
            "K_correspondence_testing": self.cov["K"],
            "S_oracle_testing": self.cov["S"],
            "proof_log": P.get("log", ""),
            "coqchk": P.get("coqchk", "thorough tier only"),
            "notes": self.notes,
        }
        if extra:
            cov.update(extra)
        ev = {
            "property_id": self.cid, "tier": self.tier, "seed": self.seed, "level": level,
            "coverage": cov, "assumptions": self.assumptions,
            "wall_s": round(time.time() - self.t0, 2), "violations": len(self.violations),
        }
        os.makedirs(os.path.join(OUT, "evidence"), exist_ok=True)
        with open(os.path.join(OUT, "evidence", self.cid + ".json"), "w") as f:
            json.dump(ev, f, indent=1, default=str)
        seen = set()
        for k, desc in self.known_hits:
            if k not in seen:
                seen.add(k)
                print("KNOWN-FINDING: property=%s %s" % (self.cid, desc))
        for what, path, no_input in self.violations[:20]:
            print("VIOLATION property=%s replay=%s%s" % (self.cid, path, " no-failing-input-found" if no_input else ""))
            print("  " + what[:400])
        print("%s %s: P %d/%d theorems, K %s, S %s, %.1fs -> %s" % (
            self.cid, self.tier, P["discharged"], P["obligations"],
            json.dumps({k: v for k, v in self.cov["K"].items() if isinstance(v, (int, float))}),
            json.dumps({k: v for k, v in self.cov["S"].items() if isinstance(v, (int, float))}),
            time.time() - self.t0, "VIOLATION" if self.violations else "ok"))
        return 1 if self.violations else 0


def impl_env(hashseed="0"):
    return {"PYTHONPATH": REPO, "PYTHONHASHSEED": hashseed, "PYTHONWARNINGS": "ignore"}


def setup_impl_path():
    """Make `import gaddlemaps` resolve to /repo's working tree inside this process."""
    if REPO not in sys.path:
        sys.path.insert(0, REPO)
    import warnings
    warnings.filterwarnings("ignore")
