"""C05 - system extrapolation conserves molecules, order, numbering, box and title.

K: whole Manager sessions (from_files / add_end_molecule / calculate_exchange_maps / extrapolate_system) on generated
   directories; the written .gro (bytes + the harness's own fixed-column reading of it) against
   Model/Manager.v o Model/ExchangeMap.v (binary64) o Model/GroFile.v  (coq/Corr/CheckC05.v).
S: the property text evaluated on the same sessions from the GENERATOR's ground truth (which molecules the input
   file contains), independent of the model and of System's own molecule recognition.
"""
import os

import numpy as np

import lib
import molgen
from em_common import RandRecorder, gen_graph, neighbours, random_rotation
from gro_common import cb, dec_of_float
from lib import v3

HEADER = """From GM Require Import Corr.CheckC05.
From Coq Require Import String.
Open Scope string_scope.
Open Scope float_scope.
Notation length := List.length.
"""

RULE = ("sessions on generated directories: 2-4 loaded species (1-3 residues each, references of >= 3 atoms mostly, some "
        "of 1 or 2 atoms), optionally one present-but-not-loaded species and a one-atom solvent, 1-6 instances per "
        "species in random interleaved order (one third of the systems: a multi-residue species whose copies are "
        "separated by odd numbers of foreign residues), residue numbers from 1 or across the 99999->0 wrap, "
        "rectangular (3 numbers) and triclinic (9 numbers) boxes, scale factor 1, 0.5 or uniform in (0.02, 2]; "
        "call sequences: all ends+maps+extrapolate, no end, no maps, an end molecule added after the maps were "
        "calculated (then completed), two scale factors in turn, re-adding the same end, growing subset, unknown / "
        "non-matching end molecule, end molecules attached by add_end_molecule / add_end_molecules / "
        "molecule_correspondence[name].end = mol in any mix, also after a complete_correspondence read, a refused or a "
        "successful extrapolation or a calculate_exchange_maps, detaching with .end = None, end molecules with velocities (all / mixed), a target with another number of "
        "residues; one title line in twelve is empty; half of the Systems built step by step (constructor with the first "
        "0..n topologies, add_ftop / add_molecule_top for the rest, any order); residue numbers consecutive, with gaps, "
        "arbitrary, or repeated across molecules; one system in three (of those with a multi-residue species) has a further "
        "species made of a contiguous part of its residues, sharing residue kinds (longer topology loaded first); atom and "
        "residue numbers of all topology files and end-molecule coordinate files from 1, offset, 0-based, with gaps, all "
        "equal or descending; plus the shipped BMIM/BF4 box. A session is non-trivial when distinct.")

ECODES = [(OSError, 1), (IndexError, 2), (ValueError, 3), (SystemError, 5), (TypeError, 6), (KeyError, 7)]


def exc_code(e):
    if e is None:
        return 0
    for cls, k in ECODES:
        if isinstance(e, cls):
            return k
    return 9


def r3(x):
    """the binary64 value of the 3-decimal text of x (what any .gro reader gets back)"""
    return float("%.3f" % x)


def r3a(a):
    return [[r3(x) for x in p] for p in np.asarray(a, dtype=float)]


def r4a(a):
    return [[float("%.4f" % x) for x in p] for p in np.asarray(a, dtype=float)]


# ===================================================================== generator
def _resolution(rs, resnames, sizes, prefix, n_ref_geom=None):
    """atoms [(atomname, resname, resnr)], bonds (connected), for residues of the given sizes"""
    atoms = []
    k = 0
    for ri, (rn, sz) in enumerate(zip(resnames, sizes)):
        for _ in range(sz):
            atoms.append(["%s%d" % (prefix, k), rn, ri + 1])
            k += 1
    n = len(atoms)
    if n >= 3:
        _, bonds = gen_graph(rs, n)
    elif n == 2:
        bonds = [(0, 1)]
    else:
        bonds = []
    return atoms, [list(b) for b in bonds]


def _geom(rs, n, bonds):
    """molecule-like geometry: each atom 0.15-0.4 nm from a bonded, already placed atom; atoms >= 0.08 nm apart"""
    nb = neighbours(n, bonds)
    for _ in range(200):
        pos = [None] * n
        pos[0] = np.zeros(3)
        stack = [0]
        while stack:
            a = stack.pop()
            for b in nb[a]:
                if pos[b] is None:
                    d = rs.normal(size=3)
                    pos[b] = pos[a] + d / np.linalg.norm(d) * rs.uniform(0.15, 0.4)
                    stack.append(b)
        pos = np.array(pos)
        if n < 2:
            return pos
        dm = np.linalg.norm(pos[:, None] - pos[None], axis=-1) + np.eye(n)
        if dm.min() > 0.08:
            return pos
    return pos


def sub_species(rs, par, index):
    """a species whose residues are a proper contiguous part of the residues of `par` (same residue names, atom
    names and sizes), with its own bonds, geometry and final resolution"""
    resnrs = sorted(set(a[2] for a in par["cg_atoms"]))
    n = len(resnrs)
    length = int(rs.randint(1, n))
    lo = int(rs.randint(0, n - length + 1))
    keep = resnrs[lo:lo + length]
    cg_atoms = [[a[0], a[1], keep.index(a[2]) + 1] for a in par["cg_atoms"] if a[2] in keep]
    m = len(cg_atoms)
    cg_bonds = [list(b) for b in (gen_graph(rs, m)[1] if m >= 3 else ([(0, 1)] if m == 2 else []))]
    cg_geom = _geom(rs, m, cg_bonds)
    aa_sizes = [int(rs.randint(1, 6)) for _ in keep]
    aa_resn = ["T%d%s" % (index, "ABC"[j]) for j in range(length)]
    aa_atoms, _ = _resolution(rs, aa_resn, aa_sizes, "C")
    aa_bonds = [[i, i + 1] for i in range(len(aa_atoms) - 1)]
    return {"name": "M%d" % index, "cg_atoms": cg_atoms, "cg_bonds": cg_bonds, "cg_geom": cg_geom.tolist(),
            "aa_atoms": aa_atoms, "aa_bonds": aa_bonds, "part_of": par["name"]}


def gen_numbering(rs, sp):
    """atom and residue numbers as they stand in the topology files and in the end molecule's coordinate file: from
    1, from another offset (0-based, cut out of a bigger file, near the 5-digit wrap), with gaps, and in the .gro also
    all equal or descending.  None of them may reach the output."""
    def increasing(n):
        k = int(rs.randint(0, 3))
        if k == 0:
            return list(range(1, n + 1))
        x = int(rs.choice([0, 2, 17, 2301, 99990]))
        out = []
        for _ in range(n):
            out.append(x)
            x += 1 + (int(rs.randint(1, 9)) if k == 2 and rs.randint(0, 2) else 0)
        return out

    def any_numbers(n):
        k = int(rs.randint(0, 4))
        if k <= 1:
            return increasing(n)
        if k == 2:
            return [int(rs.randint(0, 100000))] * n
        return list(range(n + int(rs.randint(0, 50)), 0, -1))[:n]

    def residues():
        k = int(rs.randint(0, 3))
        if k == 0:
            return [1, 2, 3, 4]
        if k == 1:
            x = int(rs.choice([0, 5, 480, 99998]))
            return [x, x + 1, x + 2, x + 3]
        return [int(x) for x in rs.permutation(900)[:4] + 1]
    ncg, naa = len(sp["cg_atoms"]), len(sp["aa_atoms"]) + 2
    return {"cg_itp_num": increasing(ncg), "cg_itp_res": residues(), "aa_itp_num": increasing(naa),
            "aa_itp_res": residues(), "aa_gro_num": any_numbers(naa), "aa_gro_res": residues()}


def gen_spec(rs, kind=None, big=False):
    """a whole session: directory content + call sequence (everything JSON-serialisable, coordinates already
    rounded to the decimals of the files)"""
    nsp = int(rs.randint(2, 5))
    small_at = int(rs.randint(0, nsp)) if rs.randint(0, 4) == 0 else -1     # a species with a 1-/2-atom reference
    species = []
    for k in range(nsp):
        if k == small_at:
            n = int(rs.randint(1, 3))
            nres = 1 if n == 1 or rs.randint(0, 2) else 2
            sizes = [n] if nres == 1 else [1, 1]
        else:
            nres = int(rs.choice([1, 1, 2, 2, 3]))
            sizes = [int(rs.randint(1, 5)) for _ in range(nres)]
            while sum(sizes) < 3:
                sizes[int(rs.randint(0, nres))] += 1
        twin = nres == 2 and sizes[0] == sizes[1] and rs.randint(0, 3) == 0   # two identical residues
        resn = ["S%d%s" % (k, "ABC"[0 if twin else j]) for j in range(nres)]
        cg_atoms, cg_bonds = _resolution(rs, resn, sizes, "B")
        if twin:   # identical residues: same atom names too
            for j, a in enumerate(cg_atoms):
                a[0] = "B%d" % (j % sizes[0])
        cg_geom = _geom(rs, len(cg_atoms), cg_bonds)
        # final resolution: same number of residues (the resids setter requires it), own sizes and names
        aa_sizes = [int(rs.randint(1, 6)) for _ in range(nres)]
        aa_resn = [resn[j] if (rs.randint(0, 2) and not twin) else "T%d%s" % (k, "ABC"[j]) for j in range(nres)]
        aa_atoms, aa_bonds = _resolution(rs, aa_resn, aa_sizes, "C")
        aa_bonds = [[i, i + 1] for i in range(len(aa_atoms) - 1)]
        species.append({"name": "M%d" % k, "cg_atoms": cg_atoms, "cg_bonds": cg_bonds, "cg_geom": cg_geom.tolist(),
                        "aa_atoms": aa_atoms, "aa_bonds": aa_bonds})
    # a further species made of a proper contiguous part of the residues of a multi-residue one (oligomer + free
    # monomer, peptide + free amino acid): the two species SHARE residue kinds (same residue name, atoms, names)
    shared = None
    cands = [k for k, sp in enumerate(species)
             if len(set(a[1] for a in sp["cg_atoms"])) == len(set(a[2] for a in sp["cg_atoms"])) >= 2]
    if cands and rs.randint(0, 3) == 0:
        par = int(rs.choice(cands))
        species.append(sub_species(rs, species[par], len(species)))
        shared = [par, len(species) - 1]
        nsp += 1
    for sp in species:
        sp["numbering"] = gen_numbering(rs, sp)
    # roles
    loaded = list(range(nsp))
    not_loaded = []
    if nsp >= 3 and rs.randint(0, 2):
        not_loaded = [loaded.pop(int(rs.randint(0, nsp)))]            # present in the file, topology not given
    if shared and shared[0] in not_loaded:
        # the part can only be told from the whole once the whole has been recognised: without the topology of the
        # longer species the shorter one is not given either
        loaded.remove(shared[1])
        not_loaded.append(shared[1])
    load_order = [int(x) for x in rs.permutation(loaded)]
    if shared and shared[1] in load_order and load_order.index(shared[1]) < load_order.index(shared[0]):
        # the longer topology first: the only order in which the package can tell the two apart
        i, j = load_order.index(shared[1]), load_order.index(shared[0])
        load_order[i], load_order[j] = load_order[j], load_order[i]
    with_end = [s for s in load_order if rs.randint(0, 4)]            # subsets of species given an end molecule
    if len(with_end) == len(load_order) and len(load_order) > 1 and rs.randint(0, 2):
        with_end.pop(int(rs.randint(0, len(with_end))))               # an unmapped species (loaded, no end)
    if not with_end:
        with_end = [load_order[0]]
    # layout
    counts = {k: int(rs.randint(1, 7 if not big else 40)) for k in range(nsp)}
    tokens = []
    for k in range(nsp):
        tokens += [k] * counts[k]
    nw = int(rs.randint(0, 8 if not big else 60))
    tokens += ["W"] * nw
    tokens = [tokens[i] for i in rs.permutation(len(tokens))]
    multi = [k for k in loaded if len(set(a[2] for a in species[k]["cg_atoms"])) >= 2]
    if multi and rs.randint(0, 3) == 0:
        # copies of a multi-residue species separated by odd numbers of foreign residues
        k = int(rs.choice(multi))
        odd = [k, "W", k, "W", "W", k, "W"]
        one = [j for j in range(nsp) if len(set(a[2] for a in species[j]["cg_atoms"])) == 1 and j != k]
        if one and rs.randint(0, 2):
            odd = [k, one[0], k, "W", one[0], one[0], k]
        at = int(rs.randint(0, len(tokens) + 1))
        tokens = tokens[:at] + odd + tokens[at:]
    tokens = [t if t == "W" else int(t) for t in tokens]
    # box
    tric = bool(rs.randint(0, 2))
    L = [float("%.5f" % x) for x in rs.uniform(4, 9, size=3)]
    box = L + ([float("%.5f" % x) for x in (0.0, 0.0, rs.uniform(-2, 2), 0.0, rs.uniform(-2, 2), rs.uniform(-2, 2))]
               if tric else [])
    # instances
    mols = []
    for t in tokens:
        if t == "W":
            mols.append(r3a([rs.uniform(0, 1, size=3) * L])[0:1])
            continue
        g = np.array(species[t]["cg_geom"])
        R = random_rotation(rs)
        p = (g - g.mean(axis=0)) @ R.T + rs.normal(size=g.shape) * 0.02 + rs.uniform(0.1, 0.9, size=3) * L
        if rs.randint(0, 6) == 0:
            p = p - np.array(L) * 0.6                                   # negative coordinates
        mols.append(r3a(p))
    # end molecules: the final-resolution structure laid over the FIRST instance of the species in the file
    for k in range(nsp):
        sp = species[k]
        first = np.array(mols[tokens.index(k)])
        m = len(sp["aa_atoms"])
        own = first[rs.randint(0, len(first), size=m)]
        sp["aa_pos"] = r3a(own + rs.normal(size=(m, 3)) * 0.12)
        sp["aa_vel"] = None
    velmode = int(rs.choice([0, 0, 0, 0, 0, 0, 1, 1, 2]))               # none / all / mixed (IOError path)
    for j, k in enumerate(range(nsp)):
        if velmode == 1 or (velmode == 2 and j % 2 == 0):
            species[k]["aa_vel"] = r4a(rs.normal(size=(len(species[k]["aa_atoms"]), 3)) * 0.3)
    resid0 = int(rs.choice([1, 1, 1, 7, 99990, 99999 - len(tokens) // 2, 0]))
    s = float(rs.choice([1.0, 0.5, float(rs.uniform(0.02, 2.0)), float(rs.uniform(0.02, 2.0))]))
    s2 = float(rs.uniform(0.02, 2.0))
    title = "".join(rs.choice(list("abcdefghij KLMNOP 0123456789 _-+,.;:()[]=")) for _ in range(int(rs.randint(1, 40))))
    if rs.randint(0, 8) == 0:
        title = " " + title + "  "
    if rs.randint(0, 12) == 0:
        title = ""                                                  # an empty title line is a title like any other
    spec = {"title": title, "box": box, "species": species, "tokens": tokens, "mols": mols,
            "load_order": load_order, "not_loaded": not_loaded, "resid0": resid0, "shared": shared,
            "sys_anum0": int(rs.choice([1, 1, 0, 4321, 99990])),
            "sys_vel": bool(rs.randint(0, 5) == 0), "rand_seed": int(rs.randint(0, 2 ** 31 - 1))}
    # how the System is built: the first n_ctor topologies go to the constructor, the others are added afterwards
    # with add_ftop (0) / add_molecule_top (1), in load order
    spec["n_ctor"] = len(load_order) if rs.randint(0, 2) else int(rs.randint(0, len(load_order) + 1))
    spec["add_how"] = [int(rs.randint(0, 2)) for _ in load_order]
    # residue numbering of the input file
    spec["resid_mode"] = str(rs.choice(["consecutive", "consecutive", "consecutive", "gapped", "gapped",
                                        "nonmonotone", "repeated"]))
    if spec["resid_mode"] != "consecutive":
        spec["rids"] = gen_rids(rs, spec, spec["resid_mode"])
    spec["ops"], spec["pattern"] = gen_ops(rs, spec, with_end, s, s2, kind)
    if spec["pattern"] == "residue_mismatch":
        # a target with another number of residues than the species has in the system (ValueError from the setter)
        k = with_end[0]
        sp = species[k]
        nres = len(set(a[2] for a in sp["aa_atoms"]))
        if nres > 1:
            for a in sp["aa_atoms"]:
                a[1], a[2] = sp["aa_atoms"][0][1], 1
        else:
            sp["aa_atoms"].append(["CX", "TX", 2])
            sp["aa_bonds"].append([len(sp["aa_atoms"]) - 2, len(sp["aa_atoms"]) - 1])
            sp["aa_pos"].append(r3a([np.array(sp["aa_pos"][-1]) + 0.1])[0])
            if sp["aa_vel"] is not None:
                sp["aa_vel"].append([0.0, 0.0, 0.0])
    return spec


def nres_of(spec, t):
    return 1 if t == "W" else len(set(a[2] for a in spec["species"][t]["cg_atoms"]))


def gen_rids(rs, spec, mode):
    """residue numbers of every molecule of the file (list per molecule).  Neighbouring residues always get different
    numbers (the file is cut into residues where (number, name) changes).
      gapped      increasing, with gaps inside and between molecules (residues removed / files concatenated)
      nonmonotone arbitrary numbers in 0..99999
      repeated    every molecule numbered again from a small base: the same numbers occur in many molecules"""
    out, r = [], spec["resid0"]
    prev = None
    for j, t in enumerate(spec["tokens"]):
        n = nres_of(spec, t)
        if mode == "gapped":
            ids = []
            for _ in range(n):
                r += 1 + (int(rs.randint(1, 25)) if rs.randint(0, 3) == 0 else 0)
                ids.append(r % 100000)
        elif mode == "nonmonotone":
            ids = []
            for _ in range(n):
                x = int(rs.randint(0, 100000))
                while x == prev or x in ids[-1:]:
                    x = int(rs.randint(0, 100000))
                ids.append(x)
        else:
            base = (j % 3) * 10 + 1
            ids = [base + i for i in range(n)]
        prev = ids[-1]
        out.append(ids)
    return out


PATTERNS = ["normal", "normal", "normal", "normal", "no_end", "no_calc", "late_end", "late_end", "two_scales", "readd",
            "growing", "bad_end", "residue_mismatch", "attr_after_extrap", "attr_after_extrap", "attr_after_failed",
            "remove_end"]


def gen_ops(rs, spec, with_end, s, s2, kind=None):
    pat = kind or str(rs.choice(PATTERNS))
    if pat in ("late_end", "growing", "attr_after_extrap") and len(with_end) < 2:
        pat = "normal"
    ends = [["end", k] for k in with_end]
    if pat in ("normal", "residue_mismatch"):
        ops = ends + [["calc", s], ["extrap"]]
    elif pat == "no_end":
        ops = [["extrap"]]
    elif pat == "no_calc":
        ops = ends + [["extrap"]]
    elif pat == "late_end":
        # some maps exist, one complete species has none: must raise and write nothing; then completed
        ops = ends[:-1] + [["calc", s]] + ends[-1:] + [["extrap"], ["calc", s], ["extrap"]]
    elif pat == "two_scales":
        ops = ends + [["calc", s], ["extrap"], ["calc", s2], ["extrap"]]
    elif pat == "readd":
        ops = ends + [["calc", s], ["end", with_end[0]], ["extrap"]]
    elif pat == "growing":
        ops = ends[:1] + [["calc", s], ["extrap"]] + ends[1:] + [["calc", s2], ["extrap"]]
    elif pat == "bad_end":
        ops = [["end_unknown"]] + ends + [["end_alt", with_end[0]], ["calc", s], ["extrap"]]
    elif pat == "attr_after_extrap":
        # one species mapped and written, then the others attached and the whole thing again
        ops = ends[:1] + [["calc", s], ["extrap"]] + ends[1:] + [["calc", s2], ["extrap"]]
    elif pat == "attr_after_failed":
        # a refused request first (nothing attached), then attachments, maps, output
        ops = [["extrap"]] + ends + [["calc", s], ["extrap"]]
    elif pat == "remove_end":
        # detach one end molecule after a first output (nothing may be written for it), then attach it again
        ops = ends + [["calc", s], ["extrap"], ["end_none", with_end[-1]], ["extrap"], ["end", with_end[-1]],
                      ["calc", s2], ["extrap"]]
    else:
        raise ValueError(pat)
    return mix_routes(rs, ops, force_attr=pat.startswith("attr_")), pat


def mix_routes(rs, ops, force_attr=False):
    """the ways of attaching an end molecule: add_end_molecule, add_end_molecules (runs of consecutive attachments),
    `manager.molecule_correspondence[name].end = molecule` (the documented alternative, used by the command line);
    plus reads of complete_correspondence / parse_restrictions() at random places.  With force_attr every attachment
    that follows the first request (calculate / extrapolate) goes through the attribute."""
    out, seen_request = [], False
    for op in ops:
        if op[0] in ("calc", "extrap"):
            seen_request = True
        if op[0] == "end":
            r = int(rs.randint(0, 5))
            if (force_attr and seen_request) or r in (0, 1):
                op = ["end_attr", op[1]]
            elif r == 2 and out and out[-1][0] == "ends":
                out[-1] = ["ends", out[-1][1] + [op[1]]]
                continue
            elif r == 2:
                op = ["ends", [op[1]]]
        if rs.randint(0, 6) == 0:
            out.append(["read"])
        out.append(op)
    return out


# ===================================================================== ground truth of a spec
def aa_residues(sp):
    """the residues of the end molecule as its .gro file shows them: consecutive atoms with equal (resnr, resname)"""
    out, prev = [], None
    for i, (an, rn, rid) in enumerate(sp["aa_atoms"]):
        if (rid, rn) != prev:
            out.append([])
            prev = (rid, rn)
        out[-1].append(i)
    return out


def truth(spec):
    """molecules of the input file in file order: (species or 'W', residue numbers as the file shows them,
    first atom number, positions)"""
    out = []
    resid = spec["resid0"]
    if "rids" in spec:
        return [(t, list(r), pos) for t, r, pos in zip(spec["tokens"], spec["rids"], spec["mols"])]
    for t, pos in zip(spec["tokens"], spec["mols"]):
        if t == "W":
            out.append(("W", [resid % 100000], pos))
            resid += 1
        else:
            nres = len(set(a[2] for a in spec["species"][t]["cg_atoms"]))
            out.append((t, [(resid + j) % 100000 for j in range(nres)], pos))
            resid += nres
    return out


# ===================================================================== files
def write_directory(spec):
    """returns dict(sys=path, cg={k: itp}, aa={k: (gro, itp)}, alt=(gro, itp), unknown=(gro, itp))"""
    rs = np.random.RandomState(spec["rand_seed"])
    recs = []
    anum = spec.get("sys_anum0", 1)
    for (t, rids, pos) in truth(spec):
        if t == "W":
            atoms = [("W", "W", 1)]
        else:
            atoms = spec["species"][t]["cg_atoms"]
        for (an, rn, rnr), p in zip(atoms, pos):
            vel = [float("%.4f" % x) for x in rs.normal(size=3)] if spec["sys_vel"] else None
            recs.append((rids[rnr - 1], rn, an, anum, p, vel))
            anum += 1
    d = {"cg": {}, "aa": {}}
    d["sys"] = molgen.write_gro(molgen.fresh_path("gro", "sys"), recs, box=spec["box"], title=spec["title"])
    for k, sp in enumerate(spec["species"]):
        nb = sp.get("numbering") or {}
        res = nb.get("cg_itp_res") or [1, 2, 3, 4]
        d["cg"][k] = molgen.write_itp(molgen.fresh_path("itp", "cg"), sp["name"],
                                      [(a[0], a[1], res[a[2] - 1]) for a in sp["cg_atoms"]],
                                      [tuple(b) for b in sp["cg_bonds"]], numbers=nb.get("cg_itp_num"))
        d["aa"][k] = _write_end(sp["name"], sp["aa_atoms"], sp["aa_bonds"], sp["aa_pos"], sp["aa_vel"], nb)
    return d


def _write_end(name, atoms, bonds, pos, vel, numbering=None):
    """topology + coordinate file of an end molecule; `numbering`: the atom / residue numbers the two files carry"""
    nb = numbering or {}
    n = len(atoms)
    ires = nb.get("aa_itp_res") or [1, 2, 3, 4]
    gres = nb.get("aa_gro_res") or [1, 2, 3, 4]
    inum = (nb.get("aa_itp_num") or [])[:n]
    gnum = (nb.get("aa_gro_num") or [])[:n]
    inum = inum if len(inum) == n else list(range(1, n + 1))
    gnum = gnum if len(gnum) == n else list(range(1, n + 1))
    itp = molgen.write_itp(molgen.fresh_path("itp", "aa"), name, [(a[0], a[1], ires[a[2] - 1]) for a in atoms],
                           [tuple(b) for b in bonds], numbers=inum)
    recs = [(gres[a[2] - 1], a[1], a[0], gnum[i], pos[i], None if vel is None else vel[i]) for i, a in enumerate(atoms)]
    gro = molgen.write_gro(molgen.fresh_path("gro", "aa"), recs, box=(9.0, 9.0, 9.0), title="end " + name)
    return gro, itp


def alt_end(sp):
    """same molecule name, one more atom: not == the first end molecule"""
    atoms = [list(a) for a in sp["aa_atoms"]] + [["CZ", sp["aa_atoms"][-1][1], sp["aa_atoms"][-1][2]]]
    bonds = [list(b) for b in sp["aa_bonds"]] + [[len(atoms) - 2, len(atoms) - 1]]
    pos = [list(p) for p in sp["aa_pos"]] + [r3a([np.array(sp["aa_pos"][-1]) + 0.1])[0]]
    vel = None if sp["aa_vel"] is None else [list(v) for v in sp["aa_vel"]] + [[0.0, 0.0, 0.0]]
    return atoms, bonds, pos, vel


# ===================================================================== implementation driver
def build_manager(spec, d):
    """Manager.from_files(gro, *itps) when every topology goes to the constructor; otherwise the System is built
    step by step (constructor with the first n_ctor topologies, then add_ftop / add_molecule_top) and handed to
    Manager(system) - what the command line's discovery and a user exploring a system do"""
    from gaddlemaps import Manager
    from gaddlemaps.components import System, MoleculeTop
    order = spec["load_order"]
    n_ctor = spec.get("n_ctor", len(order))
    if n_ctor >= len(order):
        return Manager.from_files(d["sys"], *[d["cg"][k] for k in order])
    system = System(d["sys"], *[d["cg"][k] for k in order[:n_ctor]])
    how = spec.get("add_how") or [0] * len(order)
    for i in range(n_ctor, len(order)):
        if how[i]:
            system.add_molecule_top(MoleculeTop(d["cg"][order[i]]))
        else:
            system.add_ftop(d["cg"][order[i]])
    return Manager(system)


def run_session(spec, keep=False):
    """runs the call sequence on the real Manager.  Returns (obs, ctxobj): obs = one dict per op;
    ctxobj = dict(man, ends) for the oracle's direct calls."""
    from gaddlemaps import Manager
    from gaddlemaps.components import Molecule
    d = write_directory(spec)
    np.random.seed(spec["rand_seed"] % (2 ** 32))
    man = build_manager(spec, d)
    ends = {}
    obs = []
    book = Bookkeeping(spec)
    for op in spec["ops"]:
        o = {"op": op}
        with RandRecorder() as rec, np.errstate(all="ignore"):
            try:
                if op[0] == "end":
                    k = op[1]
                    if k not in ends:
                        ends[k] = Molecule.from_files(*d["aa"][k])
                    man.add_end_molecule(ends[k])
                elif op[0] == "end_attr":
                    k = op[1]
                    if k not in ends:
                        ends[k] = Molecule.from_files(*d["aa"][k])
                    man.molecule_correspondence[spec["species"][k]["name"]].end = ends[k]
                elif op[0] == "ends":
                    for k in op[1]:
                        if k not in ends:
                            ends[k] = Molecule.from_files(*d["aa"][k])
                    man.add_end_molecules(*[ends[k] for k in op[1]])
                elif op[0] == "end_none":
                    man.molecule_correspondence[spec["species"][op[1]]["name"]].end = None
                elif op[0] == "read":
                    o["read"] = sorted(man.complete_correspondence)
                    man.parse_restrictions()
                elif op[0] == "end_alt":
                    sp = spec["species"][op[1]]
                    a, b, p, v = alt_end(sp)
                    man.add_end_molecule(Molecule.from_files(*_write_end(sp["name"], a, b, p, v, sp.get("numbering"))))
                elif op[0] == "end_unknown":
                    sp = spec["species"][0]
                    man.add_end_molecule(Molecule.from_files(*_write_end("ZZZ", sp["aa_atoms"], sp["aa_bonds"],
                                                                         sp["aa_pos"], sp["aa_vel"])))
                elif op[0] == "calc":
                    man.calculate_exchange_maps(op[1])
                elif op[0] == "extrap":
                    out = molgen.fresh_path("gro", "out")
                    o["path_existed_before"] = os.path.exists(out)
                    try:
                        man.extrapolate_system(out)
                    finally:
                        o["exists"] = os.path.exists(out)
                        if o["exists"]:
                            with open(out, "rb") as f:
                                o["text"] = f.read().decode("latin-1")
                o["exc"] = None
            except Exception as e:  # noqa: BLE001 - the class is the observation
                o["exc"] = e
        o["draws"] = [np.array(c, dtype=float).reshape(-1, 3) for c in rec.calls]
        o["draws"] = [row.tolist() for c in o["draws"] for row in c]
        state = np.random.get_state()
        o["bad"] = book.after(o, man)          # S oracle, with the maps as they are at this moment
        np.random.set_state(state)
        obs.append(o)
    return obs, {"man": man, "ends": ends}


# ===================================================================== the harness's own .gro reader
def read_fixed(text):
    """fixed-column reading of a .gro text, independent of the package.  None when the text is not a complete
    file (title line, count line, count atom lines, box line, final newline)."""
    lines = text.split("\n")
    if len(lines) < 3 or lines[-1] != "":
        return None
    try:
        n = int(lines[1])
    except ValueError:
        return None
    body, boxl = lines[2:-2], lines[-2]
    if len(lines) < 4 or len(body) != n:
        return None
    atoms = []
    for ln in body:
        rest = ln[20:]
        dots = [i for i, c in enumerate(rest) if c == "."]
        if len(dots) not in (3, 6):
            return None
        w = dots[1] - dots[0]
        if len(rest) != w * len(dots):
            return None
        try:
            atoms.append((int(ln[0:5]), ln[5:10].strip(), ln[10:15].strip(), int(ln[15:20]),
                          [rest[i:i + w] for i in range(0, len(rest), w)]))
        except ValueError:
            return None
    return {"title": lines[0], "count": n, "atoms": atoms, "box": boxl}


def diagnose(text):
    """first atom line whose length differs from that of the first one (for the violation message)"""
    lines = text.split("\n")
    body = lines[2:-2]
    for i, ln in enumerate(body):
        if len(ln) != len(body[0]):
            return ": atom line %d has %d characters, the first has %d: %r" % (i + 1, len(ln), len(body[0]), ln[:24])
    return ""


def field_dec(txt):
    """(neg, mantissa, decimals) of a fixed-point field"""
    t = txt.strip()
    neg = t.startswith("-")
    t = t.lstrip("+-")
    ip, _, fp = t.partition(".")
    return neg, int((ip or "0") + fp), len(fp)


# ===================================================================== Coq terms
def nat(n):
    return "%d%%nat" % int(n)


def zz(n):
    return "(%d)%%Z" % int(n)


def vlist(arr):
    return lib.coq_list([v3(p) for p in arr])


def t_str(s):
    lit = lib.coq_str(s)
    if lit is None:
        raise ValueError("non-printable text")
    return lit


def t_start(spec, k):
    sp = spec["species"][k]
    nb = neighbours(len(sp["cg_atoms"]), [tuple(b) for b in sp["cg_bonds"]])
    first = spec["mols"][spec["tokens"].index(k)]
    return "(%s, %s)" % (lib.coq_list([lib.coq_list([nat(j) for j in l]) for l in nb]), vlist(first))


def t_end(atoms, pos, vel):
    res, prev = [], None
    for i, (an, rn, rid) in enumerate(atoms):
        if (rid, rn) != prev:
            res.append([])
            prev = (rid, rn)
        v = "None" if vel is None else "(Some %s)" % v3(vel[i])
        res[-1].append("TA %s %s %s" % (t_str(rn), t_str(an), v))
    return "(EN %s %s)" % (lib.coq_list([lib.coq_list(r) for r in res]), vlist(pos))


def t_dec(txt):
    neg, m, _ = field_dec(txt)
    return "D %s %d" % (cb(neg), m)


def t_oline(a):
    resid, rn, an, anum, f = a
    pos = "(%s, %s, %s)" % tuple(t_dec(x) for x in f[:3])
    vel = "None" if len(f) == 3 else "(Some (%s, %s, %s))" % tuple(t_dec(x) for x in f[3:6])
    return "OL %s %s %s %s %s %s" % (zz(resid), t_str(rn), t_str(an), zz(anum), pos, vel)


def t_box(spec):
    """the 9 row-major entries of the matrix a .gro box line v1(x) v2(y) v3(z) [v1(y) v1(z) v2(x) v2(z) v3(x) v3(y)] stands for"""
    b = list(spec["box"]) + [0.0] * (9 - len(spec["box"]))
    m = [b[0], b[3], b[4], b[5], b[1], b[6], b[7], b[8], b[2]]
    out = []
    for x in m:
        neg, mant = dec_of_float(x, 5)
        out.append("Bx %s %d %s" % (cb(neg), mant, cb(float(x) != 0.0)))
    return lib.coq_list(out)


def t_xobs(o):
    k = exc_code(o["exc"])
    if not o["exists"]:
        return "(XNoFile %s)" % nat(k)
    text = o["text"]
    parsed = read_fixed(text)
    ols = [] if parsed is None else [t_oline(a) for a in parsed["atoms"]]
    parts = text.split("\n")
    return "(XFile %s %s %s %s)" % (nat(k), lib.coq_list(ols, sep=";\n     "),
                                    lib.coq_list([t_str(x) for x in parts[:-1]], sep=";\n     "), t_str(parts[-1]))


def case_term(spec, obs):
    order = spec["load_order"]
    idx = {k: i for i, k in enumerate(order)}
    starts = lib.coq_list([t_start(spec, k) for k in order], sep=";\n   ")
    mis = []
    for (t, rids, pos) in truth(spec):
        if t in idx:
            mis.append("MI %s %s %s" % (nat(idx[t]), lib.coq_list([zz(r) for r in rids]), vlist(pos)))
    mis = lib.coq_list(mis, sep=";\n     ")
    ops = []
    for o in obs:
        op = o["op"]
        k = exc_code(o["exc"])
        if op[0] in ("end", "end_attr"):
            sp = spec["species"][op[1]]
            ops.append("KAddEnd %s %s %s" % (nat(idx[op[1]]), t_end(sp["aa_atoms"], sp["aa_pos"], sp["aa_vel"]), nat(k)))
        elif op[0] == "ends":
            if k != 0:
                raise RuntimeError("add_end_molecules raised on valid molecules: %r" % o["exc"])
            for j in op[1]:
                sp = spec["species"][j]
                ops.append("KAddEnd %s %s %s" % (nat(idx[j]), t_end(sp["aa_atoms"], sp["aa_pos"], sp["aa_vel"]), nat(0)))
        elif op[0] == "end_none":
            ops.append("KRemoveEnd %s %s" % (nat(idx[op[1]]), nat(k)))
        elif op[0] == "read":
            if k != 0:
                raise RuntimeError("reading complete_correspondence raised: %r" % o["exc"])
        elif op[0] == "end_alt":
            a, _, p, v = alt_end(spec["species"][op[1]])
            ops.append("KAddEnd %s %s %s" % (nat(idx[op[1]]), t_end(a, p, v), nat(k)))
        elif op[0] == "end_unknown":
            sp = spec["species"][0]
            ops.append("KAddEnd %s %s %s" % (nat(len(order)), t_end(sp["aa_atoms"], sp["aa_pos"], sp["aa_vel"]), nat(k)))
        elif op[0] == "calc":
            ops.append("KCalc %s %s %s" % (lib.fl(op[1]), vlist(o["draws"]), nat(k)))
        else:
            ops.append("KExtrap %s %s %s" % (mis, vlist(o["draws"]), t_xobs(o)))
    return "chk_c05\n  %s\n  %s %s\n  %s" % (starts, t_str(spec["title"]), t_box(spec), lib.coq_list(ops, sep=";\n    "))


# ===================================================================== S oracle (property text)
HALF_UNIT = 0.5e-3 + 1e-9


class Bookkeeping:
    """what the property text needs to know about the session so far: which species have both resolutions
    attached, and for which of them a map has been calculated (with which scale factor)"""

    def __init__(self, spec):
        self.spec = spec
        self.complete, self.mapped = [], {}
        self.truth = truth(spec)

    def after(self, o, man):
        """called right after every operation; returns the failed clauses of the property for it"""
        op, spec = o["op"], self.spec
        if op[0] in ("end", "end_attr") and o["exc"] is None and op[1] not in self.complete:
            self.complete.append(op[1])
        elif op[0] == "ends" and o["exc"] is None:
            self.complete += [k for k in op[1] if k not in self.complete]
        elif op[0] == "end_none" and o["exc"] is None and op[1] in self.complete:
            self.complete.remove(op[1])
        elif op[0] == "read" and o["exc"] is None:
            want = sorted(spec["species"][k]["name"] for k in self.complete)
            if o["read"] != want:
                return ["complete_correspondence lists %s, both resolutions are attached for %s" % (o["read"], want)]
        elif op[0] == "calc" and o["exc"] is None:
            for k in self.complete:
                self.mapped[k] = op[1]
        elif op[0] == "extrap" and not o.get("path_existed_before"):
            bad = []
            if not self.complete or any(k not in self.mapped for k in self.complete):
                # "requesting extrapolation before the maps exist raises an error and writes no file"
                if o["exc"] is None:
                    bad.append("extrapolation before the maps exist (both resolutions attached: %s, maps calculated "
                               "for: %s) raised no error" % ([spec["species"][k]["name"] for k in self.complete],
                                                             [spec["species"][k]["name"] for k in self.mapped]))
                if o["exists"]:
                    bad.append("extrapolation before the maps exist wrote a file")
                return bad
            if in_domain(spec, self.complete):
                return oracle_file(spec, self.truth, self.complete, self.mapped, o, man)
        return []


def oracle_session(spec, obs, live=None):
    """the failed clauses of the property text over the whole session (evaluated right after each call)"""
    return [b for o in obs for b in o.get("bad", [])]


def in_domain(spec, complete):
    """the property's statement presupposes that the write can succeed at all: the two resolutions of every complete
    species have the same number of residues, and the end molecules agree on having velocities"""
    vel = set()
    for k in complete:
        sp = spec["species"][k]
        if len(aa_residues(sp)) != len(set(a[2] for a in sp["cg_atoms"])):
            return False
        vel.add(sp["aa_vel"] is not None)
    return len(vel) == 1


def input_molecule(man, name, pos):
    """a Molecule of the species placed at the coordinates the input file shows, built without System.__iter__"""
    m = man.molecule_correspondence[name].start.copy()
    m.atoms_positions = np.array(pos, dtype=float)
    return m


def oracle_file(spec, tr, complete, mapped, o, man):
    bad = []
    if o["exc"] is not None:
        return ["extrapolation with all maps present raised %s" % type(o["exc"]).__name__]
    if not o["exists"]:
        return ["extrapolation returned normally but wrote no file"]
    got = read_fixed(o["text"])
    if got is None:
        return ["the written file is not a complete .gro file (count line / atom lines / box line)" + diagnose(o["text"])]
    # o["text"] is the output's BYTES (one character per byte); the input title was written as UTF-8
    if got["title"] != spec["title"].encode("utf-8").decode("latin-1"):
        bad.append("title %r != input title %r" % (got["title"], spec["title"]))
    try:
        gbox = [float(x) for x in got["box"].split()]
    except ValueError:
        gbox = None
    want = list(spec["box"])
    if len(want) == 9 and not any(want[3:]):
        want = want[:3]
    if gbox is None or len(gbox) != len(want) or any(abs(a - b) > 0.5e-5 + 1e-12 for a, b in zip(gbox, want)):
        bad.append("box %r != input box %r" % (got["box"], want))
    expected = [(t, rids, pos) for (t, rids, pos) in tr if t in complete]
    total = sum(len(spec["species"][t]["aa_atoms"]) for (t, _, _) in expected)
    if got["count"] != total or len(got["atoms"]) != total:
        bad.append("%d atoms written (count line %d) for %d input molecules of complete species (sum of target sizes %d)"
                   % (len(got["atoms"]), got["count"], len(expected), total))
        return bad
    for i, a in enumerate(got["atoms"]):
        if a[3] != (i + 1) % 100000:
            bad.append("atom %d carries number %d" % (i + 1, a[3]))
            return bad
    at = 0
    fresh = {}
    for mi, (t, rids, pos) in enumerate(expected):
        sp = spec["species"][t]
        m = len(sp["aa_atoms"])
        block = got["atoms"][at:at + m]
        at += m
        res_of = {}
        for ri, atoms in enumerate(aa_residues(sp)):
            for i in atoms:
                res_of[i] = ri
        for i, a in enumerate(block):
            if (a[1], a[2]) != (sp["aa_atoms"][i][1], sp["aa_atoms"][i][0]):
                bad.append("molecule %d (%s): atom %d is %s/%s, target has %s/%s" %
                           (mi, sp["name"], i, a[1], a[2], sp["aa_atoms"][i][1], sp["aa_atoms"][i][0]))
                return bad
            if a[0] != rids[res_of[i]]:
                bad.append("molecule %d (%s): atom %d carries residue number %d, input molecule has %s" %
                           (mi, sp["name"], i, a[0], rids))
                return bad
            if (len(a[4]) == 6) != (sp["aa_vel"] is not None):
                bad.append("molecule %d: velocities %s" % (mi, "written" if len(a[4]) == 6 else "missing"))
                return bad
        q = np.array([[float(x) for x in a[4][:3]] for a in block])
        n_ref = len(sp["cg_atoms"])
        if n_ref >= 3:
            direct = man.molecule_correspondence[sp["name"]].exchange_map(input_molecule(man, sp["name"], pos))
            dpos = np.array(direct.atoms_positions, dtype=float)
            dev = np.abs(q - dpos).max()
            if not dev <= HALF_UNIT:
                bad.append("molecule %d (%s): written coordinates differ from exchange_map(mol) by %.3g nm" %
                           (mi, sp["name"], dev))
                return bad
            # ... and the species' map is the one for the scale factor requested last: a map built here from the
            # same two molecules with that factor must give the same molecule
            if t not in fresh:
                from gaddlemaps import ExchangeMap
                al = man.molecule_correspondence[sp["name"]]
                fresh[t] = ExchangeMap(al.start, al.end, mapped[t])
            fpos = np.array(fresh[t](input_molecule(man, sp["name"], pos)).atoms_positions, dtype=float)
            dev = np.abs(q - fpos).max()
            if not dev <= HALF_UNIT:
                bad.append("molecule %d (%s): written coordinates differ by %.3g nm from the map of the two attached "
                           "molecules with the scale factor requested last (%.4g)" % (mi, sp["name"], dev, mapped[t]))
                return bad
        else:
            s = mapped[t]
            first = np.array(spec["mols"][spec["tokens"].index(t)])
            bad += small_invariants(np.array(sp["aa_pos"]), first, np.array(pos), q, s, mi)
            if bad:
                return bad
    return bad


def small_invariants(tgt, ref0, ref1, q, s, mi, tol=2.5e-3):
    """references of one or two atoms: the image is s * target up to the rotation left free (C02): pairwise
    distances, distance to the first reference atom, and (two atoms) the coordinate along the molecular axis"""
    bad = []
    dq = np.linalg.norm(q[:, None] - q[None], axis=-1)
    dt = np.linalg.norm(tgt[:, None] - tgt[None], axis=-1) * s
    if np.abs(dq - dt).max() > tol:
        bad.append("molecule %d: mutual distances of the written atoms differ from s * target by %.3g" %
                   (mi, np.abs(dq - dt).max()))
    r0 = np.linalg.norm(q - ref1[0], axis=1)
    t0 = np.linalg.norm(tgt - ref0[0], axis=1) * s
    if np.abs(r0 - t0).max() > tol:
        bad.append("molecule %d: distances to the reference atom differ from s * target by %.3g" %
                   (mi, np.abs(r0 - t0).max()))
    if len(ref0) == 2:
        u0 = (ref0[1] - ref0[0]) / np.linalg.norm(ref0[1] - ref0[0])
        u1 = (ref1[1] - ref1[0]) / np.linalg.norm(ref1[1] - ref1[0])
        ax = np.abs((q - ref1[0]) @ u1 - (tgt - ref0[0]) @ u0 * s).max()
        if ax > tol:
            bad.append("molecule %d: coordinate along the molecular axis differs by %.3g" % (mi, ax))
    return bad


# ===================================================================== shipped BMIM/BF4 box
def shipped_spec(nmol, s=0.5, pattern="normal"):
    """the shipped box as a spec of this harness (species structure read from the shipped files by this harness:
    [atoms] and [bonds]/[constraints] sections)"""
    import gaddlemaps
    data = os.path.join(os.path.dirname(gaddlemaps.__file__), "data")

    def itp(fn):
        atoms, bonds, sec = [], [], None
        for ln in open(os.path.join(data, fn)):
            ln = ln.split(";")[0].strip()
            if not ln:
                continue
            if ln.startswith("["):
                sec = ln.strip("[] \t").lower()
                continue
            f = ln.split()
            if sec == "atoms":
                atoms.append([f[4], f[3], int(f[2])])
            elif sec in BOND_SECTIONS and len(f) >= 2:
                bonds.append([int(f[0]) - 1, int(f[1]) - 1])
        return atoms, bonds

    def gro(fn):
        ls = open(os.path.join(data, fn)).read().split("\n")
        return [[float(ln[20:28]), float(ln[28:36]), float(ln[36:44])] for ln in ls[2:2 + int(ls[1])]]
    lines = open(os.path.join(data, "system_bmimbf4_cg.gro")).read().split("\n")
    n = int(lines[1])
    body = lines[2:2 + n]
    species = []
    for name, cg, aa in (("BF4", "BF4_CG.itp", "BF4_AA"), ("BMIM", "BMIM_CG.itp", "BMIM_AA")):
        ca, cbonds = itp(cg)
        aat, ab = itp(aa + ".itp")
        species.append({"name": name, "cg_atoms": ca, "cg_bonds": cbonds, "aa_atoms": aat, "aa_bonds": ab,
                        "aa_pos": gro(aa + ".gro"), "aa_vel": None, "shipped": (cg, aa)})
    tokens, mols, rids, i = [], [], [], 0
    counts = {0: 0, 1: 0}
    firstres = None
    while i < len(body):
        k = 0 if body[i][5:10].strip() == "BF4" else 1
        sz = len(species[k]["cg_atoms"])
        chunk = body[i:i + sz]
        i += sz
        if counts[k] >= nmol:
            continue
        counts[k] += 1
        tokens.append(k)
        rids.append(sorted(set(int(ln[0:5]) for ln in chunk)))
        mols.append([[float(ln[20:28]), float(ln[28:36]), float(ln[36:44])] for ln in chunk])
        if firstres is None:
            firstres = int(chunk[0][0:5])
    spec = {"title": lines[0], "box": [float(x) for x in lines[2 + n].split()], "species": species, "tokens": tokens,
            "mols": mols, "rids": rids, "load_order": [1, 0], "not_loaded": [], "resid0": firstres, "sys_vel": False,
            "rand_seed": 12345, "shipped_nmol": nmol, "pattern": "shipped_" + pattern}
    ends = [["end", 0], ["end", 1]]
    if pattern == "incremental":
        # System(gro, BMIM_CG.itp) then add_ftop(BF4_CG.itp): every BF4 precedes every BMIM in the shipped file
        spec["n_ctor"], spec["add_how"] = 1, [0, 0]
        spec["ops"] = ends + [["calc", s], ["extrap"]]
    elif pattern == "attr_after_extrap":
        # the demo of seeded C05-8: BMIM through add_end_molecule, mapped and written; then BF4 through the attribute
        spec["ops"] = [["end", 1], ["calc", s], ["extrap"], ["end_attr", 0], ["calc", s], ["extrap"]]
    elif pattern == "late_end":
        spec["ops"] = [ends[0], ["calc", s], ends[1], ["extrap"], ["calc", s], ["extrap"]]
    else:
        spec["ops"] = ends + [["calc", s], ["extrap"]]
    return spec


BOND_SECTIONS = ("bonds", "constraints", "pairs")


def write_shipped_directory(spec):
    """the truncated copy of the shipped system + the shipped topologies / end structures themselves"""
    import gaddlemaps
    data = os.path.join(os.path.dirname(gaddlemaps.__file__), "data")
    lines = open(os.path.join(data, "system_bmimbf4_cg.gro")).read().split("\n")
    n = int(lines[1])
    body = lines[2:2 + n]
    keep, counts, i = [], {0: 0, 1: 0}, 0
    while i < len(body):
        k = 0 if body[i][5:10].strip() == "BF4" else 1
        sz = len(spec["species"][k]["cg_atoms"])
        if counts[k] < spec["shipped_nmol"]:
            keep += body[i:i + sz]
            counts[k] += 1
        i += sz
    path = molgen.fresh_path("gro", "bmimbf4")
    with open(path, "w") as f:
        f.write(lines[0] + "\n%5d\n" % len(keep) + "\n".join(keep) + "\n" + lines[2 + n] + "\n")
    d = {"sys": path, "cg": {}, "aa": {}}
    for k, sp in enumerate(spec["species"]):
        cg, aa = sp["shipped"]
        d["cg"][k] = os.path.join(data, cg)
        d["aa"][k] = (os.path.join(data, aa + ".gro"), os.path.join(data, aa + ".itp"))
    return d


_generated_write_directory = write_directory


def write_directory(spec):  # noqa: F811 - dispatch on the kind of spec
    if "shipped_nmol" in spec:
        return write_shipped_directory(spec)
    return _generated_write_directory(spec)


# ===================================================================== check entry points
def check_spec(ctx, spec, where):
    """runs the session and the S oracle; returns (obs, violation-clauses)"""
    obs, live = run_session(spec)
    bad = oracle_session(spec, obs, live)
    if bad:
        ctx.violation("%s [%s]: %s" % (where, spec.get("pattern"), "; ".join(bad[:4])), {"spec": spec},
                      key="extrapolate")
    return obs, bad


def corpus_specs():
    """fixed witnesses: the layouts and call sequences the property is most easily broken on"""
    out = []
    rs = np.random.RandomState(20505)
    # DIM | W | DIM | W W | DIM | W : a two-residue species whose copies start at odd residue offsets
    for layout in (["D", "W", "D", "W", "W", "D", "W"], ["D", "O", "D", "D", "O", "O", "O", "D", "W", "D"]):
        spec = gen_spec(rs, kind="normal")
        while not any(len(set(a[2] for a in sp["cg_atoms"])) == 2 and len(sp["cg_atoms"]) >= 3
                      for k, sp in enumerate(spec["species"]) if k in spec["load_order"]) or not in_domain(
                          spec, [op[1] for op in spec["ops"] if op[0] == "end"]):
            spec = gen_spec(rs, kind="normal")
        dk = [k for k, sp in enumerate(spec["species"]) if k in spec["load_order"] and
              len(set(a[2] for a in sp["cg_atoms"])) == 2 and len(sp["cg_atoms"]) >= 3][0]
        ok = [k for k in spec["load_order"] if k != dk]
        toks = [dk if t == "D" else (ok[0] if (t == "O" and ok) else "W") for t in layout]
        spec = relayout(rs, spec, toks, [dk] + ok[:1])
        out.append(spec)
    for pat in ("late_end", "late_end", "no_end", "no_calc", "growing", "two_scales"):
        spec = gen_spec(rs, kind=pat)
        while spec["pattern"] != pat:
            spec = gen_spec(rs, kind=pat)
        out.append(spec)
    out.append(empty_title_spec(rs))
    out += [incremental_witness(rs), gapped_resids_witness(rs)]
    out += [attr_route_witness(rs, k) for k in range(4)]
    out += [numbering_witness(rs), shared_kinds_witness(rs)]
    return out


def _two_species(rs, need_two_residues):
    """a generated spec with two loaded species a, b (a with two residues and >= 3 atoms if asked), both in domain"""
    while True:
        spec = gen_spec(rs, kind="normal")
        lo = spec["load_order"]
        if len(lo) < 2:
            continue
        cand = [k for k in lo if len(spec["species"][k]["cg_atoms"]) >= 3 and
                (not need_two_residues or nres_of(spec, k) == 2)]
        if not cand:
            continue
        a = cand[0]
        b = [k for k in lo if k != a][0]
        if in_domain(spec, [a, b]):
            return spec, a, b


def numbering_witness(rs):
    """seeded C05-9: end molecules cut out of a bigger file (atoms 2301.., residue 480) - the written atom numbers
    must still run from 1"""
    spec, a, b = _two_species(rs, False)
    spec = relayout(rs, spec, [a, "W", b, a, "W", a], [a, b])
    for k in (a, b):
        n = len(spec["species"][k]["aa_atoms"]) + 2
        spec["species"][k]["numbering"] = dict(spec["species"][k]["numbering"], aa_gro_num=[2301 + i for i in range(n)],
                                               aa_gro_res=[480, 481, 482, 483])
    spec["pattern"] = "end_numbering"
    return spec


def shared_kinds_witness(rs):
    """seeded C05-10: D = [X, Y...] and its free part M = [X] both loaded (the longer first), file D M M D W W M:
    every residue belongs to exactly one molecule"""
    while True:
        spec = gen_spec(rs, kind="normal")
        sh = spec.get("shared")
        if sh and all(k in spec["load_order"] for k in sh) and in_domain(spec, sh):
            break
    d, m = sh
    spec = relayout(rs, spec, [d, m, m, d, "W", "W", m], [d, m])
    spec["pattern"] = "shared_residue_kinds"
    return spec


def attr_route_witness(rs, variant):
    """seeded C05-8: an end molecule attached through `molecule_correspondence[name].end = molecule` AFTER
    complete_correspondence has been evaluated (0: by a successful calculate + extrapolate, 1: by a refused
    extrapolate, 2: by a plain read, 3: detached through the attribute after an output) on the file A B A W B A"""
    spec, a, b = _two_species(rs, False)
    spec = relayout(rs, spec, [a, b, a, "W", b, a], [a, b])
    s = spec["ops"][-2][1]
    tail = [["calc", s], ["extrap"]]
    if variant == 0:
        spec["ops"] = [["end", a]] + tail + [["end_attr", b]] + tail
    elif variant == 1:
        spec["ops"] = [["extrap"], ["end_attr", a], ["end_attr", b]] + tail
    elif variant == 2:
        spec["ops"] = [["read"], ["end_attr", a], ["ends", [b]]] + tail
    else:
        spec["ops"] = [["ends", [a, b]]] + tail + [["end_none", b], ["extrap"], ["end_attr", b], ["extrap"]]
    spec["pattern"] = "attr_route_%d" % variant
    return spec


def incremental_witness(rs):
    """seeded C05-5: System(gro, B.itp) then add_ftop(A.itp) on the file A B A B A; both mapped: the output must
    follow the file, not the order in which the species were identified"""
    spec, a, b = _two_species(rs, False)
    spec = relayout(rs, spec, [a, b, a, "W", b, a], [a, b], n_ctor=1, load_order=[b, a])
    spec["pattern"] = "incremental_system"
    return spec


def gapped_resids_witness(rs):
    """seeded C05-6: a mapped two-residue species whose molecules carry the residue numbers (9,12) and (20,30)"""
    spec, a, b = _two_species(rs, True)
    toks = [a, b, a, "W", a, b, a, "W", a]
    rids, r = [], 0
    special = {4: [9, 12], 6: [20, 30]}
    for j, t in enumerate(toks):
        n = nres_of(spec, t)
        if j in special:
            ids = special[j]
            r = ids[-1]
        else:
            ids = [r + 1 + i for i in range(n)]
            r = ids[-1]
        rids.append(ids)
    spec = relayout(rs, spec, toks, [a, b], rids=rids)
    spec["pattern"] = "gapped_resids"
    return spec


def relayout(rs, spec, tokens, with_end, rids=None, n_ctor=None, load_order=None):
    """the same species in another file layout; every listed species gets its end molecule"""
    L = spec["box"][:3]
    mols = []
    for t in tokens:
        if t == "W":
            mols.append(r3a([rs.uniform(0, 1, size=3) * L])[0:1])
            continue
        g = np.array(spec["species"][t]["cg_geom"])
        p = (g - g.mean(axis=0)) @ random_rotation(rs).T + rs.uniform(0.1, 0.9, size=3) * L
        mols.append(r3a(p))
    spec = dict(spec, tokens=tokens, mols=mols)
    spec.pop("rids", None)
    spec["resid_mode"] = "consecutive"
    if rids is not None:
        spec["rids"], spec["resid_mode"] = rids, "explicit"
    present = set(t for t in tokens if t != "W")
    spec["load_order"] = [k for k in (load_order or spec["load_order"]) if k in present]
    spec["n_ctor"] = len(spec["load_order"]) if n_ctor is None else n_ctor
    spec["add_how"] = [0] * len(spec["load_order"])
    spec["not_loaded"] = [k for k in spec["not_loaded"] if k in present]
    for k in present:
        sp = spec["species"][k]
        first = np.array(mols[tokens.index(k)])
        m = len(sp["aa_atoms"])
        sp["aa_pos"] = r3a(first[rs.randint(0, len(first), size=m)] + rs.normal(size=(m, 3)) * 0.12)
    s = float(rs.uniform(0.3, 1.2))
    spec["ops"] = [["end", k] for k in with_end if k in present] + [["calc", s], ["extrap"]]
    spec["pattern"] = "odd_gaps"
    return spec


def corpus(ctx):
    S = ctx.cov["S"]
    S["corpus"] = 0
    lib.coq_make(["Corr/CheckC05.vo"])
    for spec in corpus_specs():
        check_spec(ctx, spec, "corpus")
        S["corpus"] += 1
        molgen.purge()
    for pat in ("normal", "late_end", "incremental", "attr_after_extrap"):
        check_spec(ctx, shipped_spec(6, pattern=pat), "corpus (shipped BMIM/BF4, first 6+6 molecules)")
        S["corpus"] += 1
        molgen.purge()


def describe(spec):
    nres = [len(set(a[2] for a in sp["cg_atoms"])) for sp in spec["species"]]
    return {"pattern": spec["pattern"], "species": len(spec["species"]), "loaded": len(spec["load_order"]),
            "molecules": len(spec["tokens"]), "max_residues": max(nres),
            "small_reference": any(len(sp["cg_atoms"]) < 3 for sp in spec["species"]),
            "triclinic": len(spec["box"]) == 9,
            "incremental": spec.get("n_ctor", len(spec["load_order"])) < len(spec["load_order"]),
            "resid_mode": spec.get("resid_mode", "consecutive"),
            "shared_residue_kinds": bool(spec.get("shared")) and all(k in spec["load_order"] for k in spec["shared"]),
            "end_numbered_from_1": all((sp.get("numbering") or {}).get("aa_gro_num", [1])[:len(sp["aa_atoms"])] ==
                                       list(range(1, len(sp["aa_atoms"]) + 1)) or "numbering" not in sp
                                       for sp in spec["species"])}


def correspondence(ctx):
    rs = ctx.np_rng("K")
    n = ctx.n(200, 2000)
    specs = corpus_specs() + [gen_spec(rs) for _ in range(n)]
    specs.append(shipped_spec(ctx.n(10, 40)))
    specs.append(shipped_spec(ctx.n(10, 40), pattern="late_end"))
    specs.append(shipped_spec(ctx.n(10, 40), pattern="incremental"))
    specs.append(shipped_spec(ctx.n(10, 40), pattern="attr_after_extrap"))
    if not ctx.quick:
        # 100 + 100 molecules (3000 written atoms): the writer model rewrites its byte list at every write, the whole
        # box (9000 atoms) is beyond vm_compute's reach in K and goes through the S oracle (oracle(), thorough tier)
        specs.insert(0, shipped_spec(100, s=1.0))       # first: its shard is the longest
    cases, metas, hist = [], [], {}
    feat = {"triclinic": 0, "small_reference": 0, "multi_residue": 0, "wrap_resid": 0, "velocities": 0, "extrap_calls": 0,
            "files_written": 0, "refused_no_file": 0, "empty_title": 0, "incremental_system": 0,
            "resid_gapped": 0, "resid_nonmonotone": 0, "resid_repeated": 0, "shared_residue_kinds": 0,
            "end_not_numbered_from_1": 0}
    for spec in specs:
        obs, bad = check_spec(ctx, spec, "K case")
        cases.append(case_term(spec, obs))
        metas.append({"spec": spec})
        d = describe(spec)
        hist[d["pattern"]] = hist.get(d["pattern"], 0) + 1
        feat["triclinic"] += d["triclinic"]
        feat["small_reference"] += d["small_reference"]
        feat["multi_residue"] += d["max_residues"] > 1
        feat["wrap_resid"] += spec["resid0"] > 90000
        feat["empty_title"] += spec["title"] == ""
        feat["incremental_system"] += d["incremental"]
        feat["shared_residue_kinds"] += d["shared_residue_kinds"]
        feat["end_not_numbered_from_1"] += not d["end_numbered_from_1"]
        if "resid_" + d["resid_mode"] in feat:
            feat["resid_" + d["resid_mode"]] += 1
        feat["velocities"] += any(sp.get("aa_vel") is not None for sp in spec["species"])
        for o in obs:
            if o["op"][0] == "extrap":
                feat["extrap_calls"] += 1
                feat["files_written"] += bool(o["exists"])
                feat["refused_no_file"] += (not o["exists"]) and o["exc"] is not None
        ctx.count(("K", spec["tokens"], spec["mols"], spec["ops"], spec["load_order"]))
        if len(ctx.cov["samples"]) < 4:
            ctx.sample(dict(d, ops=spec["ops"], tokens=spec["tokens"], outcome=[
                (type(o["exc"]).__name__ if o["exc"] else "ok") for o in obs]))
        molgen.purge()
    codes, log = lib.run_coq_cases(ctx.cid, "K", HEADER, cases, shard=6)
    K = ctx.cov["K"]
    K["cases"] = len(cases)
    K["input_distribution"] = hist
    K["features"] = feat
    K["log"] = log
    if codes is None:
        K["error"] = log
        return [{"error": "coqc failed on the correspondence cases", "log": log[-1500:]}]
    K["disagree"] = sum(1 for c in codes.values() if c in (1, 3))
    K["indeterminate"] = sum(1 for c in codes.values() if c == 2)
    K["agree"] = len(cases) - len(codes)
    dis = [dict(describe(metas[i]["spec"]), code=c, spec=metas[i]["spec"]) for i, c in sorted(codes.items())
           if c in (1, 3)]
    # 4.5: the oracle already ran on every case (check_spec); a disagreement without a violation = stale model
    return dis


def oracle(ctx, scale):
    rs = ctx.np_rng("S%d" % scale)
    S = ctx.cov["S"]
    n = ctx.n(150, 3000) * scale
    fails = 0
    hist = {}
    for i in range(n):
        spec = gen_spec(rs, big=(i % 10 == 0))
        _, bad = check_spec(ctx, spec, "S case")
        fails += bool(bad)
        hist[spec["pattern"]] = hist.get(spec["pattern"], 0) + 1
        ctx.count(("S", spec["tokens"], spec["mols"], spec["ops"], spec["load_order"]))
        molgen.purge()
    if scale == 1:
        _, bad = check_spec(ctx, shipped_spec(ctx.n(20, 300)), "S case (shipped BMIM/BF4)")
        fails += bool(bad)
        molgen.purge()
        spec = wrap_spec(rs)       # the written atom numbers pass 99999 -> 0
        _, bad = check_spec(ctx, spec, "S case (more than 100000 written atoms)")
        fails += bool(bad)
        S["atom_number_wrap_case_atoms"] = sum(len(spec["species"][t]["aa_atoms"]) for t in spec["tokens"])
        molgen.purge()
        # round 7 of the seeded changes: a title with multi-byte characters (character counts are not byte offsets
        # for the writer's seeks) and a run of more than 128 consecutive copies of a two-residue species (chunked reads)
        for spec, what in ((nonascii_title_spec(rs), "S case (non-ASCII title)"),
                           (long_run_spec(rs), "S case (long run of a two-residue species)")):
            _, bad = check_spec(ctx, spec, what)
            fails += bool(bad)
            S[spec["pattern"] + "_cases"] = S.get(spec["pattern"] + "_cases", 0) + 1
            molgen.purge()
    S["sessions_x%d" % scale] = n
    S["pattern_histogram_x%d" % scale] = hist
    S["failures"] = S.get("failures", 0) + fails


def wrap_spec(rs):
    """one species, enough copies for the written atom numbers to pass 100000"""
    spec = gen_spec(rs, kind="normal")
    while len(spec["species"][spec["load_order"][0]]["cg_atoms"]) < 3:
        spec = gen_spec(rs, kind="normal")
    k = spec["load_order"][0]
    sp = spec["species"][k]
    while len(sp["aa_atoms"]) < 60:
        sp["aa_atoms"].append(["C%d" % len(sp["aa_atoms"]), sp["aa_atoms"][-1][1], sp["aa_atoms"][-1][2]])
        sp["aa_bonds"].append([len(sp["aa_atoms"]) - 2, len(sp["aa_atoms"]) - 1])
    sp["aa_vel"] = None
    sp["numbering"] = gen_numbering(rs, sp)
    ncopies = 100000 // len(sp["aa_atoms"]) + 20
    spec = relayout(rs, spec, [k] * ncopies, [k])
    spec["pattern"] = "atom_number_wrap"
    return spec


def empty_title_spec(rs):
    """an input whose title line is empty (fixed: /repo efbff8f).  Before the repair the comment setter left '' and
    GroFile._setup_write_file evaluated comment[-1] -> IndexError at the first writeline, leaving an empty output
    file.  Witness kept in the corpus: the output's title line must be empty too."""
    spec = gen_spec(rs, kind="normal")
    while not in_domain(spec, [op[1] for op in spec["ops"] if op[0] == "end"]):
        spec = gen_spec(rs, kind="normal")
    spec["title"] = ""
    spec["pattern"] = "empty_title"
    return spec


def nonascii_title_spec(rs):
    """an input whose title holds two- and three-byte UTF-8 characters: the output must carry the same title line,
    the count line and the box line (S only: the byte model of K is ASCII)"""
    spec = empty_title_spec(rs)
    spec["title"] = "Syst\u00e8me d'essai \u00e0 300 K \u2013 bo\u00eete p\u00e9riodique \u03b1\u03b2"
    spec["pattern"] = "nonascii_title"
    return spec


def long_run_spec(rs):
    """more than 128 consecutive copies of a two-residue species, then solvent, then three more copies"""
    spec = gen_spec(rs, kind="normal")
    def dimers(sp_):
        return [k for k, sp in enumerate(sp_["species"]) if k in sp_["load_order"] and
                len(set(a[2] for a in sp["cg_atoms"])) == 2 and len(sp["cg_atoms"]) >= 3]
    while not dimers(spec) or not in_domain(spec, [op[1] for op in spec["ops"] if op[0] == "end"]):
        spec = gen_spec(rs, kind="normal")
    dk = dimers(spec)[0]
    spec = relayout(rs, spec, [dk] * 140 + ["W"] * 3 + [dk] * 3, [dk])
    spec["pattern"] = "long_run"
    return spec


def replay(ctx, obj):
    r = obj["replay"]
    if "spec" not in r:
        ds = r.get("disagreements") or []
        if ds and "spec" in ds[0]:
            r = ds[0]
        else:
            print("replay names a proof/correspondence, not an input:", str(r)[:300])
            return False
    obs, live = run_session(r["spec"])
    bad = oracle_session(r["spec"], obs, live)
    for o in obs:
        print(o["op"], type(o["exc"]).__name__ if o["exc"] else "ok",
              ("file with %d lines" % o["text"].count("\n")) if o.get("exists") else "")
    print(bad)
    return not bad


def finish(ctx):
    ctx.assumptions = [
        "the molecule list of the input system is taken as given: that System.__iter__ yields exactly the molecules of "
        "the loaded species in file order is property C11 (K and S of this check use the generator's ground truth "
        "and therefore also notice a System that loses molecules)",
        "the theorems hold for EVERY per-molecule map function; that the function used is ExchangeMap.__call__ with the "
        "geometry of C01-C03 is tied by K (binary64 instance of Model/ExchangeMap.v), not proved here",
        "'{:8.3f}'.format(x) is Python's (trusted, as in C13): K compares the model's binary64 coordinates with the "
        "written decimals to half a unit of the last decimal and feeds the written decimals to the writer model",
        "end molecules that disagree on having velocities, or whose number of residues differs from the species' in the "
        "system, make the write fail (IOError / ValueError, modelled and compared in K); they are outside the "
        "domain of the S oracle",
    ]
    return ctx.finish(level="proof", rule=RULE,
                      trusted=["effect-trace reading of `with open_coordinate_file(...)`: Close on every exit",
                               "species are identified by their position in System.different_molecules (distinct names)"])
