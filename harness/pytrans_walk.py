"""Fail-closed translator for the work-list loop of gaddlemaps/components/__init__.py (_find_connected_atoms and
are_connected) to Gallina over lists of nat (second tie, DESIGN.md section 4.6).

Data.  `atoms` (a list of objects read only through `atoms[i].bonds` and `len(atoms)`) is the adjacency
`list (list nat)`: entry i = the bonds of atom i in their iteration order.  Mutable Python lists of ints are
`list nat` values re-bound by every mutation, in Python's own orientation (append at the END, pop from the END).
A function that mutates a list parameter returns that list's final value.  `while` becomes a Fixpoint on explicit
fuel (`Err EFuel` when exhausted; the theorems of Props/C15.v show the fuel used is always sufficient).

Subset of _find_connected_atoms(atoms, index, connected):
    <x> = [<name>] ;  while <x>: <body>
    <body> ::= <v> = <x>.pop() | if <a> in <l>: continue | <l>.append(<a>)
             | for <v> in atoms[<a>].bonds: if <v> not in <l>: <x>.append(<v>)
Subset of are_connected(atoms):
    <l>: ... = [] ; _find_connected_atoms(atoms, 0, <l>) ; return len(<l>) == len(atoms)
Anything else raises Unsupported, and the generated file then does not compile.
"""
import ast
import os
import textwrap


class Unsupported(Exception):
    pass


def name(n, what="name"):
    if isinstance(n, ast.Name):
        return n.id
    raise Unsupported("%s expected, found %s" % (what, type(n).__name__))


def call_method(n, attr, nargs):
    """obj.attr(args) with obj a name -> (obj, args)"""
    if isinstance(n, ast.Call) and isinstance(n.func, ast.Attribute) and n.func.attr == attr \
            and isinstance(n.func.value, ast.Name) and len(n.args) == nargs and not n.keywords:
        return n.func.value.id, n.args
    return None


def strip_doc(body):
    if body and isinstance(body[0], ast.Expr) and isinstance(body[0].value, ast.Constant) \
            and isinstance(body[0].value.value, str):
        return body[1:]
    return body


class Walk:
    def __init__(self, fn):
        self.fn = fn
        args = [a.arg for a in fn.args.args]
        if len(args) != 3 or fn.args.defaults or fn.args.vararg or fn.args.kwarg or fn.args.kwonlyargs:
            raise Unsupported("_find_connected_atoms: parameters changed")
        self.atoms, self.index, self.acc = args

    def loop_body(self, stmts, lists, scalars, loopcall):
        """lists: names of list-valued variables in scope; returns Gallina text ending in the recursive call"""
        if not stmts:
            return loopcall
        s, rest = stmts[0], stmts[1:]
        # v = x.pop()
        if isinstance(s, ast.Assign) and len(s.targets) == 1 and isinstance(s.targets[0], ast.Name):
            m = call_method(s.value, "pop", 0)
            if m and m[0] in lists:
                v, x = s.targets[0].id, m[0]
                if v in lists:
                    raise Unsupported("pop into a list variable")
                return ("let* p__ := py_pop %s in\nlet %s := fst p__ in\nlet %s := snd p__ in\n%s"
                        % (x, v, x, self.loop_body(rest, lists, scalars | {v}, loopcall)))
            raise Unsupported("assignment in the loop body is not <v> = <list>.pop()")
        # if a in l: continue
        if isinstance(s, ast.If) and not s.orelse and len(s.body) == 1 and isinstance(s.body[0], ast.Continue) \
                and isinstance(s.test, ast.Compare) and len(s.test.ops) == 1 and isinstance(s.test.ops[0], ast.In):
            a, l = name(s.test.left), name(s.test.comparators[0])
            if a not in scalars or l not in lists:
                raise Unsupported("membership test on unknown names")
            return "if memn %s %s then %s else\n%s" % (a, l, loopcall, self.loop_body(rest, lists, scalars, loopcall))
        # l.append(a)
        if isinstance(s, ast.Expr):
            m = call_method(s.value, "append", 1)
            if m and m[0] in lists:
                a = name(m[1][0])
                if a not in scalars:
                    raise Unsupported("append of an unknown name")
                return "let %s := %s ++ [%s] in\n%s" % (m[0], m[0], a, self.loop_body(rest, lists, scalars, loopcall))
            raise Unsupported("expression statement in the loop body")
        # for v in atoms[a].bonds: if v not in l: x.append(v)
        if isinstance(s, ast.For) and not s.orelse and isinstance(s.target, ast.Name):
            it = s.iter
            if not (isinstance(it, ast.Attribute) and it.attr == "bonds" and isinstance(it.value, ast.Subscript)
                    and isinstance(it.value.value, ast.Name) and it.value.value.id == self.atoms):
                raise Unsupported("for loop does not iterate over atoms[<a>].bonds")
            a = name(it.value.slice)
            if a not in scalars:
                raise Unsupported("atoms[...] indexed by an unknown name")
            v = s.target.id
            if len(s.body) != 1 or not isinstance(s.body[0], ast.If) or s.body[0].orelse or len(s.body[0].body) != 1:
                raise Unsupported("for body shape")
            t = s.body[0].test
            if not (isinstance(t, ast.Compare) and len(t.ops) == 1 and isinstance(t.ops[0], ast.NotIn)
                    and name(t.left) == v):
                raise Unsupported("for body condition is not <v> not in <l>")
            l = name(t.comparators[0])
            st = s.body[0].body[0]
            m = call_method(st.value, "append", 1) if isinstance(st, ast.Expr) else None
            if not (m and m[0] in lists and l in lists and m[0] != l and name(m[1][0]) == v):
                raise Unsupported("for body does not append <v> to another list")
            x = m[0]
            return ("let* bonds__ := nth_res %s %s in\n"
                    "let %s := fold_left (fun (%s : list nat) (%s : nat) => if negb (memn %s %s) then %s ++ [%s] else %s) bonds__ %s in\n%s"
                    % (self.atoms, a, x, x, v, v, l, x, v, x, x, self.loop_body(rest, lists, scalars, loopcall)))
        raise Unsupported("statement %s in the loop body" % type(s).__name__)

    def translate(self):
        body = strip_doc(self.fn.body)
        if len(body) != 2:
            raise Unsupported("_find_connected_atoms: body is not <init>; while")
        init, loop = body
        if not (isinstance(init, ast.Assign) and len(init.targets) == 1 and isinstance(init.targets[0], ast.Name)
                and isinstance(init.value, ast.List) and len(init.value.elts) == 1
                and name(init.value.elts[0]) == self.index):
            raise Unsupported("initialisation is not <x> = [index]")
        x = init.targets[0].id
        if not (isinstance(loop, ast.While) and not loop.orelse and name(loop.test) == x):
            raise Unsupported("loop is not `while <x>:`")
        lists = {x, self.acc}
        call = "find_connected_atoms_loop fuel__ %s %s %s" % (self.atoms, x, self.acc)
        inner = self.loop_body(loop.body, lists, set(), call)
        fix = ("Fixpoint find_connected_atoms_loop (fuel : nat) (%s : list (list nat)) (%s %s : list nat) : res (list nat) :=\n"
               "  match fuel with\n  | O => Err EFuel\n  | S fuel__ =>\n"
               "      match %s with\n      | [] => Ok %s\n      | _ :: _ =>\n%s\n      end\n  end.\n"
               % (self.atoms, x, self.acc, x, self.acc, textwrap.indent(inner, "          ")))
        top = ("Definition find_connected_atoms_gen (fuel : nat) (%s : list (list nat)) (%s : nat) (%s : list nat) : res (list nat) :=\n"
               "  let %s := [%s] in\n  find_connected_atoms_loop fuel %s %s %s.\n"
               % (self.atoms, self.index, self.acc, x, self.index, self.atoms, x, self.acc))
        return fix + "\n" + top


def translate_are_connected(fn, callee):
    args = [a.arg for a in fn.args.args]
    if len(args) != 1 or fn.args.defaults or fn.args.vararg or fn.args.kwarg or fn.args.kwonlyargs:
        raise Unsupported("are_connected: parameters changed")
    atoms = args[0]
    body = strip_doc(fn.body)
    if len(body) != 3:
        raise Unsupported("are_connected: body shape")
    a, c, r = body
    tgt = a.target if isinstance(a, ast.AnnAssign) else (a.targets[0] if isinstance(a, ast.Assign) and len(a.targets) == 1 else None)
    if tgt is None or not isinstance(tgt, ast.Name) or not (isinstance(a.value, ast.List) and not a.value.elts):
        raise Unsupported("are_connected: first statement is not <l> = []")
    l = tgt.id
    if not (isinstance(c, ast.Expr) and isinstance(c.value, ast.Call) and isinstance(c.value.func, ast.Name)
            and c.value.func.id == callee and not c.value.keywords and len(c.value.args) == 3
            and name(c.value.args[0]) == atoms and isinstance(c.value.args[1], ast.Constant)
            and isinstance(c.value.args[1].value, int) and not isinstance(c.value.args[1].value, bool)
            and c.value.args[1].value >= 0 and name(c.value.args[2]) == l):
        raise Unsupported("are_connected: second statement is not %s(atoms, <k>, <l>)" % callee)
    k = c.value.args[1].value

    def is_len(e, nm):
        return isinstance(e, ast.Call) and isinstance(e.func, ast.Name) and e.func.id == "len" \
            and len(e.args) == 1 and not e.keywords and name(e.args[0]) == nm
    if not (isinstance(r, ast.Return) and isinstance(r.value, ast.Compare) and len(r.value.ops) == 1
            and isinstance(r.value.ops[0], ast.Eq) and is_len(r.value.left, l)
            and is_len(r.value.comparators[0], atoms)):
        raise Unsupported("are_connected: return is not len(<l>) == len(atoms)")
    return ("Definition are_connected_gen (fuel : nat) (%s : list (list nat)) : res bool :=\n"
            "  let %s := [] in\n  let* %s := find_connected_atoms_gen fuel %s %d %s in\n"
            "  Ok (Nat.eqb (List.length %s) (List.length %s)).\n" % (atoms, l, l, atoms, k, l, l, atoms))


HEADER = """(* GENERATED at every run from the source text of /repo by harness/pytrans_walk.py.  Do not edit. *)
From Coq Require Import List Arith Bool.
From GM Require Import Base.Res.
Import ListNotations.

(* meaning of the Python primitives of the subset *)
Definition memn (x : nat) (l : list nat) : bool := existsb (Nat.eqb x) l.     (* x in l *)
Definition py_pop (l : list nat) : res (nat * list nat) :=                     (* l.pop(): the LAST element *)
  match rev l with
  | [] => Err EIndex
  | c :: r => Ok (c, rev r)
  end.

"""


def generate(repo):
    src = open(os.path.join(repo, "gaddlemaps", "components", "__init__.py")).read()
    tree = ast.parse(src)
    fns = {}
    for n in ast.walk(tree):
        if isinstance(n, (ast.FunctionDef, ast.AsyncFunctionDef)) and n.name in ("_find_connected_atoms", "are_connected"):
            if n.name in fns or n not in tree.body or not isinstance(n, ast.FunctionDef) or n.decorator_list:
                raise Unsupported("%s: defined twice, nested or decorated" % n.name)
            fns[n.name] = n
    if len(fns) != 2:
        raise Unsupported("are_connected / _find_connected_atoms not found")
    return HEADER + Walk(fns["_find_connected_atoms"]).translate() + "\n" + \
        translate_are_connected(fns["are_connected"], "_find_connected_atoms")


if __name__ == "__main__":
    import sys
    print(generate(sys.argv[1] if len(sys.argv) > 1 else "/repo"))
