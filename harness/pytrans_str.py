"""Fail-closed translator for the straight-line text kernels of gaddlemaps/parsers/__init__.py to Gallina over
`bytes` (= list ascii) and Z (second tie, DESIGN.md section 4.6): GroFile.validate_string,
_validate_res_atom_numbers, GroFile.determine_format, plus three literal constants read from the syntax tree
(the wrap modulus of parse_atomlist and the index permutations of extract_lattice_gro / dump_lattice_gro).

Subset.  Types: S (str as bytes), Z (int), B (bool), C (one-character str), MSG (text used only for a warning or
an exception message: never translated, never allowed in a result).
Expressions: names, int literals, one-character str literals, cls.COORD_START, len(s), s.count(c), s[:k], s[a:b],
s[a:], s[:-1], s[-1] (IndexError on the empty string), + - * on ints, // (ZeroDivisionError checked),
one comparison, truthiness of an int.
Statements: docstring, warnings.warn(...), assignment, message assignment, `if c: raise E`, `if c: <assignments>`
(no else), an if/elif/else chain whose branches assign one and the same name or raise,
`try: x = int(e) / except ValueError: raise E`, return of a name, a tuple of names or a dict literal of names/tuples.
Everything else raises Unsupported, and the generated file then does not compile.
"""
import ast
import os
import textwrap


class Unsupported(Exception):
    pass


S, Z, B, C, MSG, TUP = "S", "Z", "B", "C", "MSG", "TUP"
EXC = {"ValueError": "EValue", "IOError": "EIO", "OSError": "EIO", "IndexError": "EIndex"}
CMP = {ast.Gt: ">?", ast.Lt: "<?", ast.GtE: ">=?", ast.LtE: "<=?", ast.Eq: "=?"}


def is_msg_expr(n):
    """A str literal of more than one character, or '<literal>'.format(...)"""
    if isinstance(n, ast.Constant) and isinstance(n.value, str) and len(n.value) > 1:
        return True
    if isinstance(n, ast.Call) and isinstance(n.func, ast.Attribute) and n.func.attr == "format":
        return is_msg_expr(n.func.value) or (isinstance(n.func.value, ast.Name))
    return False


class Tr:
    def __init__(self):
        self.fresh = 0

    def nat_index(self, n):
        if isinstance(n, ast.Constant) and isinstance(n.value, int) and not isinstance(n.value, bool) and n.value >= 0:
            return "%d" % n.value
        if isinstance(n, ast.Attribute) and isinstance(n.value, ast.Name) and n.value.id == "cls" \
                and n.attr == "COORD_START":
            return "COORD_START"
        raise Unsupported("slice bound outside the subset: %s" % ast.dump(n))

    def expr(self, n, env, pre):
        """returns (text, type); monadic bindings needed before the expression are appended to pre"""
        if isinstance(n, ast.Name):
            if n.id not in env:
                raise Unsupported("unknown name %s" % n.id)
            t, ty = env[n.id][0], env[n.id][1]
            if ty == MSG or ty.startswith(TUP):
                raise Unsupported("%s used as a value" % n.id)
            return t, ty
        if isinstance(n, ast.Constant):
            if isinstance(n.value, bool):
                return ("true" if n.value else "false"), B
            if isinstance(n.value, int) and n.value >= 0:
                return "%d%%Z" % n.value, Z
            if isinstance(n.value, str) and len(n.value) == 1:
                if n.value == "\n":
                    return "NL", C
                if n.value.isprintable() and n.value != '"':
                    return '"%s"%%char' % n.value, C
            raise Unsupported("constant %r" % (n.value,))
        if isinstance(n, ast.Attribute) and isinstance(n.value, ast.Name) and n.value.id == "cls" \
                and n.attr == "COORD_START":
            return "(Z.of_nat COORD_START)", Z
        if isinstance(n, ast.Call):
            if isinstance(n.func, ast.Name) and n.func.id == "len" and len(n.args) == 1 and not n.keywords:
                t, ty = self.expr(n.args[0], env, pre)
                if ty != S:
                    raise Unsupported("len of %s" % ty)
                return "(zlen %s)" % t, Z
            if isinstance(n.func, ast.Attribute) and n.func.attr == "count" and len(n.args) == 1 and not n.keywords:
                t, ty = self.expr(n.func.value, env, pre)
                c, tc = self.expr(n.args[0], env, pre)
                if ty != S or tc != C:
                    raise Unsupported("count on %s of %s" % (ty, tc))
                return "(zcount %s %s)" % (c, t), Z
            raise Unsupported("call %s" % ast.dump(n.func))
        if isinstance(n, ast.Subscript):
            t, ty = self.expr(n.value, env, pre)
            if ty != S:
                raise Unsupported("subscript of %s" % ty)
            sl = n.slice
            minus1 = lambda x: isinstance(x, ast.UnaryOp) and isinstance(x.op, ast.USub) and \
                isinstance(x.operand, ast.Constant) and x.operand.value == 1
            if isinstance(sl, ast.Slice):
                if sl.step is not None:
                    raise Unsupported("slice step")
                if sl.lower is None and sl.upper is not None and minus1(sl.upper):
                    return "(removelast %s)" % t, S
                if sl.lower is None and sl.upper is not None:
                    return "(firstn %s %s)" % (self.nat_index(sl.upper), t), S
                if sl.lower is not None and sl.upper is None:
                    return "(skipn %s %s)" % (self.nat_index(sl.lower), t), S
                if sl.lower is not None and sl.upper is not None:
                    a, b = self.nat_index(sl.lower), self.nat_index(sl.upper)
                    return "(firstn (%s - %s) (skipn %s %s))" % (b, a, a, t), S
                raise Unsupported("slice [:]")
            if minus1(sl):
                self.fresh += 1
                nm = "c__%d" % self.fresh
                pre.append((nm, "py_last %s" % t))
                return nm, C
            raise Unsupported("index %s" % ast.dump(sl))
        if isinstance(n, ast.BinOp):
            a, ta = self.expr(n.left, env, pre)
            b, tb = self.expr(n.right, env, pre)
            if ta != Z or tb != Z:
                raise Unsupported("arithmetic on %s, %s" % (ta, tb))
            if isinstance(n.op, ast.Add):
                return "(%s + %s)%%Z" % (a, b), Z
            if isinstance(n.op, ast.Sub):
                return "(%s - %s)%%Z" % (a, b), Z
            if isinstance(n.op, ast.Mult):
                return "(%s * %s)%%Z" % (a, b), Z
            if isinstance(n.op, ast.FloorDiv):
                self.fresh += 1
                nm = "q__%d" % self.fresh
                pre.append((nm, "zdiv %s %s" % (a, b)))
                return nm, Z
            raise Unsupported("operator %s" % type(n.op).__name__)
        if isinstance(n, ast.Compare) and len(n.ops) == 1:
            a, ta = self.expr(n.left, env, pre)
            b, tb = self.expr(n.comparators[0], env, pre)
            op = type(n.ops[0])
            if ta == Z and tb == Z:
                if op is ast.NotEq:
                    return "(negb (%s =? %s)%%Z)" % (a, b), B
                if op in CMP:
                    return "(%s %s %s)%%Z" % (a, CMP[op], b), B
            if ta == C and tb == C and op is ast.Eq:
                return "(Ascii.eqb %s %s)" % (a, b), B
            if ta == B and tb == B and op is ast.Eq:
                return "(Bool.eqb %s %s)" % (a, b), B
            raise Unsupported("comparison %s of %s, %s" % (op.__name__, ta, tb))
        raise Unsupported("expression %s" % type(n).__name__)

    def test(self, n, env, pre):
        t, ty = self.expr(n, env, pre)
        if ty == B:
            return t
        if ty == Z:
            return "(negb (%s =? 0)%%Z)" % t
        raise Unsupported("truth value of %s" % ty)

    @staticmethod
    def wrap(pre, body):
        for nm, rhs in reversed(pre):
            body = "let* %s := %s in\n%s" % (nm, rhs, body)
        return body

    @staticmethod
    def ignorable(s):
        if isinstance(s, ast.Expr) and isinstance(s.value, ast.Constant) and isinstance(s.value.value, str):
            return True
        if isinstance(s, ast.Expr) and isinstance(s.value, ast.Call) and isinstance(s.value.func, ast.Attribute) \
                and isinstance(s.value.func.value, ast.Name) and s.value.func.value.id == "warnings" \
                and s.value.func.attr == "warn":
            return True
        if isinstance(s, ast.Assign) and len(s.targets) == 1 and isinstance(s.targets[0], ast.Name) \
                and is_msg_expr(s.value):
            return True
        return False

    def raised(self, s):
        if isinstance(s, ast.Raise) and s.cause is None and s.exc is not None:
            e = s.exc.func if isinstance(s.exc, ast.Call) else s.exc
            if isinstance(e, ast.Name) and e.id in EXC:
                return EXC[e.id]
        raise Unsupported("raise outside the subset")

    def branch(self, stmts, env):
        """a branch of an if: ('raise', E) | ('assign', {name: text}, order)"""
        stmts = [s for s in stmts if not self.ignorable(s)]
        if len(stmts) == 1 and isinstance(stmts[0], ast.Raise):
            return ("raise", self.raised(stmts[0]))
        loc = dict(env)
        lets, assigned = [], []
        for s in stmts:
            if not (isinstance(s, ast.Assign) and len(s.targets) == 1 and isinstance(s.targets[0], ast.Name)):
                raise Unsupported("statement %s in a conditional branch" % type(s).__name__)
            pre = []
            t, ty = self.expr(s.value, loc, pre)
            if pre:
                raise Unsupported("raising expression in a conditional branch")
            nm = s.targets[0].id
            lets.append((nm, t))
            loc[nm] = (nm, ty)
            if nm not in assigned:
                assigned.append(nm)
        return ("assign", lets, assigned, loc)

    def block(self, stmts, env):
        if not stmts:
            raise Unsupported("function falls off its end")
        s, rest = stmts[0], stmts[1:]
        if isinstance(s, ast.Assign) and len(s.targets) == 1 and isinstance(s.targets[0], ast.Name) \
                and is_msg_expr(s.value):
            env2 = dict(env)
            env2[s.targets[0].id] = ("", MSG)
            return self.block(rest, env2)
        if self.ignorable(s):
            return self.block(rest, env)
        if isinstance(s, ast.Assign) and len(s.targets) == 1 and isinstance(s.targets[0], ast.Name):
            nm = s.targets[0].id
            env2 = dict(env)
            if isinstance(s.value, ast.Dict):
                env2[nm] = self.retval(s.value, env)
                return self.block(rest, env2)
            pre = []
            t, ty = self.expr(s.value, env, pre)
            env2[nm] = (nm, ty)
            return self.wrap(pre, "let %s := %s in\n%s" % (nm, t, self.block(rest, env2)))
        if isinstance(s, ast.Try):
            if s.orelse or s.finalbody or len(s.handlers) != 1 or len(s.body) != 1:
                raise Unsupported("try shape")
            h, a = s.handlers[0], s.body[0]
            if not (isinstance(h.type, ast.Name) and h.type.id == "ValueError" and h.name is None):
                raise Unsupported("handler")
            hb = [x for x in h.body if not self.ignorable(x)]
            if len(hb) != 1:
                raise Unsupported("handler body")
            e = self.raised(hb[0])
            if not (isinstance(a, ast.Assign) and len(a.targets) == 1 and isinstance(a.targets[0], ast.Name)
                    and isinstance(a.value, ast.Call) and isinstance(a.value.func, ast.Name)
                    and a.value.func.id == "int" and len(a.value.args) == 1 and not a.value.keywords):
                raise Unsupported("try body is not x = int(e)")
            pre = []
            t, ty = self.expr(a.value.args[0], env, pre)
            if ty != S or pre:
                raise Unsupported("int() of %s" % ty)
            nm = a.targets[0].id
            env2 = dict(env)
            env2[nm] = (nm, Z)
            return "let* %s := on_value_error %s (py_int %s) in\n%s" % (nm, e, t, self.block(rest, env2))
        if isinstance(s, ast.If):
            pre = []
            c = self.test(s.test, env, pre)
            br = self.branch(s.body, env)
            if not s.orelse:
                if br[0] == "raise":
                    return self.wrap(pre, "if %s then Err %s else\n%s" % (c, br[1], self.block(rest, env)))
                _, lets, assigned, loc = br
                outer = [a for a in assigned if a in env]
                if not outer:
                    raise Unsupported("conditional assigns nothing visible")
                env2 = dict(env)
                for a in outer:
                    if loc[a][1] != env[a][1]:
                        raise Unsupported("conditional changes the type of %s" % a)
                tup = "(%s)" % ", ".join(outer) if len(outer) > 1 else outer[0]
                inner = "".join("let %s := %s in " % (nm, t) for nm, t in lets) + tup
                pat = "'%s" % tup if len(outer) > 1 else tup
                return self.wrap(pre, "let %s := if %s then %s else %s in\n%s"
                                 % (pat, c, inner, tup, self.block(rest, env2)))
            # chain: if / elif ... / else, every branch assigns the same single name or raises
            arms, node = [(c, br)], s
            while len(node.orelse) == 1 and isinstance(node.orelse[0], ast.If):
                node = node.orelse[0]
                p2 = []
                c2 = self.test(node.test, env, p2)
                if p2:
                    raise Unsupported("raising expression in an elif test")
                arms.append((c2, self.branch(node.body, env)))
            if not node.orelse:
                raise Unsupported("chain without else")
            last = self.branch(node.orelse, env)
            target, ty = None, None
            def arm(b):
                nonlocal target, ty
                if b[0] == "raise":
                    return "Err %s" % b[1]
                _, lets, assigned, loc = b
                if len(lets) != 1 or len(assigned) != 1:
                    raise Unsupported("chain branch with several assignments")
                if target not in (None, assigned[0]) or ty not in (None, loc[assigned[0]][1]):
                    raise Unsupported("chain branches assign different names or types")
                target, ty = assigned[0], loc[assigned[0]][1]
                return "Ok %s" % lets[0][1]
            txt = ""
            for cc, b in arms:
                txt += "if %s then %s else " % (cc, arm(b))
            txt += arm(last)
            if target is None:
                raise Unsupported("chain that only raises")
            env2 = dict(env)
            env2[target] = (target, ty)
            return self.wrap(pre, "let* %s := (%s) in\n%s" % (target, txt, self.block(rest, env2)))
        if isinstance(s, ast.Return) and s.value is not None:
            r = self.retval(s.value, env)
            t, ty = r[0], r[1]
            self.rty = ty
            return "Ok %s" % t
        if isinstance(s, ast.Raise):
            return "Err %s" % self.raised(s)
        raise Unsupported("statement %s" % type(s).__name__)

    def retval(self, n, env):
        """names, tuples of names and dict literals, flattened left to right"""
        parts = []
        def go(x):
            if isinstance(x, ast.Name):
                if x.id not in env:
                    raise Unsupported("unknown name %s" % x.id)
                t, ty = env[x.id][0], env[x.id][1]
                if ty == MSG:
                    raise Unsupported("message returned")
                if ty.startswith(TUP):
                    parts.extend(env[x.id][2]) if len(env[x.id]) > 2 else None
                    if len(env[x.id]) <= 2:
                        raise Unsupported("opaque tuple")
                else:
                    parts.append((t, ty))
            elif isinstance(x, ast.Tuple):
                for e in x.elts:
                    go(e)
            elif isinstance(x, ast.Dict):
                for k, v in zip(x.keys, x.values):
                    if not (isinstance(k, ast.Constant) and isinstance(k.value, str)):
                        raise Unsupported("dict key")
                    self.dict_keys = getattr(self, "dict_keys", []) + [k.value]
                    go(v)
            else:
                raise Unsupported("returned expression %s" % type(x).__name__)
        go(n)
        if len(parts) == 1:
            return parts[0]
        return ("(%s)" % ", ".join(p[0] for p in parts), TUP + ":" + "*".join(p[1] for p in parts), parts)


COQ_TY = {S: "bytes", Z: "Z", B: "bool", C: "ascii"}


def coq_type(ty):
    if ty.startswith(TUP):
        return "(" + " * ".join(COQ_TY[x] for x in ty.split(":")[1].split("*")) + ")"
    return COQ_TY[ty]


def find_func(tree, name):
    node = next((n for n in ast.walk(tree) if isinstance(n, ast.FunctionDef) and n.name == name), None)
    if node is None:
        raise Unsupported("function %s not found" % name)
    return node


def translate(tree, pyname, coqname, params, drop_first=None):
    node = find_func(tree, pyname)
    names = [a.arg for a in node.args.args]
    if drop_first:
        if not names or names[0] != drop_first:
            raise Unsupported("%s: first parameter is not %s" % (pyname, drop_first))
        names = names[1:]
    if names != [p for p, _ in params] or node.args.vararg or node.args.kwarg or node.args.kwonlyargs \
            or node.args.defaults:
        raise Unsupported("%s: parameters changed" % pyname)
    env = {p: (p, ty) for p, ty in params}
    tr = Tr()
    body = tr.block(node.body, env)
    binders = " ".join("(%s : %s)" % (p, COQ_TY[ty]) for p, ty in params)
    txt = "Definition %s %s : res %s :=\n%s.\n" % (coqname, binders, coq_type(tr.rty), textwrap.indent(body, "  "))
    return txt, getattr(tr, "dict_keys", [])


def int_tuple_assign(fn, name):
    """the literal of `name = (i0, i1, ...)` inside fn: exactly one such assignment"""
    found = [s.value for s in ast.walk(fn) if isinstance(s, ast.Assign) and len(s.targets) == 1
             and isinstance(s.targets[0], ast.Name) and s.targets[0].id == name]
    if len(found) != 1 or not isinstance(found[0], ast.Tuple):
        raise Unsupported("%s: no single literal assignment of %s" % (fn.name, name))
    vals = []
    for e in found[0].elts:
        if not (isinstance(e, ast.Constant) and isinstance(e.value, int) and not isinstance(e.value, bool)
                and e.value >= 0):
            raise Unsupported("%s: %s is not a tuple of literals" % (fn.name, name))
        vals.append(e.value)
    return vals


def wrap_moduli(fn):
    """atominfo[i] = atomlist[i] % K  for i = 0 and i = 3: returns (K0, K3)"""
    got = {}
    for s in ast.walk(fn):
        if isinstance(s, ast.Assign) and len(s.targets) == 1 and isinstance(s.targets[0], ast.Subscript) \
                and isinstance(s.targets[0].value, ast.Name) and s.targets[0].value.id == "atominfo" \
                and isinstance(s.targets[0].slice, ast.Constant) and s.targets[0].slice.value in (0, 3):
            i = s.targets[0].slice.value
            v = s.value
            if not (isinstance(v, ast.BinOp) and isinstance(v.op, ast.Mod) and isinstance(v.left, ast.Subscript)
                    and isinstance(v.left.value, ast.Name) and v.left.value.id == "atomlist"
                    and isinstance(v.left.slice, ast.Constant) and v.left.slice.value == i
                    and isinstance(v.right, ast.Constant) and isinstance(v.right.value, int)
                    and not isinstance(v.right.value, bool) and v.right.value > 0) or i in got:
                raise Unsupported("parse_atomlist: number field %d is not written as atomlist[%d] %% K" % (i, i))
            got[i] = v.right.value
    if sorted(got) != [0, 3]:
        raise Unsupported("parse_atomlist: wrap assignments not found")
    return got[0], got[3]


HEADER = """(* GENERATED at every run from the source text of /repo by harness/pytrans_str.py.  Do not edit. *)
From Coq Require Import List Ascii ZArith Bool.
From GM Require Import Base.Res Base.StrGro Gen.SrcConsts.
Import ListNotations.

(* meaning of the Python primitives of the subset *)
Definition zlen (s : bytes) : Z := Z.of_nat (length s).                     (* len(s) *)
Definition zcount (c : ascii) (s : bytes) : Z := Z.of_nat (count_char c s).  (* s.count(c) *)
Definition py_last (s : bytes) : res ascii :=                                (* s[-1] *)
  match last_opt s with Some c => Ok c | None => Err EIndex end.
Definition zdiv (a b : Z) : res Z :=                                         (* a // b *)
  if (b =? 0)%Z then Err EDiv0 else Ok (a / b)%Z.
Definition on_value_error {A} (e : err) (r : res A) : res A :=               (* except ValueError: raise e *)
  match r with Err EValue => Err e | x => x end.

"""


def generate(repo):
    src = open(os.path.join(repo, "gaddlemaps", "parsers", "__init__.py")).read()
    tree = ast.parse(src)
    out = [HEADER]
    t, _ = translate(tree, "validate_string", "validate_string_gen", [("string", S)])
    out.append(t)
    t, _ = translate(tree, "_validate_res_atom_numbers", "validate_res_atom_numbers_gen", [("line", S)])
    out.append(t)
    t, keys = translate(tree, "determine_format", "determine_format_gen", [("atomline", S)], drop_first="cls")
    if keys != ["position", "velocities"]:
        raise Unsupported("determine_format: keys of the returned dict changed: %r" % (keys,))
    out.append(t)
    k0, k3 = wrap_moduli(find_func(tree, "parse_atomlist"))
    out.append("Definition WRAP_RESNUM_GEN : Z := %d.\nDefinition WRAP_ATOMNUM_GEN : Z := %d.\n" % (k0, k3))
    ex = int_tuple_assign(find_func(tree, "extract_lattice_gro"), "index")
    du = int_tuple_assign(find_func(tree, "dump_lattice_gro"), "index")
    out.append("Definition LATTICE_INDEX_EXTRACT_GEN : list nat := [%s].\n" % "; ".join(map(str, ex)))
    out.append("Definition LATTICE_INDEX_DUMP_GEN : list nat := [%s].\n" % "; ".join(map(str, du)))
    return "\n".join(out)


if __name__ == "__main__":
    import sys
    print(generate(sys.argv[1] if len(sys.argv) > 1 else "/repo"))
