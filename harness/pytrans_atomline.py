"""Fail-closed translator for GroFile.parse_atomline (gaddlemaps/parsers/__init__.py), the reader's line parser, to
Gallina over `bytes` and nat (second tie, DESIGN.md section 4.6).

The format dictionary is the triple (figures, decimals, velocities) : nat * nat * bool, i.e. the function is translated
for a GIVEN format (non-negative widths); the statement `if format_dict is None: format_dict = cls.determine_format(atomline)`
must be present in exactly that shape and is not part of the translated term (determine_format has its own translation,
pytrans_str.py).  A tuple value is (four leading fields, list of floats).

Subset.  nat: literals, names, + *, len(s), format_dict["position"][0], format_dict["velocities"] (0/1 in arithmetic).
str: names, s[a:b] (nat bounds), s[:-1], e.strip().  float(e) (ValueError of Python's float = error of parse_float).
Statements: `if s[-1] == "\\n": s = s[:-1]`, assignments, `if a != b: <message>; raise IOError`,
`a, b = _validate_res_atom_numbers(s)`, tuple assignment (4 fields then floats), `if format_dict["velocities"]:
aux = (float...,); info += aux`, `return info`.  Everything else raises Unsupported.
"""
import ast
import os
import textwrap


class Unsupported(Exception):
    pass


N, S, ZV = "N", "S", "ZV"


def is_fd(n, key):
    return isinstance(n, ast.Subscript) and isinstance(n.value, ast.Name) and n.value.id == "format_dict" \
        and isinstance(n.slice, ast.Constant) and n.slice.value == key


def is_msg(n):
    if isinstance(n, ast.Constant) and isinstance(n.value, str):
        return True
    return isinstance(n, ast.Call) and isinstance(n.func, ast.Attribute) and n.func.attr == "format" and is_msg(n.func.value)


class Tr:
    def __init__(self):
        self.k = 0

    def fresh(self, stem):
        self.k += 1
        return "%s__%d" % (stem, self.k)

    def nat(self, n, env):
        if isinstance(n, ast.Constant) and isinstance(n.value, int) and not isinstance(n.value, bool) and n.value >= 0:
            return "%d" % n.value
        if isinstance(n, ast.Name) and env.get(n.id, (None, None))[1] == N:
            return env[n.id][0]
        if isinstance(n, ast.BinOp) and isinstance(n.op, (ast.Add, ast.Mult)):
            return "(%s %s %s)" % (self.nat(n.left, env), "+" if isinstance(n.op, ast.Add) else "*", self.nat(n.right, env))
        if isinstance(n, ast.Call) and isinstance(n.func, ast.Name) and n.func.id == "len" and len(n.args) == 1 and not n.keywords:
            return "(List.length %s)" % self.str_(n.args[0], env)
        if isinstance(n, ast.Subscript) and is_fd(n.value, "position") and isinstance(n.slice, ast.Constant) and n.slice.value == 0:
            return "(fst (fst format_dict))"
        if is_fd(n, "velocities"):
            return "(if snd format_dict then 1 else 0)"
        raise Unsupported("integer expression %s" % ast.dump(n)[:80])

    def str_(self, n, env):
        if isinstance(n, ast.Name) and env.get(n.id, (None, None))[1] == S:
            return env[n.id][0]
        if isinstance(n, ast.Subscript) and isinstance(n.slice, ast.Slice) and n.slice.step is None:
            t = self.str_(n.value, env)
            lo, up = n.slice.lower, n.slice.upper
            if lo is None and isinstance(up, ast.UnaryOp) and isinstance(up.op, ast.USub) \
                    and isinstance(up.operand, ast.Constant) and up.operand.value == 1:
                return "(removelast %s)" % t
            if lo is not None and up is not None:
                a, b = self.nat(lo, env), self.nat(up, env)
                return "(firstn (%s - %s) (skipn %s %s))" % (b, a, a, t)
            raise Unsupported("slice shape")
        if isinstance(n, ast.Call) and isinstance(n.func, ast.Attribute) and n.func.attr == "strip" and not n.args and not n.keywords:
            return "(strip_py %s)" % self.str_(n.func.value, env)
        raise Unsupported("string expression %s" % ast.dump(n)[:80])

    def tuple_(self, n, env, binds):
        """-> (fields, floats): floats are bound monadically, in order, into `binds`"""
        if not isinstance(n, ast.Tuple):
            raise Unsupported("tuple expected")
        fields, floats = [], []
        for e in n.elts:
            if isinstance(e, ast.Call) and isinstance(e.func, ast.Name) and e.func.id == "float" and len(e.args) == 1 and not e.keywords:
                nm = self.fresh("f")
                binds.append((nm, "parse_float %s" % self.str_(e.args[0], env)))
                floats.append(nm)
                continue
            if floats:
                raise Unsupported("a non-float field after a float field")
            if isinstance(e, ast.Name) and env.get(e.id, (None, None))[1] == ZV:
                fields.append(env[e.id][0])
            else:
                fields.append(self.str_(e, env))
        return fields, floats

    def block(self, stmts, env):
        if not stmts:
            raise Unsupported("function falls off its end")
        s, rest = stmts[0], stmts[1:]
        if isinstance(s, ast.Expr) and isinstance(s.value, ast.Constant) and isinstance(s.value.value, str):
            return self.block(rest, env)
        if isinstance(s, ast.If) and not s.orelse:
            t = s.test
            # if s[-1] == "\n": s = s[:-1]
            if isinstance(t, ast.Compare) and len(t.ops) == 1 and isinstance(t.ops[0], ast.Eq) \
                    and isinstance(t.left, ast.Subscript) and isinstance(t.left.slice, ast.UnaryOp) \
                    and isinstance(t.left.slice.op, ast.USub) and isinstance(t.left.slice.operand, ast.Constant) \
                    and t.left.slice.operand.value == 1 and isinstance(t.comparators[0], ast.Constant) \
                    and t.comparators[0].value == "\n":
                v = self.str_(t.left.value, env)
                if not (len(s.body) == 1 and isinstance(s.body[0], ast.Assign) and len(s.body[0].targets) == 1
                        and isinstance(s.body[0].targets[0], ast.Name)):
                    raise Unsupported("newline branch shape")
                nm = s.body[0].targets[0].id
                if env.get(nm, (None, None))[1] != S:
                    raise Unsupported("newline branch assigns an unknown name")
                e = self.str_(s.body[0].value, env)
                c = self.fresh("c")
                return ("let* %s := py_last %s in\nlet %s := if Ascii.eqb %s NL then %s else %s in\n%s"
                        % (c, v, nm, c, e, env[nm][0], self.block(rest, env)))
            # if a != b: <messages>; raise IOError
            if isinstance(t, ast.Compare) and len(t.ops) == 1 and isinstance(t.ops[0], ast.NotEq):
                a, b = self.nat(t.left, env), self.nat(t.comparators[0], env)
                body = [x for x in s.body if not (isinstance(x, ast.Assign) and is_msg(x.value))]
                if not (len(body) == 1 and isinstance(body[0], ast.Raise) and body[0].cause is None):
                    raise Unsupported("length branch shape")
                ex = body[0].exc.func if isinstance(body[0].exc, ast.Call) else body[0].exc
                if not (isinstance(ex, ast.Name) and ex.id in ("IOError", "OSError")):
                    raise Unsupported("length branch raises another exception")
                return "if negb (%s =? %s) then Err EIO else\n%s" % (a, b, self.block(rest, env))
            # if format_dict["velocities"]: aux = (floats); info += aux
            if is_fd(t, "velocities"):
                if len(s.body) != 2:
                    raise Unsupported("velocities branch shape")
                a, g = s.body
                tgt = a.target if isinstance(a, ast.AnnAssign) else (a.targets[0] if isinstance(a, ast.Assign) and len(a.targets) == 1 else None)
                if not isinstance(tgt, ast.Name) or a.value is None:
                    raise Unsupported("velocities branch: first statement")
                binds = []
                fields, floats = self.tuple_(a.value, env, binds)
                if fields or not floats:
                    raise Unsupported("velocities branch: the added tuple must hold floats only")
                if not (isinstance(g, ast.AugAssign) and isinstance(g.op, ast.Add) and isinstance(g.target, ast.Name)
                        and isinstance(g.value, ast.Name) and g.value.id == tgt.id
                        and env.get(g.target.id, (None, None))[1] == "TUPLE"):
                    raise Unsupported("velocities branch: second statement is not <info> += <aux>")
                inner = "Ok [%s]" % "; ".join(floats)
                for nm, rhs in reversed(binds):
                    inner = "let* %s := %s in %s" % (nm, rhs, inner)
                x = self.fresh("extra")
                env2 = dict(env)
                _, _, f0, fl0 = env[g.target.id]
                env2[g.target.id] = (None, "TUPLE", f0, "(%s ++ %s)" % (fl0, x))
                return "let* %s := (if snd format_dict then %s else Ok []) in\n%s" % (x, inner, self.block(rest, env2))
            raise Unsupported("conditional outside the subset")
        if isinstance(s, (ast.Assign, ast.AnnAssign)):
            tgt = s.target if isinstance(s, ast.AnnAssign) else (s.targets[0] if len(s.targets) == 1 else None)
            if s.value is None or tgt is None:
                raise Unsupported("assignment shape")
            env2 = dict(env)
            if isinstance(tgt, ast.Tuple) and len(tgt.elts) == 2 and all(isinstance(e, ast.Name) for e in tgt.elts):
                v = s.value
                if not (isinstance(v, ast.Call) and isinstance(v.func, ast.Name) and v.func.id == "_validate_res_atom_numbers"
                        and len(v.args) == 1 and not v.keywords):
                    raise Unsupported("tuple unpacking of something else than _validate_res_atom_numbers(...)")
                p = self.fresh("p")
                a, b = tgt.elts[0].id, tgt.elts[1].id
                env2[a], env2[b] = (a, ZV), (b, ZV)
                return ("let* %s := validate_res_atom_numbers_gen %s in\nlet %s := fst %s in\nlet %s := snd %s in\n%s"
                        % (p, self.str_(v.args[0], env), a, p, b, p, self.block(rest, env2)))
            if not isinstance(tgt, ast.Name):
                raise Unsupported("assignment target")
            nm = tgt.id
            if isinstance(s.value, ast.Tuple):
                binds = []
                fields, floats = self.tuple_(s.value, env, binds)
                if len(fields) != 4:
                    raise Unsupported("the record tuple must start with four non-float fields")
                env2[nm] = (None, "TUPLE", fields, "[%s]" % "; ".join(floats))
                body = self.block(rest, env2)
                for b_nm, rhs in reversed(binds):
                    body = "let* %s := %s in\n%s" % (b_nm, rhs, body)
                return body
            try:
                e, ty = self.nat(s.value, env), N
            except Unsupported:
                e, ty = self.str_(s.value, env), S
            env2[nm] = (nm, ty)
            return "let %s := %s in\n%s" % (nm, e, self.block(rest, env2))
        if isinstance(s, ast.Return) and isinstance(s.value, ast.Name) and env.get(s.value.id, (None, None))[1] == "TUPLE" and not rest:
            _, _, fields, floats = env[s.value.id]
            return "Ok (%s, %s)" % (", ".join(fields), floats)
        raise Unsupported("statement %s" % type(s).__name__)


HEADER = """(* GENERATED at every run from the source text of /repo by harness/pytrans_atomline.py.  Do not edit. *)
From Coq Require Import List Ascii ZArith Arith Bool.
From GM Require Import Base.Res Base.StrGro Gen.GroKernelsGen.
Import ListNotations.

"""


def generate(repo):
    src = open(os.path.join(repo, "gaddlemaps", "parsers", "__init__.py")).read()
    tree = ast.parse(src)
    fns = [n for n in ast.walk(tree) if isinstance(n, ast.FunctionDef) and n.name == "parse_atomline"]
    if len(fns) != 1:
        raise Unsupported("parse_atomline: %d definitions" % len(fns))
    fn = fns[0]
    if [a.arg for a in fn.args.args] != ["cls", "atomline", "format_dict"] or fn.args.vararg or fn.args.kwarg \
            or fn.args.kwonlyargs or len(fn.args.defaults) != 1 or not (isinstance(fn.args.defaults[0], ast.Constant)
                                                                         and fn.args.defaults[0].value is None):
        raise Unsupported("parse_atomline: parameters changed")
    body = [s for s in fn.body if not (isinstance(s, ast.Expr) and isinstance(s.value, ast.Constant))]
    first = body[0]
    ok = (isinstance(first, ast.If) and not first.orelse and isinstance(first.test, ast.Compare)
          and isinstance(first.test.left, ast.Name) and first.test.left.id == "format_dict"
          and len(first.test.ops) == 1 and isinstance(first.test.ops[0], ast.Is)
          and isinstance(first.test.comparators[0], ast.Constant) and first.test.comparators[0].value is None
          and len(first.body) == 1 and isinstance(first.body[0], ast.Assign)
          and ast.dump(first.body[0].targets[0]) == ast.dump(ast.Name(id="format_dict", ctx=ast.Store()))
          and ast.unparse(first.body[0].value) == "cls.determine_format(atomline)")
    if not ok:
        raise Unsupported("parse_atomline: the default-format statement changed")
    text = Tr().block(body[1:], {"atomline": ("atomline", S)})
    return HEADER + ("Definition parse_atomline_gen (atomline : bytes) (format_dict : nat * nat * bool)\n"
                     "  : res (Z * bytes * bytes * Z * list pdec) :=\n%s.\n" % textwrap.indent(text, "  "))


if __name__ == "__main__":
    import sys
    print(generate(sys.argv[1] if len(sys.argv) > 1 else "/repo"))
