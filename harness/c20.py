"""C20 - command-line mapping equals the library workflow; discovery is deterministic.

K (correspondence, model = coq/Model/Cli.v with the reference instance of the oracles):
  * classify_files on generated path strings                                   (chk_classify)
  * sort_molecules on generated directories: in-process under forced iteration orders of the two candidate
    sets (classify_files wrapped so that it returns the sets as lists in the chosen order) and in
    subprocesses under several PYTHONHASHSEED values (unpatched code)          (chk_sort)
  * main(): the molecules list handed to auto_map (auto_map replaced by a recorder) (chk_main)
  * the path given to Manager.extrapolate_system in real runs                  (chk_out)
S (oracle, from the property text and the generator's ground truth, independent of the model):
  * discovery = each species' own files, identical for every order / hash seed, explicit species not re-added
  * main(): explicit triples first and unchanged, excluded species absent, discovered species' own triples
  * real runs: output bytes == library workflow with the same numpy seed and scale; written to the requested
    path or to mapped_<name> beside the input
"""
import contextlib
import filecmp
import io
import itertools
import json
import os
import shutil
import subprocess
import sys
import tempfile
import warnings

import numpy as np

import lib
import molgen
from lib import coq_str, coq_list

HEADER = """From Coq Require Import String List.
From GM Require Import Base.Res Model.Cli Corr.CheckC20.
Import ListNotations.
Open Scope string_scope.
"""

RULE = ("generated directories: 1-3 species present in a start-resolution system (1-2 residues, 1-4 beads; end "
        "resolution with more atoms per residue; optionally a species with the SAME signature and atom names at both "
        "resolutions), each with its start topology / end topology / end coordinates, any of which may be missing "
        "(D11: start topology without end topology), a species that is not in the system, distractors (valid unrelated "
        ".itp/.gro, force-field include and empty .itp, other extensions, upper-case extensions, the reference file "
        "itself, duplicated listing entries), a random subset of species given explicitly, a random exclusion list; "
        "'ambiguous' directories (ON by default): candidates in sub-folders with equal base names (cg/X.itp, aa/X.itp, old/X.itp), "
        "two end topologies with the species' name, two pairing end coordinate files, a stale mapped_<name> output, a second "
        "start topology, the same file listed under absolute and relative spellings - there K compares the exact winner "
        "(first in sorted full-path order) and S demands determinism and membership only; near-miss distractor topologies "
        "(another molecule with the residue name(s) and atoms per residue of a real species but one different atom name, sorting "
        "before or after the genuine start topology; in the ambiguous stream also an alias with identical atom names); explicit "
        "species whose files are listed again under another spelling (./x, relative) and/or as copies; --exclude lists of 2-3 "
        "names (adjacent / non-adjacent in discovery order = sorted start topology, all species, an explicit species among "
        "them, both orders); explicit triples whose end topology declares another molecule name than the start topology; "
        "main() itself under PYTHONHASHSEED 0..7/0..15 in subprocesses (--auto with/without --exclude): ordered molecule list "
        "handed to auto_map, and for real runs with a fixed numpy seed the bytes of the written file; same-name distractor "
        "topologies (another model declaring a species' molecule name, sorting after - nothing may change - or before the genuine "
        "end topology - tolerated alternative); coordinate files with several end-resolution molecules of a species. "
        "Every permutation of the candidate list when it has <= 5 (quick) / <= 6 (thorough) files, sampled otherwise; "
        "hash seeds in subprocesses.  A case is non-trivial when its (directory descriptor, order) is distinct and the "
        "directory contains at least one discoverable species.")

_ROOT = None


def root():
    global _ROOT
    if _ROOT is None:
        import atexit
        _ROOT = tempfile.mkdtemp(prefix="c20_", dir="/tmp")
        atexit.register(lambda: shutil.rmtree(_ROOT, ignore_errors=True))
    return _ROOT


# =================================================================== descriptors (pure data, JSON-able)
def chain(n):
    return [[i, i + 1] for i in range(n - 1)]


NAME_STYLES = [("{n}_CG.itp", "{n}_AA.itp", "{n}_AA.gro"),
               ("cg_{n}.itp", "aa_{n}.itp", "aa_{n}.gro"),
               ("{n}_start.itp", "{n}_end.itp", "{n}_end.gro"),
               ("{n}.itp", "{n}_atomistic.itp", "{n}_atomistic.gro"),
               ("{n}_z.itp", "{n}_a.itp", "{n}.gro"),
               ("{n}_CG.ITP", "{n}_AA.ITP", "{n}_AA.GRO"),
               ("{n}.cg.itp", "{n}.aa.itp", "{n}.aa.gro")]


def make_species(rs, k, same_sig=False, allow_one_bead=True):
    name = "M%d%s" % (k, rs.choice(["", "X", "QZ"]))
    nres = 1 if rs.randint(0, 3) else 2
    cg, aa = [], []
    for r in range(nres):
        resname = "R%d%s" % (k, "AB"[r])
        nb = int(rs.randint(1 if allow_one_bead else 2, 4)) if nres == 1 else int(rs.randint(1, 3))
        beads = ["B%d%d" % (r, j) for j in range(nb)]
        cg.append([resname, beads])
        if same_sig:
            aa.append([resname, list(beads)])
        else:
            na = nb + int(rs.randint(1, 4))
            atoms = [("H%d%d" if (j % 3 == 2) else "C%d%d") % (r, j) for j in range(na)]
            aa.append([resname, atoms])
    return {"name": name, "cg": cg, "aa": aa, "same_sig": bool(same_sig)}


def natoms(residues):
    return sum(len(r[1]) for r in residues)


def renamed_end(sp):
    """pseudo species: the end-resolution topology of sp under ANOTHER molecule name (legal for an explicit triple)"""
    return {"name": "REN" + sp["name"], "cg": [[r[0], list(r[1])] for r in sp["aa"]],
            "aa": [[r[0], list(r[1])] for r in sp["aa"]], "same_sig": True}


def same_name_model(sp):
    """pseudo species: a topology of ANOTHER model of the molecule (e.g. united atom) that declares the species' own
    molecule name: same residue names, one more atom per residue than the end resolution (it neither loads into the start
    system nor pairs with the species' end coordinates)"""
    res = [[r[0], list(r[1]) + ["U%d" % k]] for k, r in enumerate(sp["aa"])]
    return {"name": "UA_" + sp["name"], "molname": sp["name"], "cg": res, "aa": [[r[0], list(r[1])] for r in res],
            "same_sig": True}


def make_descriptor(rs, profile="full", for_mapping=False, nsp=None):
    """profile: 'small' (few candidate files, exhaustive permutations), 'full', 'samesig'."""
    if profile == "ambig":
        return make_ambiguous(rs)
    if nsp is None:
        nsp = 1 if profile == "small" else int(rs.randint(2, 4))
    species = []
    for k in range(nsp):
        ss = (profile == "samesig" and k == 0) or (profile != "small" and rs.randint(0, 6) == 0) or \
             (profile == "small" and rs.randint(0, 3) == 0)
        species.append(make_species(rs, k, same_sig=ss))
    # system: blocks of molecules; same-signature species get >= 2 copies (so that the reference file is never a
    # second candidate for their end coordinates), a topology-less solvent may be interleaved
    blocks = []
    for sp in species:
        n = int(rs.randint(2 if sp["same_sig"] else 1, 4))
        parts = 1 if n == 1 or rs.randint(0, 2) else 2
        if parts == 1:
            blocks.append([sp["name"], n])
        else:
            blocks.append([sp["name"], 1])
            blocks.append([sp["name"], n - 1])
    if rs.randint(0, 2):
        blocks.append(["SOL", int(rs.randint(1, 4))])
    order = rs.permutation(len(blocks))
    blocks = [blocks[i] for i in order]
    # never let two blocks of a same-signature species collapse into a system with a single copy: fine, n >= 2 in total
    files = []
    present = {}
    cg_names = {}
    aa_names = {}
    pseudo = []
    for sp in species:
        st = NAME_STYLES[int(rs.randint(0, len(NAME_STYLES)))]
        n = sp["name"]
        roles = {"cg": st[0].format(n=n), "aa_top": st[1].format(n=n), "aa_coor": st[2].format(n=n)}
        cg_names[n] = roles["cg"]
        aa_names[n] = roles["aa_top"]
        drop = None
        if not for_mapping and profile != "small":
            u = rs.randint(0, 10)
            drop = {0: "aa_top", 1: "aa_coor", 2: "cg", 3: "aa_top"}.get(int(u))
        elif not for_mapping and profile == "small" and rs.randint(0, 4) == 0:
            drop = "aa_top"
        present[n] = {}
        for role, fn in roles.items():
            if role == drop:
                continue
            present[n][role] = fn
            if role == "aa_coor":
                files.append({"name": fn, "kind": "coor", "mols": [[n, "aa"]]})
            else:
                files.append({"name": fn, "kind": "top", "mol": n, "res": "cg" if role == "cg" else "aa"})
    # a species that is NOT in the system, with all its files
    absent = None
    if profile != "small" and rs.randint(0, 2):
        absent = make_species(rs, 7)
        absent["name"] = "ABS"
        for res in absent["cg"] + absent["aa"]:
            res[0] = "Z" + res[0][1:]
        files.append({"name": "ABS_CG.itp", "kind": "top", "mol": "ABS", "res": "cg"})
        files.append({"name": "ABS_AA.itp", "kind": "top", "mol": "ABS", "res": "aa"})
        files.append({"name": "ABS_AA.gro", "kind": "coor", "mols": [["ABS", "aa"]]})
    # near-miss distractor: a topology of ANOTHER molecule with the residue name(s) and atoms per residue of a real
    # species but one different atom name; it sorts before or after the genuine start topology.  It must get nothing
    # and must not disturb the real species (a refused topology leaves the system untouched).
    if rs.randint(0, 3 if profile == "small" else 2) == 0:
        sp = species[int(rs.randint(0, len(species)))]
        ps = near_miss(rs, sp, str(len(pseudo)))
        pseudo.append(ps)
        g = cg_names[sp["name"]]
        root_, ext_ = os.path.splitext(g)
        fname = ["0_" + g, root_ + ".alt" + ext_, "zz_" + g, root_ + "_zalt" + ext_][int(rs.randint(0, 4))]
        files.append({"name": fname, "kind": "top", "mol": ps["name"], "res": "cg"})
    # same-name distractor: a third topology carrying a species' molecule name (another model, e.g. BMIM_UA.itp next to
    # BMIM_AA.itp).  Sorting AFTER the genuine end topology it must change nothing; sorting BEFORE it the tool reports it
    # instead (first same-name candidate in scan order) - tolerated by the oracle, see expected_discovery.
    cand_ = [sp for sp in species if not sp["same_sig"]]
    if cand_ and rs.randint(0, 3 if profile == "small" else 2) == 0:
        sp = cand_[int(rs.randint(0, len(cand_)))]
        pseudo.append(same_name_model(sp))
        g = aa_names[sp["name"]]
        root_, ext_ = os.path.splitext(g)
        after = [root_ + "_zUA" + ext_, "zz_UA_" + g]
        before = ["0UA_" + g, root_ + "-UA" + ext_]
        opts_ = after if for_mapping else (after + before)
        files.append({"name": opts_[int(rs.randint(0, len(opts_)))], "kind": "top", "mol": "UA_" + sp["name"], "res": "aa"})
    # a coordinate file with SEVERAL end-resolution molecules of a species (a small box, a pair): it is not the end
    # coordinate file of the species (exactly one molecule), whether it sorts before or after the genuine file
    if profile != "small" and rs.randint(0, 3) == 0:
        sp = species[int(rs.randint(0, len(species)))]
        others = [x for x in species if x is not sp]
        # (one molecule of the species next to another species' molecule IS accepted by Molecule.from_files - one
        # recognised molecule - hence a second candidate: only in the discovery streams, where it is handled as ambiguous)
        mols = [[sp["name"], "aa"]] * int(rs.randint(2, 4)) if rs.randint(0, 2) or not others or for_mapping else \
            [[sp["name"], "aa"], [others[0]["name"], "aa"]]
        files.append({"name": ["0_box_%s.gro", "AA_pair_%s.gro", "zz_box_%s.gro"][int(rs.randint(0, 3))] % sp["name"],
                      "kind": "coor", "mols": [list(m) for m in mols]})
    # distractors
    pool = [{"name": "ff_martini.itp", "kind": "raw", "text": "[ defaults ]\n1 1 no 1.0 1.0\n\n[ atomtypes ]\nP5 72.0 0.0 A 0.0 0.0\n"},
            {"name": "empty.itp", "kind": "raw", "text": ""},
            {"name": "noatoms.itp", "kind": "raw", "text": "[ moleculetype ]\nFOO 1\n"},
            {"name": "topol.itp", "kind": "raw", "text": '#include "ff_martini.itp"\n[ system ]\nx\n[ molecules ]\nM0 3\n'},
            {"name": "notes.txt", "kind": "raw", "text": "hello\n"},
            {"name": "README", "kind": "raw", "text": "readme\n"},
            {"name": "run.mdp", "kind": "raw", "text": "integrator = md\n"},
            {"name": "old.itp.bak", "kind": "raw", "text": "[ moleculetype ]\nM0 1\n"},
            {"name": "conf.gro.old", "kind": "raw", "text": "x\n"},
            {"name": "AAA_first.txt", "kind": "raw", "text": "\n"}]
    ndis = int(rs.randint(0, 2)) if profile == "small" else int(rs.randint(1, 5))
    for i in rs.permutation(len(pool))[:ndis]:
        files.append(dict(pool[int(i)]))
    if profile != "small" and rs.randint(0, 3) == 0:
        # a start-resolution single-molecule coordinate file of a species that changes signature (like BF4_CG.gro)
        cand = [sp for sp in species if not sp["same_sig"]]
        if cand:
            sp = cand[int(rs.randint(0, len(cand)))]
            files.append({"name": sp["name"] + "_single_cg.gro", "kind": "coor", "mols": [[sp["name"], "cg"]]})
    if profile != "small" and not for_mapping and rs.randint(0, 4) == 0:
        # a second end-coordinate candidate of one species (outside "at most one candidate of each kind": either may be
        # chosen, but always the same one)
        sp = species[int(rs.randint(0, len(species)))]
        files.append({"name": ["A_copy_of_%s.gro", "zcopy_%s.gro"][int(rs.randint(0, 2))] % sp["name"], "kind": "coor",
                      "mols": [[sp["name"], "aa"]]})
    ref_name = ["system_cg.gro", "start.gro", "zz_system.GRO", "a.gro"][int(rs.randint(0, 4))]
    files.append({"name": ref_name, "kind": "ref"})
    listing = [f["name"] for f in files if f["kind"] != "ref"]
    if profile == "small" or rs.randint(0, 4) != 0:
        listing.append(ref_name)                     # `--auto *` lists the reference file too
    listing = [listing[i] for i in rs.permutation(len(listing))]
    if profile != "small" and rs.randint(0, 5) == 0 and listing:
        listing.append(listing[int(rs.randint(0, len(listing)))])       # the same file listed twice
    # explicit species: only those with a complete triple
    known = []
    for sp in species:
        p = present[sp["name"]]
        if len(p) == 3 and rs.randint(0, 3) == 0:
            known.append([p["cg"], p["aa_coor"], p["aa_top"]])
            if not for_mapping and rs.randint(0, 3) == 0:
                # the explicit triple uses an end topology that declares another molecule name
                ps = renamed_end(sp)
                pseudo.append(ps)
                files.append({"name": "renamed_" + p["aa_top"], "kind": "top", "mol": ps["name"], "res": "aa"})
                known[-1][2] = "renamed_" + p["aa_top"]
                if rs.randint(0, 2):
                    listing.append("renamed_" + p["aa_top"])
            if not for_mapping and rs.randint(0, 5) < 3:
                # the explicit species' files are ALSO listed under another spelling of the same path and/or as a copy:
                # the textual removal does not see them, only the pre-loaded start system keeps the species out
                for x in known[-1]:
                    if rs.randint(0, 3):
                        listing.append(["REL:", "DOT:"][int(rs.randint(0, 2))] + x)
                if rs.randint(0, 2):
                    files.append({"name": "copy_of_" + p["cg"], "kind": "top", "mol": sp["name"], "res": "cg"})
                    listing.append("copy_of_" + p["cg"])
                if rs.randint(0, 3) == 0:
                    files.append({"name": "copy_of_" + p["aa_top"], "kind": "top", "mol": sp["name"], "res": "aa"})
                    listing.append("copy_of_" + p["aa_top"])
    exclude = None
    if rs.randint(0, 2):
        names = [sp["name"] for sp in species] + ["SOL", "NOPE"]
        exclude = [names[int(i)] for i in rs.permutation(len(names))[:int(rs.randint(1, 3))]]
    return {"species": species + ([absent] if absent else []) + pseudo, "in_system": [sp["name"] for sp in species],
            "blocks": [[b[0], int(b[1])] for b in blocks], "files": files, "ref": ref_name, "auto": listing,
            "known": known, "exclude": exclude, "geom_seed": int(rs.randint(0, 2 ** 31 - 1)), "profile": profile}


def near_miss(rs, sp, tag, alias=False):
    """pseudo species with the residue names and sizes of sp's start resolution: one atom name changed (the topology
    passes the (resname, size) lookup and the window search, and is refused when the Molecule is built), or - alias -
    the same atom names under another molecule name (it loads)"""
    res = [[r[0], list(r[1])] for r in sp["cg"]]
    if not alias:
        k = int(rs.randint(0, len(res)))
        j = int(rs.randint(0, len(res[k][1])))
        res[k][1][j] = "X%d%d" % (k, j)
    return {"name": ("ALS%s" if alias else "TFB%s") % tag, "cg": res, "aa": [[r[0], list(r[1])] for r in res],
            "same_sig": True}


def make_ambiguous(rs):
    """'ambiguous directory': candidates in sub-folders with EQUAL base names, more than one candidate for a role
    (second end topology with the species' name, second end coordinate file that pairs, a stale mapped_<name> output,
    the same file listed under an absolute and a relative spelling, a second start topology).  Which candidate wins is
    not prescribed by the property; that the answer is the same for every order and hash seed is."""
    nsp = int(rs.randint(1, 3))
    species = [make_species(rs, k, same_sig=(rs.randint(0, 6) == 0)) for k in range(nsp)]
    kinds = ["two_aa_top", "two_coor", "stale", "spelling", "two_cg", "near_miss", "alias_cg", "same_name_model"]
    chosen = {kinds[int(i)] for i in rs.permutation(len(kinds))[:int(rs.randint(1, 4))]}
    layout = int(rs.randint(0, 3))      # 0: cg/ aa/ old/ with equal base names, 1: flat, 2: nested deeper
    def fn(folder, n, ext):
        if layout == 0:
            return "%s/%s.%s" % (folder, n, ext)
        if layout == 1:
            return "%s_%s.%s" % (n, folder, ext)
        return "proj/%s/files/%s.%s" % (folder, n, ext)
    files, blocks = [], []
    for sp in species:
        n = sp["name"]
        cnt = 1 if ("stale" in chosen and not sp["same_sig"]) else int(rs.randint(2 if sp["same_sig"] else 1, 4))
        blocks.append([n, cnt])
        files.append({"name": fn("cg", n, "itp"), "kind": "top", "mol": n, "res": "cg"})
        files.append({"name": fn("aa", n, "itp"), "kind": "top", "mol": n, "res": "aa"})
        files.append({"name": fn("aa", n, "gro"), "kind": "coor", "mols": [[n, "aa"]]})
    victim = species[int(rs.randint(0, nsp))]["name"]
    if "two_aa_top" in chosen:
        files.append({"name": fn("old", victim, "itp"), "kind": "top", "mol": victim, "res": "aa"})
    if "two_coor" in chosen:
        files.append({"name": fn("old", victim, "gro"), "kind": "coor", "mols": [[victim, "aa"]]})
    if "two_cg" in chosen:
        files.append({"name": fn("cg_old", victim, "itp"), "kind": "top", "mol": victim, "res": "cg"})
    pseudo, aliases = [], {}
    vsp = [sp for sp in species if sp["name"] == victim][0]
    if "near_miss" in chosen:
        ps = near_miss(rs, vsp, "0")
        pseudo.append(ps)
        files.append({"name": fn(["alt", "zalt"][int(rs.randint(0, 2))], victim, "itp"), "kind": "top", "mol": ps["name"],
                      "res": "cg"})
    if "same_name_model" in chosen and not vsp["same_sig"]:
        pseudo.append(same_name_model(vsp))
        files.append({"name": fn(["ua", "0ua", "zua"][int(rs.randint(0, 3))], victim, "itp"), "kind": "top",
                      "mol": "UA_" + victim, "res": "aa"})
    if "alias_cg" in chosen:
        # same residues AND atom names under another molecule name: it loads; whichever of the two start topologies is
        # scanned first takes the residues
        ps = near_miss(rs, vsp, "0", alias=True)
        pseudo.append(ps)
        aliases[ps["name"]] = victim
        files.append({"name": fn(["alias", "zalias"][int(rs.randint(0, 2))], victim, "itp"), "kind": "top",
                      "mol": ps["name"], "res": "cg"})
    if rs.randint(0, 2):
        blocks.append(["SOL", int(rs.randint(1, 3))])
    blocks = [blocks[int(i)] for i in rs.permutation(len(blocks))]
    ref_name = ["system.gro", "conf/system.gro", "zz.gro"][int(rs.randint(0, 3))]
    if "stale" in chosen:
        mols = []
        for name, cnt in blocks:
            mols += [[name, "aa"]] * cnt
        files.append({"name": os.path.join(os.path.dirname(ref_name), "mapped_" + os.path.basename(ref_name)),
                      "kind": "coor", "mols": mols})
    if rs.randint(0, 2):
        files.append({"name": "ff/forcefield.itp", "kind": "raw", "text": "[ defaults ]\n; nbfunc comb-rule\n  1  2\n"})
    if rs.randint(0, 2):
        files.append({"name": "notes.txt", "kind": "raw", "text": "not a simulation file\n"})
    files.append({"name": ref_name, "kind": "ref"})
    listing = [f["name"] for f in files if f["kind"] != "ref"]
    if rs.randint(0, 2):
        listing.append(ref_name)
    if "spelling" in chosen:
        # some files listed a second time under another spelling of the same path
        extra = [listing[int(i)] for i in rs.permutation(len(listing))[:int(rs.randint(1, 3))]]
        listing += [["REL:", "DOT:"][int(rs.randint(0, 2))] + x for x in extra]
    elif rs.randint(0, 3) == 0:
        listing = [["REL:", "DOT:"][int(rs.randint(0, 2))] + x for x in listing]      # everything relative
    listing = [listing[int(i)] for i in rs.permutation(len(listing))]
    return {"species": species + pseudo, "in_system": [sp["name"] for sp in species],
            "blocks": [[b[0], int(b[1])] for b in blocks], "aliases": aliases,
            "files": files, "ref": ref_name, "auto": listing, "known": [], "exclude": None,
            "geom_seed": int(rs.randint(0, 2 ** 31 - 1)), "profile": "ambig", "ambiguities": sorted(chosen)}


# ------------------------------------------------------------------- descriptor -> files
def entry_name(e):
    """an entry of desc['auto'] is a name relative to the directory, optionally prefixed by REL: (pass it as a relative
    path, the process runs in the directory) or DOT: (./name); without prefix it is passed as an absolute path"""
    return e[4:] if e[:4] in ("REL:", "DOT:") else e


def spell(d, e):
    if e.startswith("REL:"):
        return e[4:]
    if e.startswith("DOT:"):
        return "./" + e[4:]
    return os.path.join(d, e)


def short(d, x):
    return os.path.relpath(x, d) if os.path.isabs(x) else x


def needs_cwd(desc):
    return any(e[:4] in ("REL:", "DOT:") for e in desc["auto"])


def species_of(desc, name):
    for sp in desc["species"]:
        if sp["name"] == name:
            return sp
    if name == "SOL":
        return {"name": "SOL", "cg": [["W", ["W"]]], "aa": [["W", ["W"]]], "same_sig": True}
    raise KeyError(name)


def mol_records(residues, resid0, atomid0, origin, rs, bond):
    recs = []
    k = 0
    for r, (resname, names) in enumerate(residues):
        for an in names:
            pos = origin + np.array([bond * k, 0.0, 0.0]) + rs.uniform(-0.03, 0.03, size=3) * (1 if k else 0)
            recs.append((resid0 + r, resname, an, atomid0 + k, tuple(float(x) for x in pos), None))
            k += 1
    return recs


def coor_content(desc, f):
    """list of molecules [(species name, 'cg'|'aa')] of a coordinate-like file"""
    if f["kind"] == "ref":
        out = []
        for name, n in desc["blocks"]:
            out += [[name, "cg"]] * n
        return out
    return f["mols"]


def materialize(desc, d):
    os.makedirs(d, exist_ok=True)
    rs = np.random.RandomState(desc["geom_seed"])
    for f in desc["files"]:
        path = os.path.join(d, f["name"])
        os.makedirs(os.path.dirname(path), exist_ok=True)
        if f["kind"] == "raw":
            with open(path, "w") as fh:
                fh.write(f["text"])
        elif f["kind"] == "top":
            sp = species_of(desc, f["mol"])
            res = sp[f["res"]]
            atoms = []
            for r, (resname, names) in enumerate(res):
                atoms += [(an, resname, r + 1) for an in names]
            molgen.write_itp(path, sp.get("molname", sp["name"]), atoms, [tuple(b) for b in chain(len(atoms))])
        else:
            recs = []
            resid, atomid = 1, 1
            for m, (name, which) in enumerate(coor_content(desc, f)):
                sp = species_of(desc, name)
                res = sp[which]
                origin = np.array([0.5 + 0.9 * (m % 8), 0.5 + 0.9 * ((m // 8) % 8), 0.5 + 0.9 * (m // 64)])
                recs += mol_records(res, resid, atomid, origin, rs, 0.3 if which == "cg" else 0.12)
                resid += len(res)
                atomid += natoms(res)
            molgen.write_gro(path, recs, box=(8.0, 8.0, 8.0), title="generated " + f["name"])
    return d


# ------------------------------------------------------------------- ground truth for the model's oracle tables
def residues_of_file(desc, f):
    """coordinate-like file -> [(resname, tuple names)] ; topology -> (molname, [(resname, tuple names)])"""
    out = []
    for name, which in coor_content(desc, f):
        out += [(r[0], tuple(r[1])) for r in species_of(desc, name)[which]]
    return out


def count_instances(stream, pattern):
    """greedy left-to-right count of whole windows equal to the pattern (resname and atom names)"""
    n, i, L = 0, 0, len(pattern)
    while L and i + L <= len(stream):
        if stream[i:i + L] == pattern:
            n += 1
            i += L
        else:
            i += 1
    return n


def model_tables(desc, d):
    """(stream, tbl, pairs) as Coq terms, from the descriptor only (no call into the implementation)"""
    byname = {f["name"]: f for f in desc["files"]}
    ref_res = residues_of_file(desc, byname[desc["ref"]])
    kinds, kind_names = {}, {}
    for rn, names in ref_res:
        key = (rn, len(names))
        if key not in kinds:
            kinds[key] = len(kinds)
            kind_names[kinds[key]] = names
    stream = [kinds[(rn, len(names))] for rn, names in ref_res]
    # every spelling under which a file can reach the code: absolute, and the ones used in the listing
    spellings = {}
    for f in desc["files"]:
        spellings.setdefault(f["name"], []).append(os.path.join(d, f["name"]))
    for e in desc["auto"]:
        sp_ = spell(d, e)
        if entry_name(e) in spellings and sp_ not in spellings[entry_name(e)]:
            spellings[entry_name(e)].append(sp_)
    tbl, tops = [], {}
    for f in desc["files"]:
        for p in spellings[f["name"]]:
            if f["kind"] == "top":
                sp = species_of(desc, f["mol"])
                res = [(r[0], tuple(r[1])) for r in sp[f["res"]]]
                sig = [kinds.get((rn, len(names))) for rn, names in res]
                ok = None not in sig and all(kind_names[k] == names for k, (rn, names) in zip(sig, res))
                tbl.append("(%s, Build_topdata (Some %s) %s %s)" % (
                    coq_str(p), coq_str(sp.get("molname", sp["name"])),
                    "None" if None in sig else "(Some %s)" % coq_list(["%d" % k for k in sig]),
                    "true" if ok else "false"))
                tops[p] = res
            elif f["kind"] == "raw":
                tbl.append("(%s, Build_topdata None None false)" % coq_str(p))
    pairs = []
    for f in desc["files"]:
        if f["kind"] in ("coor", "ref"):
            st = residues_of_file(desc, f)
            for tp, res in tops.items():
                if count_instances(st, res) == 1:
                    for cp in spellings[f["name"]]:
                        pairs.append("(%s, %s)" % (coq_str(cp), coq_str(tp)))
    return (coq_list(["Some %d" % k for k in stream]), coq_list(tbl), coq_list(pairs))


# ------------------------------------------------------------------- ground truth for the oracle (by role)
def expected_discovery(desc, d, known):
    """From the roles of the listed files: ({species name: list of acceptable inner dicts}, explicitly given species,
    {species name: {'tops': set, 'coords': set}} for species whose candidates are ambiguous).
    A species is ambiguous when a role has more than one listed candidate (second end topology / end coordinates,
    the same file listed under two spellings, a second start topology): then only determinism and membership are
    demanded, not a particular winner."""
    byname = {f["name"]: f for f in desc["files"]}
    known_real = set()
    for k in known:
        known_real |= {os.path.realpath(x) for x in k}
    entries = []
    for e in dict.fromkeys(desc["auto"]):
        f = byname.get(entry_name(e))
        if f is not None and os.path.realpath(os.path.join(d, f["name"])) not in known_real:
            entries.append((spell(d, e), f))
    all_coords = {p for p, f in entries if f["kind"] in ("coor", "ref")}
    exp, known_species, ambiguous = {}, set(), {}
    for name in desc["in_system"]:
        sp = species_of(desc, name)
        if any(os.path.realpath(os.path.join(d, f["name"])) in {os.path.realpath(k[0]) for k in known}
               for f in desc["files"] if f["kind"] == "top" and f.get("mol") == name):
            known_species.add(name)
            continue      # explicitly given: must not be re-added
        cg = [p for p, f in entries if f["kind"] == "top" and f["mol"] == name and f["res"] == "cg"]
        aa = [p for p, f in entries if f["kind"] == "top" and f["mol"] == name and f["res"] == "aa"]
        co = [p for p, f in entries if f["kind"] in ("coor", "ref") and
              sum(1 for m in coor_content(desc, f) if m[0] == name and (m[1] == "aa" or sp["same_sig"])) == 1]
        als = [(p, f["mol"]) for p, f in entries if f["kind"] == "top" and desc.get("aliases", {}).get(f["mol"]) == name]
        ua = [p for p, f in entries if f["kind"] == "top" and species_of(desc, f["mol"]).get("molname") == name]
        if len(cg) > 1 or len(aa) > 1 or len(co) > 1 or als:
            if cg or als or (sp["same_sig"] and aa):
                ambiguous[name] = {"tops": set(cg + aa + ua + [p for p, _ in als]), "coords": all_coords,
                                   "aliases": {m for _, m in als}}
            continue
        opts = []
        if sp["same_sig"]:
            tops = cg + aa
            if len(tops) == 2:
                for a, b in ((tops[0], tops[1]), (tops[1], tops[0])):
                    o = {"top_CG": a, "top_AA": b}
                    if co:
                        o["coor_AA"] = co[0]
                    opts.append(o)
            elif len(tops) == 1:
                opts.append({"top_CG": tops[0]})
        elif cg:
            o = {"top_CG": cg[0]}
            if aa:
                o["top_AA"] = aa[0]
                if co:
                    o["coor_AA"] = co[0]
            opts.append(o)
            # A topology of another model that declares the species' molecule name is NOT its end topology.  The tool
            # keeps the first same-name candidate in scan order (sorted paths) and warns about the others: a distractor
            # that sorts AFTER the genuine end topology must change nothing (exactness demanded); one that sorts BEFORE
            # it (or stands alone) is what the unchanged tool reports, without coordinates - outside "at most one
            # candidate per role", tolerated here as an alternative, never demanded.
            for p in ua:
                if not aa or p < aa[0]:
                    opts.append({"top_CG": cg[0], "top_AA": p})
        if opts:
            exp[name] = opts
    return exp, known_species, ambiguous


# =================================================================== implementation drivers
def _quiet():
    return contextlib.redirect_stdout(io.StringIO())


def impl_classify(files):
    from gaddlemaps import _cli
    t, c = _cli.classify_files(files)
    return sorted(set(t)), sorted(set(c))


def impl_sort(ref, files, known, order=None, cwd=None):
    """run sort_molecules; `order` (a list of file names) forces the iteration order of the two candidate sets.
    Returns ('ok', [(name, innerdict)...]) | ('oserror', msg) | ('exc', class, msg)"""
    from gaddlemaps import _cli
    real = _cli.classify_files
    if order is not None:
        rank = {}
        for i, f in enumerate(order):
            rank.setdefault(f, i)

        def fake(fs):
            t, c = real(fs)
            return (sorted(set(t), key=lambda x: rank.get(x, 10 ** 6)), sorted(set(c), key=lambda x: rank.get(x, 10 ** 6)))
        _cli.classify_files = fake
    oldcwd = os.getcwd()
    try:
        if cwd:
            os.chdir(cwd)
        with warnings.catch_warnings():
            warnings.simplefilter("ignore")
            with _quiet():
                r = _cli.sort_molecules(ref, list(files), [list(k) for k in known])
        return ("ok", [(n, dict(v)) for n, v in r.items()])
    except OSError as e:
        return ("oserror", str(e)[:200])
    except Exception as e:      # noqa: any other class is an observation too
        return ("exc", type(e).__name__, str(e)[:200])
    finally:
        os.chdir(oldcwd)
        _cli.classify_files = real


def canon(obs):
    if obs[0] != "ok":
        return (obs[0],) + tuple(obs[1:2] if obs[0] == "exc" else ())
    return ("ok", tuple((n, v.get("top_CG"), v.get("top_AA"), v.get("coor_AA"), len(v)) for n, v in obs[1]))


def coq_obs(c):
    if c[0] == "oserror":
        return "None"
    if c[0] != "ok":
        return None

    def o(x):
        return "None" if x is None else "(Some %s)" % coq_str(x)
    return "(Some %s)" % coq_list(["(%s, (%s, %s, %s, %d))" % (coq_str(n), o(a), o(b), o(cc), ln) for n, a, b, cc, ln in c[1]])


HASH_SCRIPT = r'''
import json, sys, warnings, io, contextlib
warnings.filterwarnings("ignore")
from gaddlemaps import _cli
jobs = json.load(open(sys.argv[1]))
out = []
import os
home = os.getcwd()
for j in jobs:
    os.chdir(j.get("cwd") or home)
    try:
        with contextlib.redirect_stdout(io.StringIO()):
            r = _cli.sort_molecules(j["ref"], j["files"], j["known"])
        out.append(["ok", [[n, dict(v)] for n, v in r.items()]])
    except OSError as e:
        out.append(["oserror", str(e)[:200]])
    except Exception as e:
        out.append(["exc", type(e).__name__, str(e)[:200]])
print("RESULT" + json.dumps(out))
'''


def run_hashseeds(jobs, seeds):
    """{seed: [obs per job]} from subprocesses running the unpatched code"""
    d = os.path.join(root(), "hs")
    os.makedirs(d, exist_ok=True)
    jf = os.path.join(d, "jobs.json")
    with open(jf, "w") as f:
        json.dump(jobs, f)
    sf = os.path.join(d, "hs.py")
    with open(sf, "w") as f:
        f.write(HASH_SCRIPT)
    procs = []
    for s in seeds:
        env = dict(os.environ)
        env.update(lib.impl_env(str(s)))
        procs.append((s, subprocess.Popen([lib.PY, sf, jf], stdout=subprocess.PIPE, stderr=subprocess.STDOUT,
                                          universal_newlines=True, env=env)))
    res = {}
    for s, p in procs:
        try:
            out, _ = p.communicate(timeout=900)
        except subprocess.TimeoutExpired:
            p.kill()
            out = ""
        line = [l for l in out.splitlines() if l.startswith("RESULT")]
        if p.returncode != 0 or not line:
            res[s] = [("exc", "SubprocessFailed", out[-300:])] * len(jobs)
        else:
            res[s] = [(o[0], [(n, v) for n, v in o[1]]) if o[0] == "ok" else tuple(o) for o in json.loads(line[-1][6:])]
    return res


MAIN_SCRIPT = r'''
import json, sys, os, io, contextlib, warnings, hashlib
warnings.filterwarnings("ignore")
import numpy as np
from gaddlemaps import _cli, Alignment
jobs = json.load(open(sys.argv[1]))
hs = os.environ.get("PYTHONHASHSEED", "x")
home = os.getcwd()
real_auto_map = _cli.auto_map
out = []
def quiet():
    return contextlib.redirect_stdout(io.StringIO())
for j in jobs:
    os.chdir(j.get("cwd") or home)
    res = {}
    calls = []
    def rec(init, species, scale=0.5, outfile=None):
        calls.append([list(s) for s in species])
    _cli.auto_map = rec
    sys.argv = ["gaddlemaps"] + j["argv"]
    try:
        with quiet(), contextlib.redirect_stderr(io.StringIO()):
            _cli.main()
        res["molecules"] = calls[0] if len(calls) == 1 else None
    except (Exception, SystemExit) as e:
        res["exc"] = type(e).__name__ + ": " + str(e)[:200]
    _cli.auto_map = real_auto_map
    if j.get("real") and "exc" not in res:
        outp = j["out"] + ".hs" + hs + ".gro"
        sys.argv = ["gaddlemaps"] + j["argv"] + ["-o", outp]
        Alignment.STEPS_FACTOR = j["steps"]
        np.random.seed(j["seed"])
        try:
            with quiet(), contextlib.redirect_stderr(io.StringIO()):
                _cli.main()
            res["digest"] = hashlib.sha256(open(outp, "rb").read()).hexdigest()
        except (Exception, SystemExit) as e:
            res["exc_real"] = type(e).__name__ + ": " + str(e)[:200]
    out.append(res)
print("RESULT" + json.dumps(out))
'''


def run_main_hash(jobs, seeds):
    """{hash seed: [result per job]}: main() in subprocesses (unpatched code) - the molecule list handed to auto_map and,
    for real jobs, the sha256 of the written file (numpy seed fixed, STEPS_FACTOR lowered)"""
    d = os.path.join(root(), "mh")
    os.makedirs(d, exist_ok=True)
    jf = os.path.join(d, "jobs_%d.json" % len(os.listdir(d)))
    with open(jf, "w") as f:
        json.dump(jobs, f)
    sf = os.path.join(d, "mh.py")
    with open(sf, "w") as f:
        f.write(MAIN_SCRIPT)
    procs = []
    for s_ in seeds:
        env = dict(os.environ)
        env.update(lib.impl_env(str(s_)))
        procs.append((s_, subprocess.Popen([lib.PY, sf, jf], stdout=subprocess.PIPE, stderr=subprocess.STDOUT,
                                           universal_newlines=True, env=env, cwd=d)))
    res = {}
    for s_, p in procs:
        try:
            out, _ = p.communicate(timeout=1800)
        except subprocess.TimeoutExpired:
            p.kill()
            out = ""
        line = [l for l in out.splitlines() if l.startswith("RESULT")]
        if p.returncode != 0 or not line:
            res[s_] = [{"exc": "SubprocessFailed: " + out[-300:]}] * len(jobs)
        else:
            res[s_] = json.loads(line[-1][6:])
    return res


def file_digest(path):
    import hashlib
    with open(path, "rb") as f:
        return hashlib.sha256(f.read()).hexdigest()


def main_hash_job(desc, d, mol_names, auto_entries, exclude, scale, real, seed=0, steps=5, triples=None, tag="gen"):
    """description of one main() call to be made under several hash seeds (paths absolute unless the listing has
    relative spellings, then the process runs inside the directory)"""
    absd = os.path.abspath(d)
    mol = [[os.path.join(absd, x) for x in t] for t in mol_names]
    auto = [spell(absd, e) for e in auto_entries]
    ref = os.path.join(absd, desc["ref"])
    os.makedirs(os.path.join(absd, "outdir"), exist_ok=True)
    return {"argv": build_argv(ref, mol, auto, exclude, None, scale), "real": bool(real), "seed": seed, "steps": steps,
            "cwd": absd if any(e[:4] in ("REL:", "DOT:") for e in auto_entries) else None,
            "out": os.path.join(absd, "outdir", "hash_%s" % tag),
            "_meta": {"kind": "main_hash", "desc": desc, "mol_names": mol_names, "auto": auto_entries, "exclude": exclude,
                      "scale": scale, "real": bool(real), "seed": seed, "steps": steps, "triples": triples},
            "_d": absd, "_mol": mol, "_auto": auto, "_ref": ref}


def main_hash_eval(ctx, W, job, results):
    """results: [(hash seed, result)] for one job.  K: the ordered molecule list against the model under every seed.
    S: same list and same bytes for every hash seed; content as the property says; bytes = library workflow."""
    desc, d, meta = job["_meta"]["desc"], job["_d"], job["_meta"]
    mol, auto, exclude, scale = job["_mol"], job["_auto"], meta["exclude"], meta["scale"]
    bad = []
    ctx.cov["K"]["main_hash_runs"] = ctx.cov["K"].get("main_hash_runs", 0) + len(results)
    ctx.count(("main_hash", json.dumps(meta, sort_keys=True, default=str)), True)
    lists = {}
    for hs_, r in results:
        if "exc" in r or r.get("molecules") is None:
            bad.append("PYTHONHASHSEED=%s: main() raised %s" % (hs_, r.get("exc")))
            continue
        lists.setdefault(json.dumps(r["molecules"]), []).append(hs_)
    if len(lists) > 1:
        bad.append("the molecule list handed to auto_map depends on the hash seed: " +
                   "; ".join("seeds %s -> %s" % (v, [os.path.basename(t[0]) for t in json.loads(k)]) for k, v in lists.items()))
    if desc is not None:
        stream, tbl, pairs = model_tables(desc, d)
        for k in lists:
            W.add("chk_main %s %s %s %s %s %s %s" % (
                stream, tbl, pairs, coq_opt(mol if mol else None, coq_triples), coq_opt(auto, coq_strs),
                coq_opt(exclude, coq_strs), "(Some %s)" % coq_triples(json.loads(k))), meta)
        if lists:
            first = json.loads(next(iter(lists)))
            bad += oracle_main_record(desc, d, mol, True, exclude, None, scale,
                                      ("ok", {"molecules": first, "outfile": None, "scale": 0.5 if scale is None else scale,
                                              "init": os.path.join(d, desc["ref"])}))
    if meta["real"]:
        digs = {}
        for hs_, r in results:
            if "exc_real" in r:
                bad.append("PYTHONHASHSEED=%s: main() raised %s" % (hs_, r["exc_real"]))
            elif "digest" in r:
                digs.setdefault(r["digest"], []).append(hs_)
        if len(digs) > 1:
            bad.append("same command line, same numpy seed %d: the written file differs between hash seeds %s" %
                       (meta["seed"], sorted(digs.values())))
        if digs and lists and not bad:
            # the library workflow for the same molecules (explicit ones, then the discovered ones)
            mols = [tuple(t) for t in json.loads(next(iter(lists)))]
            nexp = len(mol)
            lib_out = job["out"] + ".library.gro"
            same = False
            for perm in itertools.permutations(mols[nexp:]):
                library_workflow(job["_ref"], mols[:nexp] + list(perm), 0.5 if scale is None else scale, lib_out,
                                 meta["seed"], meta["steps"], cwd=job.get("cwd"))
                if file_digest(lib_out) in digs:
                    same = True
                    break
            if not same:
                bad.append("output differs from the library workflow (seed %d) for molecules %s" % (meta["seed"], mols))
    if bad:
        ctx.violation("main() under hash seeds: " + "; ".join(bad[:4]), meta, key="main_hash")
    return bad


class Recorder:
    def __init__(self):
        self.calls = []

    def __call__(self, init, species, scale=0.5, outfile=None):
        self.calls.append({"init": init, "molecules": [list(s) for s in species], "scale": scale, "outfile": outfile})


def impl_main_record(argv, cwd=None):
    """main() with auto_map replaced by a recorder: ('ok', call) | ('oserror',..) | ('exc', cls, msg) | ('exit', code)"""
    from gaddlemaps import _cli
    real = _cli.auto_map
    rec = Recorder()
    _cli.auto_map = rec
    old = sys.argv
    sys.argv = ["gaddlemaps"] + list(argv)
    oldcwd = os.getcwd()
    try:
        if cwd:
            os.chdir(cwd)
        with warnings.catch_warnings():
            warnings.simplefilter("ignore")
            with _quiet(), contextlib.redirect_stderr(io.StringIO()):
                _cli.main()
        if len(rec.calls) != 1:
            return ("exc", "NoSingleCall", str(len(rec.calls)))
        return ("ok", rec.calls[0])
    except OSError as e:
        return ("oserror", str(e)[:200])
    except SystemExit as e:
        return ("exit", str(e.code))
    except Exception as e:      # noqa
        return ("exc", type(e).__name__, str(e)[:200])
    finally:
        os.chdir(oldcwd)
        sys.argv = old
        _cli.auto_map = real


def impl_main_real(argv, seed, steps, cwd=None):
    """the real main(): returns (status, recorded extrapolate paths, stdout)"""
    from gaddlemaps import _cli, Manager, Alignment
    real_ex = Manager.extrapolate_system
    paths = []

    def wrapper(self, fgro_out):
        paths.append(fgro_out)
        return real_ex(self, fgro_out)
    Manager.extrapolate_system = wrapper
    old_steps = Alignment.STEPS_FACTOR
    Alignment.STEPS_FACTOR = steps
    old = sys.argv
    sys.argv = ["gaddlemaps"] + list(argv)
    oldcwd = os.getcwd()
    buf = io.StringIO()
    try:
        if cwd:
            os.chdir(cwd)
        np.random.seed(seed)
        with warnings.catch_warnings():
            warnings.simplefilter("ignore")
            with contextlib.redirect_stdout(buf), contextlib.redirect_stderr(io.StringIO()):
                _cli.main()
        return ("ok", paths, buf.getvalue())
    except Exception as e:      # noqa
        return ("exc:" + type(e).__name__ + ": " + str(e)[:200], paths, buf.getvalue())
    finally:
        os.chdir(oldcwd)
        sys.argv = old
        Manager.extrapolate_system = real_ex
        Alignment.STEPS_FACTOR = old_steps


def library_workflow(ref, triples, scale, out, seed, steps, cwd=None):
    """the documented library workflow for the same molecules (property text)"""
    from gaddlemaps import Manager, Alignment
    from gaddlemaps.components import Molecule
    old_steps = Alignment.STEPS_FACTOR
    Alignment.STEPS_FACTOR = steps
    oldcwd = os.getcwd()
    try:
        if cwd:
            os.chdir(cwd)
        np.random.seed(seed)
        with warnings.catch_warnings():
            warnings.simplefilter("ignore")
            with _quiet():
                from gaddlemaps.components import MoleculeTop
                ends = [(MoleculeTop(t[0]).name, Molecule.from_files(t[1], t[2])) for t in triples]
                man = Manager.from_files(ref, *[t[0] for t in triples])
                for start_name, end_mol in ends:
                    # the pairing of an explicit triple is given by the triple (the end topology may declare another
                    # molecule name): Manager docstring, `molecule_correspondence[name].end = molecule`
                    man.molecule_correspondence[start_name].end = end_mol
                man.align_molecules()
                man.calculate_exchange_maps(scale)
                man.extrapolate_system(out)
    finally:
        os.chdir(oldcwd)
        Alignment.STEPS_FACTOR = old_steps


# =================================================================== S oracles (property text)
def oracle_discovery(desc, d, known, observations):
    """observations: list of (label, obs).  Returns list of failed clauses."""
    bad = []
    exp, known_species, ambiguous = expected_discovery(desc, d, known)
    known_files = set()
    for k in known:
        known_files |= {os.path.realpath(x) for x in k}
    first = None
    for label, obs in observations:
        if obs[0] != "ok":
            bad.append("%s: discovery raised %s" % (label, " ".join(map(str, obs[:3]))))
            continue
        got = {n: v for n, v in obs[1]}
        if first is None:
            first = (label, got)
        elif got != first[1]:
            bad.append("result depends on the order/hash seed: %s gives %s, %s gives %s" % (first[0], first[1], label, got))
        for n, v in got.items():
            for key, fn in v.items():
                if os.path.realpath(os.path.join(d, fn)) in known_files:
                    bad.append("%s: file %s of an explicitly given species re-added under %s" % (label, fn, n))
            if n in known_species:
                bad.append("%s: explicitly given species %s re-added" % (label, n))
        for n, opts in exp.items():
            if n not in got:
                bad.append("%s: species %s not discovered" % (label, n))
            elif got[n] not in opts:
                bad.append("%s: species %s assigned %s, its files are %s" % (label, n, got[n], opts[0]))
        for n, amb in ambiguous.items():
            # several candidates for one role: which one wins is not prescribed, only that they are this species' files
            names = [x for x in [n] + sorted(amb.get("aliases", ())) if x in got]
            if not names:
                bad.append("%s: species %s not discovered" % (label, n))
                continue
            v = got[names[0]]
            if v.get("top_CG") not in amb["tops"] or ("top_AA" in v and v["top_AA"] not in amb["tops"]) or \
                    ("coor_AA" in v and v["coor_AA"] not in amb["coords"]) or v.get("top_AA") == v.get("top_CG"):
                bad.append("%s: species %s assigned %s, its candidate topologies are %s" % (label, n, v, sorted(amb["tops"])))
        for n in got:
            if n not in exp and n not in known_species and n not in ambiguous and \
                    not any(n in a.get("aliases", ()) for a in ambiguous.values()):
                bad.append("%s: unexpected species %s: %s" % (label, n, got[n]))
        if len(bad) > 6:
            break
    return bad


def expected_main(desc, d, mol, use_auto, exclude):
    """(list of acceptable triple lists, one per species that must be added; candidate sets of ambiguous species that
    may be added at most once)"""
    if not use_auto:
        return [], []
    exp, _, ambiguous = expected_discovery(desc, d, mol)
    out, optional = [], []
    for n, opts in exp.items():
        if exclude is not None and n in exclude:
            continue
        full = [o for o in opts if len(o) == 3]
        if full and len(full) < len(opts) and any("top_AA" in o and o not in full for o in opts):
            optional.append({"tops": {o["top_CG"] for o in full} | {o["top_AA"] for o in full},
                             "coords": {o["coor_AA"] for o in full}})
        elif full:
            out.append([(o["top_CG"], o["coor_AA"], o["top_AA"]) for o in full])
    amb = optional + [a for n, a in ambiguous.items() if not (exclude is not None and n in exclude)]
    return out, amb


def oracle_main_record(desc, d, mol, use_auto, exclude, outfile, scale, obs):
    if obs[0] != "ok":
        return ["main raised %s" % " ".join(map(str, obs[:3]))]
    call = obs[1]
    bad = []
    got = [tuple(m) for m in call["molecules"]]
    if got[:len(mol)] != [tuple(m) for m in mol]:
        bad.append("explicit triples changed: %s" % (got[:len(mol)],))
    rest = got[len(mol):]
    exp, amb = expected_main(desc, d, mol, use_auto, exclude)
    hits = [0] * len(amb)
    for t in rest:
        if any(t in opts for opts in exp):
            continue
        k = [i for i, a in enumerate(amb) if t[0] in a["tops"] and t[2] in a["tops"] and t[1] in a["coords"]]
        if k:
            hits[k[0]] += 1
        else:
            bad.append("triple %s added; expected one of %s" % (t, exp))
    if any(h > 1 for h in hits):
        bad.append("a species with several candidates was added more than once: %s" % (rest,))
    for opts in exp:
        if sum(1 for t in rest if t in opts) != 1:
            bad.append("species with files %s not added exactly once" % (opts[0],))
    if call["outfile"] != outfile:
        bad.append("outfile %r passed as %r" % (outfile, call["outfile"]))
    if call["scale"] != (0.5 if scale is None else scale):
        bad.append("scale %r passed as %r" % (scale, call["scale"]))
    if call["init"] != os.path.join(d, desc["ref"]):
        bad.append("reference passed as %r" % call["init"])
    return bad


# =================================================================== argv builders
def build_argv(init, mol, auto, exclude, outfile, scale):
    argv = [init]
    for m in mol:
        argv += ["--mol"] + list(m)
    if auto is not None:
        argv += ["--auto"] + list(auto)
    if exclude is not None:
        argv += ["--exclude"] + list(exclude)
    if outfile is not None:
        argv += ["-o", outfile]
    if scale is not None:
        argv += ["--scale", repr(scale)]
    return argv


def coq_triples(ts):
    return coq_list(["(%s, %s, %s)" % tuple(coq_str(x) for x in t) for t in ts])


def coq_opt(x, f):
    return "None" if x is None else "(Some %s)" % f(x)


def coq_strs(l):
    return coq_list([coq_str(x) for x in l])


# =================================================================== the check
class Work:
    """accumulates K cases with their meta data"""
    def __init__(self):
        self.cases, self.meta = [], []

    def add(self, term, meta):
        self.cases.append(term)
        self.meta.append(meta)


def gen_paths(rs, n):
    comps = ["a", "dir", "x.itp", "y.gro", "data.d", "..", ".", "sub"]
    names = ["m.itp", "m.gro", "M.ITP", "M.GRO", "m.Itp", "itp", "gro", "m.itp.bak", "m.gro~", "m.", ".itp", ".gro",
             "a.b.itp", "a.itp.gro", "a.gro.itp", "noext", "m.top", "m.pdb", "m.itp ", "", "x.itpx", "x.xitp"]
    out = []
    for _ in range(n):
        k = int(rs.randint(0, 4))
        parts = [comps[int(rs.randint(0, len(comps)))] for _ in range(k)]
        p = "/".join(parts + [names[int(rs.randint(0, len(names)))]])
        if rs.randint(0, 3) == 0:
            p = "/" + p
        out.append(p)
    return out


def perms_for(ctx, rs, files):
    """permutations (as index lists) of the distinct candidate files: all when few, sampled otherwise"""
    n = len(files)
    limit = ctx.n(5, 6)
    if n <= limit:
        return [list(p) for p in itertools.permutations(range(n))], True
    k = ctx.n(10, 40)
    out = [list(range(n)), list(range(n - 1, -1, -1))]
    # sorted and reverse-sorted orders are the two extremes for a scan that sorts (or forgets to)
    srt = sorted(range(n), key=lambda i: files[i])
    out += [srt, srt[::-1]]
    for _ in range(k):
        out.append([int(i) for i in rs.permutation(n)])
    return out, False


def discovery_case(ctx, W, desc, d, rs, hash_obs=None, tag="gen"):
    """run sort_molecules under permutations (+ given hash-seed observations), add one K case, run S.
    Returns the list of failed clauses of the oracle."""
    ref = os.path.join(d, desc["ref"])
    files = [spell(d, e) for e in desc["auto"]]
    known = [[os.path.join(d, x) for x in k] for k in desc["known"]]
    cwd = d if needs_cwd(desc) else None
    base = list(dict.fromkeys(files))
    perms, exhaustive = perms_for(ctx, rs, base)
    groups = {}
    observations = []
    for p in perms:
        order = [base[i] for i in p]
        # the listing keeps its duplicates; the forced set order follows the permutation
        listing = order + [f for f in files if files.count(f) > 1 and rs.randint(0, 2)]
        obs = impl_sort(ref, listing, known, order=order, cwd=cwd)
        c = canon(obs)
        groups.setdefault(c, []).append(p)
        observations.append(("order %s" % [short(d, x) for x in order], obs))
    ident = list(range(len(base)))
    for seed, obs in (hash_obs or []):
        c = canon(obs)
        groups.setdefault(c, []).append(ident)
        observations.append(("PYTHONHASHSEED=%s" % seed, obs))
    e3 = expected_discovery(desc, d, known)
    discoverable = bool(e3[0]) or bool(e3[2])
    ctx.count((json.dumps(desc, sort_keys=True), len(perms)), discoverable)
    K = ctx.cov["K"]
    K["sort_runs"] = K.get("sort_runs", 0) + len(observations)
    K["dirs_exhaustive" if exhaustive else "dirs_sampled"] = K.get("dirs_exhaustive" if exhaustive else "dirs_sampled", 0) + 1
    meta = {"kind": "discovery", "desc": desc, "tag": tag}
    stream, tbl, pairs = model_tables(desc, d)
    gterms = []
    unencodable = False
    for c, ps in groups.items():
        o = coq_obs(c)
        if o is None:
            unencodable = True
            continue
        gterms.append("(%s, %s)" % (o, coq_list([coq_list(["%d" % i for i in p]) for p in ps])))
    W.add("chk_sort %s %s %s %s %s %s" % (stream, tbl, pairs, coq_strs(base), coq_triples(known), coq_list(gterms)), meta)
    bad = oracle_discovery(desc, d, known, observations)
    if unencodable and not bad:
        bad = ["sort_molecules raised a non-OSError exception: %s" % [c for c in groups if c[0] == "exc"]]
    if bad:
        ctx.violation("discovery: " + "; ".join(bad[:4]), meta, key="discovery")
    return bad


def exclusion_patterns(desc, d, mol):
    """--exclude lists worth trying: species that are adjacent / not adjacent in discovery order (= sorted start
    topology among the complete discovered species), all species, an explicitly given species among them"""
    exp, known_species, _ = expected_discovery(desc, d, mol)
    comp = sorted((min(o["top_CG"] for o in opts), n) for n, opts in exp.items() if any(len(o) == 3 for o in opts))
    comp = [n for _, n in comp]
    pats = [list(desc["in_system"]), list(desc["in_system"]) + ["SOL"]]
    for i in range(len(comp) - 1):
        pats.append(comp[i:i + 2])
        pats.append(comp[i:i + 2][::-1])
    if len(comp) >= 3:
        pats += [[comp[0], comp[-1]], comp[:], comp[::-1], comp[1:]]
    for n in sorted(known_species):
        pats += [[n] + comp[:2], comp[:2] + [n]]
    return [p_ for p_ in pats if p_]


def main_record_case(ctx, W, desc, d, rs):
    mol = [[os.path.join(d, x) for x in k] for k in desc["known"]]
    use_auto = bool(rs.randint(0, 5))
    u = int(rs.randint(0, 6))
    if u == 0:
        exclude = None
    elif u == 1:
        exclude = desc["exclude"]
    else:
        pats = exclusion_patterns(desc, d, mol)
        exclude = pats[int(rs.randint(0, len(pats)))]
    outfile = [None, os.path.join(d, "out.gro"), "rel_out.gro"][int(rs.randint(0, 3))]
    scale = [None, 0.5, 0.7, 1.0, 0.25, 1.6, 2.0][int(rs.randint(0, 7))]      # (0, 2]: also beyond 1 (seed C20-11)
    return main_record_fixed(ctx, W, desc, d, use_auto, exclude, outfile, scale)


def main_record_fixed(ctx, W, desc, d, use_auto, exclude, outfile, scale):
    ref = os.path.join(d, desc["ref"])
    files = [spell(d, e) for e in desc["auto"]]
    mol = [[os.path.join(d, x) for x in k] for k in desc["known"]]
    argv = build_argv(ref, mol, files if use_auto else None, exclude, outfile, scale)
    obs = impl_main_record(argv, cwd=d if needs_cwd(desc) else None)
    meta = {"kind": "main_record", "desc": desc, "use_auto": use_auto, "exclude": exclude, "outfile": outfile,
            "scale": scale}
    stream, tbl, pairs = model_tables(desc, d)
    if obs[0] == "ok":
        o = "(Some %s)" % coq_triples(obs[1]["molecules"])
    elif obs[0] == "oserror":
        o = "None"
    else:
        o = None
    if o is not None:
        W.add("chk_main %s %s %s %s %s %s %s" % (
            stream, tbl, pairs, coq_opt(mol if mol else None, coq_triples), coq_opt(files if use_auto else None, coq_strs),
            coq_opt(exclude, coq_strs), o), meta)
    bad = oracle_main_record(desc, d, mol, use_auto, exclude, outfile, scale, obs)
    ctx.count(("main", json.dumps(desc, sort_keys=True), use_auto, repr(exclude), outfile, scale), True)
    ctx.cov["K"]["main_record_runs"] = ctx.cov["K"].get("main_record_runs", 0) + 1
    if bad:
        ctx.violation("main(): " + "; ".join(bad[:4]), meta, key="main")
    return bad


def snapshot(dirs):
    out = {}
    for x in dirs:
        if os.path.isdir(x):
            for f in os.listdir(x):
                p = os.path.join(x, f)
                if os.path.isfile(p):
                    out[p] = (os.path.getsize(p), os.stat(p).st_mtime_ns)
    return out


def main_real_case(ctx, W, d, ref_name, mol_names, auto_names, exclude, out_mode, scale, init_form, seed, steps,
                   meta, all_species_triples):
    """one real run of main() against the library workflow.  Names are relative to the directory d.
    all_species_triples: {species name: (cg, coor, aa)} ground truth used to build the expected molecule list."""
    absd = os.path.abspath(d)
    parent, leaf = os.path.split(absd)
    cwd = None
    if init_form == "abs":
        pre = absd + "/"
    elif init_form == "dslash":
        pre = parent + "//" + leaf + "/"
    elif init_form == "rel":
        pre, cwd = "", absd
    elif init_form == "dotrel":
        pre, cwd = "./", absd
    else:            # relative with a directory component
        pre, cwd = leaf + "/", parent
    init = pre + ref_name
    mol = [[pre + x for x in t] for t in mol_names]
    auto = None if auto_names is None else [pre + ("./" + x[4:] if x.startswith("DOT:") else x) for x in auto_names]
    outdir = os.path.join(absd, "outdir")
    os.makedirs(outdir, exist_ok=True)
    if out_mode == "default":
        outfile = None
    elif out_mode == "abs":
        outfile = os.path.join(outdir, "requested.gro")
    else:
        outfile = pre + "outdir/req_rel.gro"
    for stale in (os.path.join(absd, "mapped_" + ref_name), os.path.join(outdir, "requested.gro"),
                  os.path.join(outdir, "req_rel.gro")):
        if os.path.exists(stale):
            os.remove(stale)
    before = snapshot([absd, outdir])
    argv = build_argv(init, mol, auto, exclude, outfile, scale)
    scratch_cwd = os.path.join(root(), "cwd")       # absolute forms run from a scratch directory
    os.makedirs(scratch_cwd, exist_ok=True)
    status, paths, stdout = impl_main_real(argv, seed, steps, cwd=cwd or scratch_cwd)
    after = snapshot([absd, outdir])
    new = sorted(p for p in after if p not in before or before[p] != after[p])
    bad = []
    meta = dict(meta, argv=argv, cwd=cwd, params={"ref_name": ref_name, "mol_names": mol_names, "auto_names": auto_names,
                                                   "exclude": exclude, "out_mode": out_mode, "scale": scale,
                                                   "init_form": init_form, "seed": seed, "steps": steps,
                                                   "all_species_triples": all_species_triples})
    ctx.cov["K"]["main_real_runs"] = ctx.cov["K"].get("main_real_runs", 0) + 1
    ctx.count(("real", json.dumps(meta, sort_keys=True, default=str)), True)
    if status != "ok":
        bad.append("main() raised " + status)
    else:
        # where: requested path, or mapped_<input name> beside the input (property text)
        if outfile is None:
            want = os.path.join(absd, "mapped_" + ref_name)
        else:
            want = os.path.normpath(outfile if os.path.isabs(outfile) else os.path.join(cwd, outfile))
        if new != [want]:
            bad.append("output written to %s, expected %s" % (new, want))
        if len(paths) == 1:
            W.add("chk_out %s %s %s" % (coq_opt(outfile, coq_str), coq_str(init), coq_str(paths[0])), meta)
        else:
            bad.append("extrapolate_system called %d times" % len(paths))
        # what: the library workflow with the same molecules, seed and scale
        if not bad:
            sc = 0.5 if scale is None else scale
            explicit = [tuple(m) for m in mol]
            disc = []
            if auto is not None:
                given = {os.path.basename(m[0]) for m in mol_names}
                for n, t in all_species_triples.items():
                    if exclude is not None and n in exclude:
                        continue
                    if t[0] in given or not all(x in auto_names for x in t):
                        continue
                    disc.append(tuple(pre + x for x in t))
                disc.sort()
            lib_out = os.path.join(outdir, "library.gro")
            tried = []
            same = False
            for perm in itertools.permutations(disc):
                if os.path.exists(lib_out):
                    os.remove(lib_out)
                triples = explicit + list(perm)
                library_workflow(init, triples, sc, os.path.join(pre + "outdir", "library.gro") if cwd else lib_out,
                                 seed, steps, cwd=cwd or scratch_cwd)
                tried.append(triples)
                if filecmp.cmp(want, lib_out, shallow=False):
                    same = True
                    break
            if not same:
                bad.append("output differs from the library workflow (seed %d, scale %r) for molecules %s" % (seed, sc, tried[0]))
            if os.path.getsize(want) == 0:
                bad.append("empty output")
    if bad:
        ctx.violation("command line vs library: " + "; ".join(bad[:4]), meta, key="cli_vs_library")
    return bad


SHIPPED = {"BMIM": ("BMIM_CG.itp", "BMIM_AA.gro", "BMIM_AA.itp"), "BF4": ("BF4_CG.itp", "BF4_AA.gro", "BF4_AA.itp")}


def shipped_dir():
    """a scratch copy of the shipped BMIM/BF4 set (the default output goes beside the input)"""
    src = os.path.join(lib.REPO, "gaddlemaps", "data")
    d = os.path.join(root(), "shipped")
    if not os.path.isdir(d):
        os.makedirs(d)
        for f in ["system_bmimbf4_cg.gro", "BF4_CG.gro"] + [x for t in SHIPPED.values() for x in t]:
            shutil.copy(os.path.join(src, f), os.path.join(d, f))
        with open(os.path.join(d, "martini_ff.itp"), "w") as fh:
            fh.write("[ defaults ]\n1 1 no 1.0 1.0\n")
    return d


def shipped_discovery(ctx):
    """sort_molecules on the shipped set: every permutation of the 3-species... of the candidate list is too many
    (9 files): sampled orders + hash seeds; ground truth = the file names."""
    d = shipped_dir()
    ref = os.path.join(d, "system_bmimbf4_cg.gro")
    files = sorted(os.path.join(d, f) for f in os.listdir(d) if os.path.isfile(os.path.join(d, f)))
    rs = ctx.np_rng("shipped")
    want = {n: {"top_CG": os.path.join(d, t[0]), "coor_AA": os.path.join(d, t[1]), "top_AA": os.path.join(d, t[2])}
            for n, t in SHIPPED.items()}
    bad = []
    for k in range(ctx.n(12, 60)):
        order = [files[int(i)] for i in rs.permutation(len(files))]
        obs = impl_sort(ref, order, [], order=order)
        got = {n: v for n, v in obs[1]} if obs[0] == "ok" else obs
        if got != want:
            bad.append("order %s: %s" % ([os.path.basename(x) for x in order], got))
    jobs = [{"ref": ref, "files": files, "known": []},
            {"ref": ref, "files": files, "known": [[os.path.join(d, x) for x in SHIPPED["BF4"]]]}]
    for s, res in run_hashseeds(jobs, list(range(ctx.n(4, 16)))).items():
        got = {n: v for n, v in res[0][1]} if res[0][0] == "ok" else res[0]
        if got != want:
            bad.append("PYTHONHASHSEED=%s: %s" % (s, got))
        got = {n: v for n, v in res[1][1]} if res[1][0] == "ok" else res[1]
        if got != {"BMIM": want["BMIM"]}:
            bad.append("PYTHONHASHSEED=%s, BF4 explicit: %s" % (s, got))
    ctx.cov["S"]["shipped_discovery_runs"] = ctx.n(12, 60) + 2 * ctx.n(4, 16)
    ctx.count(("shipped-discovery",), True)
    if bad:
        ctx.violation("shipped BMIM/BF4 discovery: " + "; ".join(bad[:3]), {"kind": "shipped_discovery"}, key="discovery")
    return bad


def shipped_mapping(ctx, W):
    d = shipped_dir()
    steps = ctx.n(1, 5000)
    runs = [([SHIPPED["BMIM"], SHIPPED["BF4"]], None, None, "abs", 0.5, "abs"),
            ([SHIPPED["BF4"]], sorted(os.listdir(d)), None, "default", None, "rel")]
    if not ctx.quick:
        runs = [([SHIPPED["BMIM"], SHIPPED["BF4"]], None, None, "default", None, "abs")]
        steps_list = [5000]
    else:
        steps_list = [steps, steps]
    out = []
    for (mol, auto, excl, out_mode, scale, form), st in zip(runs, steps_list):
        auto_names = None if auto is None else [f for f in auto if os.path.isfile(os.path.join(d, f))] + \
            ["DOT:" + x for t in mol for x in t]
        out += main_real_case(ctx, W, d, "system_bmimbf4_cg.gro", [list(t) for t in mol], auto_names, excl, out_mode,
                              scale, form, 11, st, {"kind": "shipped_mapping"}, dict(SHIPPED))
    return out


# ------------------------------------------------------------------- corpus
def corpus_descs():
    """witnesses of the repaired defects (D11, F1 = hash-order scan, F3 = force-field include)"""
    na = {"name": "NA", "cg": [["NA", ["NA"]]], "aa": [["NA", ["NA"]]], "same_sig": True}
    mola = {"name": "MOLA", "cg": [["MOLA", ["B1", "B2"]]], "aa": [["MOLA", ["C1", "C2", "C3", "C4"]]], "same_sig": False}
    top = lambda f, m, r: {"name": f, "kind": "top", "mol": m, "res": r}      # noqa: E731
    coor = lambda f, m: {"name": f, "kind": "coor", "mols": [[m, "aa"]]}      # noqa: E731
    d11 = {"species": [mola, na], "in_system": ["MOLA", "NA"], "blocks": [["MOLA", 2], ["NA", 2]],
           "files": [top("MOLA_CG.itp", "MOLA", "cg"), top("MOLA_AA.itp", "MOLA", "aa"), coor("MOLA_AA.gro", "MOLA"),
                     top("NA_CG.itp", "NA", "cg"), coor("NA_AA.gro", "NA"), {"name": "system_cg.gro", "kind": "ref"}],
           "ref": "system_cg.gro", "auto": ["MOLA_CG.itp", "MOLA_AA.itp", "MOLA_AA.gro", "NA_CG.itp", "NA_AA.gro", "system_cg.gro"],
           "known": [], "exclude": None, "geom_seed": 1, "profile": "corpus-D11"}
    f1 = {"species": [mola, na], "in_system": ["MOLA", "NA"], "blocks": [["MOLA", 2], ["NA", 2]],
          "files": [top("MOLA_CG.itp", "MOLA", "cg"), top("MOLA_AA.itp", "MOLA", "aa"), coor("MOLA_AA.gro", "MOLA"),
                    top("NA_CG.itp", "NA", "cg"), top("NA_AA.itp", "NA", "aa"), coor("NA_AA.gro", "NA"),
                    {"name": "system_cg.gro", "kind": "ref"}],
          "ref": "system_cg.gro",
          "auto": ["MOLA_AA.gro", "MOLA_AA.itp", "MOLA_CG.itp", "NA_AA.gro", "NA_AA.itp", "NA_CG.itp", "system_cg.gro"],
          "known": [], "exclude": None, "geom_seed": 2, "profile": "corpus-F1"}
    f3 = {"species": [mola], "in_system": ["MOLA"], "blocks": [["MOLA", 2]],
          "files": [top("MOLA_CG.itp", "MOLA", "cg"), top("MOLA_AA.itp", "MOLA", "aa"), coor("MOLA_AA.gro", "MOLA"),
                    {"name": "martini.itp", "kind": "raw", "text": "[ defaults ]\n1 1 no 1.0 1.0\n"},
                    {"name": "empty.itp", "kind": "raw", "text": ""}, {"name": "system_cg.gro", "kind": "ref"}],
          "ref": "system_cg.gro", "auto": ["martini.itp", "MOLA_CG.itp", "MOLA_AA.itp", "MOLA_AA.gro", "empty.itp"],
          "known": [], "exclude": None, "geom_seed": 3, "profile": "corpus-F3"}
    # layout of the sub-folder project (cg/ aa/ old/ with equal base names, a superseded end-resolution version of one
    # species under the same molecule name): ordering by base name only leaves the ties to the set order
    m1 = {"name": "M1", "cg": [["M1", ["Q"]]], "aa": [["M1", ["B", "F1", "F2"]]], "same_sig": False}
    sub = {"species": [mola, m1], "in_system": ["MOLA", "M1"], "blocks": [["M1", 3], ["MOLA", 3]],
           "files": [top("cg/MOLA.itp", "MOLA", "cg"), top("cg/M1.itp", "M1", "cg"), top("aa/MOLA.itp", "MOLA", "aa"),
                     coor("aa/MOLA.gro", "MOLA"), top("aa/M1.itp", "M1", "aa"), coor("aa/M1.gro", "M1"),
                     top("old/MOLA.itp", "MOLA", "aa"), coor("old/MOLA.gro", "MOLA"),
                     {"name": "ff/forcefield.itp", "kind": "raw", "text": "[ defaults ]\n; nbfunc comb-rule\n  1  2\n"},
                     {"name": "notes.txt", "kind": "raw", "text": "not a simulation file\n"},
                     {"name": "system.gro", "kind": "ref"}],
           "ref": "system.gro",
           "auto": ["cg/MOLA.itp", "cg/M1.itp", "aa/MOLA.itp", "aa/MOLA.gro", "aa/M1.itp", "aa/M1.gro", "old/MOLA.itp",
                    "old/MOLA.gro", "ff/forcefield.itp", "notes.txt"],
           "known": [], "exclude": None, "geom_seed": 4, "profile": "corpus-subfolders"}
    # explicit species whose files are listed again under another spelling and as a copy (seeded C20-3 layout)
    resp = {"species": [mola, m1], "in_system": ["MOLA", "M1"], "blocks": [["M1", 2], ["MOLA", 2]],
            "files": [top("data/MOLA_CG.itp", "MOLA", "cg"), top("data/MOLA_AA.itp", "MOLA", "aa"),
                      coor("data/MOLA_AA.gro", "MOLA"), top("data/M1_CG.itp", "M1", "cg"), top("data/M1_AA.itp", "M1", "aa"),
                      coor("data/M1_AA.gro", "M1"), top("data/MOLA_CG_copy.itp", "MOLA", "cg"),
                      {"name": "data/system.gro", "kind": "ref"}],
            "ref": "data/system.gro",
            "auto": ["DOT:data/MOLA_CG.itp", "DOT:data/MOLA_AA.itp", "DOT:data/MOLA_AA.gro", "DOT:data/M1_CG.itp",
                     "DOT:data/M1_AA.itp", "DOT:data/M1_AA.gro", "DOT:data/system.gro", "data/MOLA_CG_copy.itp"],
            "known": [["data/MOLA_CG.itp", "data/MOLA_AA.gro", "data/MOLA_AA.itp"]], "exclude": None, "geom_seed": 5,
            "profile": "corpus-respelled-explicit"}
    # near-miss distractor sorting before the genuine start topology (seeded C20-4 layout: BF4_CG.alt.itp, molecule
    # TFB, bead B1 instead of Q01)
    tfb = {"name": "TFB", "cg": [["M1", ["B1"]]], "aa": [["M1", ["B1"]]], "same_sig": True}
    nm = {"species": [mola, m1, tfb], "in_system": ["MOLA", "M1"], "blocks": [["M1", 2], ["MOLA", 2]],
          "files": [top("MOLA_CG.itp", "MOLA", "cg"), top("MOLA_AA.itp", "MOLA", "aa"), coor("MOLA_AA.gro", "MOLA"),
                    top("M1_CG.itp", "M1", "cg"), top("M1_AA.itp", "M1", "aa"), coor("M1_AA.gro", "M1"),
                    top("M1_CG.alt.itp", "TFB", "cg"), {"name": "system.gro", "kind": "ref"}],
          "ref": "system.gro",
          "auto": ["M1_AA.gro", "M1_AA.itp", "M1_CG.alt.itp", "M1_CG.itp", "MOLA_AA.gro", "MOLA_AA.itp", "MOLA_CG.itp",
                   "system.gro"],
          "known": [], "exclude": None, "geom_seed": 6, "profile": "corpus-nearmiss"}
    # three complete species, --exclude naming two that are consecutive in discovery order / all of them (seeded C20-5)
    m2 = {"name": "M2", "cg": [["M2", ["P"]]], "aa": [["M2", ["P", "F1", "F2", "F3"]]], "same_sig": False}
    exc = {"species": [mola, m1, m2], "in_system": ["MOLA", "M1", "M2"], "blocks": [["M1", 2], ["MOLA", 2], ["M2", 2]],
           "files": [top("MOLA_CG.itp", "MOLA", "cg"), top("MOLA_AA.itp", "MOLA", "aa"), coor("MOLA_AA.gro", "MOLA"),
                     top("M1_CG.itp", "M1", "cg"), top("M1_AA.itp", "M1", "aa"), coor("M1_AA.gro", "M1"),
                     top("M2_CG.itp", "M2", "cg"), top("M2_AA.itp", "M2", "aa"), coor("M2_AA.gro", "M2"),
                     {"name": "notes.txt", "kind": "raw", "text": "x\n"}, {"name": "system.gro", "kind": "ref"}],
           "ref": "system.gro",
           "auto": ["MOLA_CG.itp", "MOLA_AA.itp", "MOLA_AA.gro", "M1_CG.itp", "M1_AA.itp", "M1_AA.gro", "M2_CG.itp",
                    "M2_AA.itp", "M2_AA.gro", "notes.txt", "system.gro"],
           "known": [], "exclude": None, "geom_seed": 7, "profile": "corpus-exclude-adjacent",
           "main_cases": [["M1", "M2"], ["M2", "MOLA"], ["MOLA", "M2"], ["M1", "M2", "MOLA"], ["M1"], ["M1", "MOLA"]],
           "hash_cases": [["M2"], ["NOPE"]]}
    # explicit triple whose end topology declares another molecule name than its start topology (seeded C20-6)
    ren = {"name": "RENMOLA", "cg": mola["aa"], "aa": mola["aa"], "same_sig": True}
    rend = {"species": [mola, m1, ren], "in_system": ["MOLA", "M1"], "blocks": [["M1", 2], ["MOLA", 2]],
            "files": [top("MOLA_CG.itp", "MOLA", "cg"), top("MOLA_AA.itp", "MOLA", "aa"), coor("MOLA_AA.gro", "MOLA"),
                      top("MOLA_AA_renamed.itp", "RENMOLA", "aa"),
                      top("M1_CG.itp", "M1", "cg"), top("M1_AA.itp", "M1", "aa"), coor("M1_AA.gro", "M1"),
                      {"name": "system.gro", "kind": "ref"}],
            "ref": "system.gro", "auto": ["M1_CG.itp", "M1_AA.itp", "M1_AA.gro", "system.gro"],
            "known": [], "exclude": None, "geom_seed": 8, "profile": "corpus-renamed-end",
            "real_cases": [{"mol": [["M1_CG.itp", "M1_AA.gro", "M1_AA.itp"], ["MOLA_CG.itp", "MOLA_AA.gro", "MOLA_AA_renamed.itp"]],
                            "auto": None, "scale": 0.7, "out_mode": "abs"},
                           {"mol": [["MOLA_CG.itp", "MOLA_AA.gro", "MOLA_AA_renamed.itp"]],
                            "auto": ["M1_CG.itp", "M1_AA.itp", "M1_AA.gro", "system.gro"], "scale": None, "out_mode": "default"}],
            "triples": {"MOLA": ["MOLA_CG.itp", "MOLA_AA.gro", "MOLA_AA.itp"], "M1": ["M1_CG.itp", "M1_AA.gro", "M1_AA.itp"]}}
    # a united-atom topology that declares the species' molecule name and sorts after its genuine end topology
    # (seeded C20-10 layout: BMIM_UA.itp next to BMIM_AA.itp, forcefield.itp, notes.txt, a start-resolution BF4_CG.gro)
    ua = {"name": "UA_MOLA", "molname": "MOLA", "cg": [["MOLA", ["C1", "C2", "C3", "C4", "U0"]]],
          "aa": [["MOLA", ["C1", "C2", "C3", "C4", "U0"]]], "same_sig": True}
    snm = {"species": [mola, m1, ua], "in_system": ["MOLA", "M1"], "blocks": [["MOLA", 2], ["M1", 2]],
           "files": [top("MOLA_CG.itp", "MOLA", "cg"), top("MOLA_AA.itp", "MOLA", "aa"), coor("MOLA_AA.gro", "MOLA"),
                     top("MOLA_UA.itp", "UA_MOLA", "aa"),
                     top("M1_CG.itp", "M1", "cg"), top("M1_AA.itp", "M1", "aa"), coor("M1_AA.gro", "M1"),
                     {"name": "M1_CG.gro", "kind": "coor", "mols": [["M1", "cg"]]},
                     {"name": "forcefield.itp", "kind": "raw", "text": "[ defaults ]\n1 1 no 1.0 1.0\n"},
                     {"name": "notes.txt", "kind": "raw", "text": "x\n"}, {"name": "system.gro", "kind": "ref"}],
           "ref": "system.gro",
           "auto": ["M1_AA.gro", "M1_AA.itp", "M1_CG.gro", "M1_CG.itp", "MOLA_AA.gro", "MOLA_AA.itp", "MOLA_CG.itp",
                    "MOLA_UA.itp", "forcefield.itp", "notes.txt"],
           "known": [], "exclude": None, "geom_seed": 9, "profile": "corpus-same-name-model", "main_cases": [["NOPE"]]}
    # a file with two end-resolution molecules that sorts before the species' single-molecule file (seeded C20-7 layout:
    # AA_pair.gro next to BMIM_AA.gro)
    pair = {"species": [mola, m1], "in_system": ["MOLA", "M1"], "blocks": [["MOLA", 2], ["M1", 2]],
            "files": [top("MOLA_CG.itp", "MOLA", "cg"), top("MOLA_AA.itp", "MOLA", "aa"), coor("MOLA_AA.gro", "MOLA"),
                      {"name": "AA_pair.gro", "kind": "coor", "mols": [["MOLA", "aa"], ["MOLA", "aa"]]},
                      top("M1_CG.itp", "M1", "cg"), top("M1_AA.itp", "M1", "aa"), coor("M1_AA.gro", "M1"),
                      {"name": "system.gro", "kind": "ref"}],
            "ref": "system.gro",
            "auto": ["AA_pair.gro", "M1_AA.gro", "M1_AA.itp", "M1_CG.itp", "MOLA_AA.gro", "MOLA_AA.itp",
                     "MOLA_CG.itp", "system.gro"],
            "known": [], "exclude": None, "geom_seed": 10, "profile": "corpus-multi-molecule-coordinates"}
    return [d11, f1, f3, sub, resp, nm, exc, rend, snm, pair]


def hash_jobs(items):
    return [{"ref": os.path.join(d, desc["ref"]), "files": [spell(d, e) for e in desc["auto"]],
             "known": [[os.path.join(d, x) for x in k] for k in desc["known"]],
             "cwd": d if needs_cwd(desc) else None} for desc, d in items]


def corpus(ctx):
    S = ctx.cov["S"]
    S["corpus"] = 0
    ctx._c20 = Work()
    rs = ctx.np_rng("corpus")
    items = []
    for i, desc in enumerate(corpus_descs()):
        d = materialize(desc, os.path.join(root(), "c%d" % i))
        items.append((desc, d))
    hs = run_hashseeds(hash_jobs(items), list(range(ctx.n(8, 24))))
    for j, (desc, d) in enumerate(items):
        discovery_case(ctx, ctx._c20, desc, d, rs, hash_obs=[(s, r[j]) for s, r in sorted(hs.items())], tag="corpus")
        S["corpus"] += 1
        for excl in desc.get("main_cases", []):
            main_record_fixed(ctx, ctx._c20, desc, d, True, excl, None, None)
            S["corpus"] += 1
        hjobs = [main_hash_job(desc, d, [], desc["auto"], excl, 0.8, True, seed=2020, steps=5, tag="c%d" % i)
                 for i, excl in enumerate(desc.get("hash_cases", []))]
        if hjobs:
            hres = run_main_hash([{k: v for k, v in jb.items() if not k.startswith("_")} for jb in hjobs], list(range(8)))
            for i, jb in enumerate(hjobs):
                main_hash_eval(ctx, ctx._c20, jb, [(s_, r[i]) for s_, r in sorted(hres.items())])
                S["corpus"] += 1
        for i, rc in enumerate(desc.get("real_cases", [])):
            main_real_case(ctx, ctx._c20, d, desc["ref"], [list(t) for t in rc["mol"]], rc["auto"], None, rc["out_mode"],
                           rc["scale"], ["abs", "rel"][i % 2], 20, 5, {"kind": "main_real", "desc": desc},
                           {n: tuple(t) for n, t in desc["triples"].items()})
            S["corpus"] += 1


def correspondence(ctx):
    W = getattr(ctx, "_c20", None) or Work()
    rs = ctx.np_rng("K")
    K, S = ctx.cov["K"], ctx.cov["S"]
    hist = {}
    # ---- classification on path strings
    ncl = ctx.n(120, 600)
    for k in range(ncl):
        files = gen_paths(rs, int(rs.randint(1, 9)))
        t, c = impl_classify(files)
        W.add("chk_classify %s %s %s" % (coq_strs(files), coq_strs(t), coq_strs(c)), {"kind": "classify", "files": files})
        ctx.count(("classify", tuple(files)), True)
        # S: a file is a topology/coordinate candidate iff the text after the last dot of its base name is registered
        for f in files:
            ext = os.path.basename(f).split(".")[-1]
            if (f in t) != (ext in ("itp", "ITP")) or (f in c) != (ext in ("gro", "GRO")):
                ctx.violation("classify_files: %r classified top=%s coord=%s" % (f, f in t, f in c),
                              {"kind": "classify", "files": files}, key="classify")
    hist["classify"] = ncl
    # ---- generated directories: discovery under permutations and hash seeds
    profiles = ["small"] * ctx.n(20, 80) + ["samesig"] * ctx.n(12, 50) + ["full"] * ctx.n(28, 130) + \
               ["ambig"] * ctx.n(40, 200)
    items = []
    for i, prof in enumerate(profiles):
        desc = make_descriptor(rs, prof)
        d = materialize(desc, os.path.join(root(), "d%d" % i))
        items.append((desc, d))
        hist[prof] = hist.get(prof, 0) + 1
    seeds = list(range(ctx.n(8, 32)))
    hs = run_hashseeds(hash_jobs(items), seeds)
    K["hash_seeds"] = len(seeds)
    for j, (desc, d) in enumerate(items):
        discovery_case(ctx, W, desc, d, rs, hash_obs=[(s, r[j]) for s, r in sorted(hs.items())])
        if j < 3:
            ctx.sample({"kind": "discovery", "profile": desc["profile"], "auto": desc["auto"], "known": desc["known"],
                        "blocks": desc["blocks"]})
    for desc, _ in items:
        for sp in desc["species"]:
            if sp["same_sig"] and sp["name"] in desc["in_system"]:
                hist["dirs_with_same_signature_species"] = hist.get("dirs_with_same_signature_species", 0) + 1
                break
    # ---- main(): argument handling (auto_map recorded)
    nmain = ctx.n(160, 800)
    main_pool = [it for it in items if it[0]["profile"] != "ambig"]
    for k in range(nmain):
        desc, d = main_pool[int(rs.randint(0, len(main_pool)))]
        main_record_case(ctx, W, desc, d, rs)
    hist["main_record"] = nmain
    # ---- real runs: command line vs library workflow
    nreal = ctx.n(15, 60)
    forms = ["abs", "dslash", "rel", "dotrel", "subrel"]
    outs = ["default", "abs", "rel"]
    combos = [(f, o) for o in outs for f in forms]
    combos = combos[0::2] + combos[1::2]          # interleave so that any prefix mixes the modes
    for k in range(nreal):
        desc = make_descriptor(rs, "full" if k % 3 else "samesig", for_mapping=True, nsp=3 if k % 3 == 1 else None)
        triples = {}
        for sp in desc["species"]:
            if sp["name"] in desc["in_system"]:
                fs = {("cg" if f["res"] == "cg" else "aa_top"): f["name"] for f in desc["files"]
                      if f["kind"] == "top" and f["mol"] == sp["name"]}
                co = [f["name"] for f in desc["files"] if f["kind"] == "coor" and f["mols"] == [[sp["name"], "aa"]]]
                if len(fs) == 2 and co:
                    triples[sp["name"]] = (fs["cg"], co[0], fs["aa_top"])
        names = sorted(triples)
        mode = k % 3
        if mode == 0 or not names:          # explicit triples only
            mol = [list(triples[n]) for n in names[:int(rs.randint(1, len(names) + 1))]] if names else []
            auto, excl = None, None
        elif mode == 1:                     # --auto with --exclude
            mol = []
            auto = list(desc["auto"])
            excl = [names[int(rs.randint(0, len(names)))]] if len(names) > 1 else ["SOL"]
            # two species that are consecutive in discovery order (sorted start topology), leaving one to map
            disc_order = sorted((n for n in names if not species_of(desc, n)["same_sig"]), key=lambda n: triples[n][0])
            rest = [n for n in names if species_of(desc, n)["same_sig"]]
            if len(disc_order) >= 2 and (len(disc_order) >= 3 or rest):
                i = int(rs.randint(0, len(disc_order) - 1))
                excl = disc_order[i:i + 2] if k % 2 else disc_order[i:i + 2][::-1]
        else:                               # mixed
            mol = [list(triples[names[0]])]
            auto = list(desc["auto"])
            excl = None
            disc_order = sorted((n for n in names[1:] if not species_of(desc, n)["same_sig"]), key=lambda n: triples[n][0])
            if len(disc_order) >= 2:
                excl = [names[0]] + disc_order[:2]        # an explicit species among the excluded names stays mapped
        if not mol and auto is None:
            continue
        # same-signature species discovered automatically may be oriented either way: give them explicitly instead
        for sp in desc["species"]:
            if sp["same_sig"] and sp["name"] in triples and auto is not None and list(triples[sp["name"]]) not in mol:
                mol.append(list(triples[sp["name"]]))
        # an explicit triple whose end topology declares ANOTHER molecule name than its start topology
        if mol and k % 3 != 1 and not species_of(desc, [n for n in names if triples[n][0] == mol[0][0]][0])["same_sig"]:
            sp0 = species_of(desc, [n for n in names if triples[n][0] == mol[0][0]][0])
            desc["species"].append(renamed_end(sp0))
            desc["files"].append({"name": "renamed_" + mol[0][2], "kind": "top", "mol": "REN" + sp0["name"], "res": "aa"})
            mol[0][2] = "renamed_" + mol[0][2]
        # the explicit species' files are listed again under another spelling, and its start topology as a copy: the
        # species must not be discovered a second time (only the pre-loaded start system prevents it)
        if auto is not None and mol:
            for t in mol:
                auto += ["DOT:" + x for x in t]
            if k % 2 == 0:
                desc["files"].append({"name": "copy_of_" + mol[0][0], "kind": "top",
                                      "mol": [n for n in names if triples[n][0] == mol[0][0]][0], "res": "cg"})
                auto.append("copy_of_" + mol[0][0])
        # a near-miss distractor that sorts before the genuine start topology of a species that must be discovered
        if auto is not None:
            given = {t[0] for t in mol}
            cand = [n for n in names if triples[n][0] not in given and not (excl and n in excl)]
            if cand:
                ps = near_miss(rs, species_of(desc, cand[0]), "r")
                desc["species"].append(ps)
                desc["files"].append({"name": "0_" + triples[cand[0]][0], "kind": "top", "mol": ps["name"], "res": "cg"})
                auto.append("0_" + triples[cand[0]][0])
        d = materialize(desc, os.path.join(root(), "m%d" % k))
        scale = [None, 0.5, 0.8, 1.0, 1.6, 2.0][int(rs.randint(0, 6))]     # (0, 2]: also beyond 1 (seed C20-11)
        form, out_mode = combos[k % len(combos)]      # every (input path form, output mode) pair at least once
        main_real_case(ctx, W, d, desc["ref"], mol, auto, excl, out_mode, scale,
                       form, int(rs.randint(0, 10 ** 6)), 5,
                       {"kind": "main_real", "desc": desc}, triples)
    hist["main_real"] = nreal
    # ---- main() under hash seeds: order of the molecule list (recorded) and bytes of the output (real)
    hjobs = []
    pool = [it for it in main_pool if len(exclusion_patterns(it[0], it[1], [[os.path.join(it[1], x) for x in k_]
                                                                           for k_ in it[0]["known"]])) > 2]
    for k in range(ctx.n(24, 120)):
        if not pool:
            break
        desc, d = pool[int(rs.randint(0, len(pool)))]
        pats = exclusion_patterns(desc, d, [[os.path.join(d, x) for x in k_] for k_ in desc["known"]])
        excl = [["NOPE"], ["SOL", "NOPE"], pats[int(rs.randint(0, len(pats)))], None][int(rs.randint(0, 4))]
        hjobs.append(main_hash_job(desc, d, desc["known"], desc["auto"], excl, None, False, tag="r%d" % k))
    for k in range(ctx.n(5, 20)):
        desc = make_descriptor(rs, "full", for_mapping=True, nsp=3)
        d = materialize(desc, os.path.join(root(), "h%d" % k))
        tr = {}
        for sp in desc["species"]:
            if sp["name"] in desc["in_system"]:
                fs = {("cg" if f["res"] == "cg" else "aa_top"): f["name"] for f in desc["files"]
                      if f["kind"] == "top" and f["mol"] == sp["name"]}
                co = [f["name"] for f in desc["files"] if f["kind"] == "coor" and f["mols"] == [[sp["name"], "aa"]]]
                tr[sp["name"]] = [fs["cg"], co[0], fs["aa_top"]]
        # same-signature species explicitly (either orientation would be acceptable otherwise); --exclude with any name
        mol_names = [tr[n] for n in sorted(tr) if species_of(desc, n)["same_sig"]]
        left = [n for n in sorted(tr) if not species_of(desc, n)["same_sig"]]
        excl = [["NOPE"], [left[0]] if len(left) >= 3 else ["SOL"], ["SOL", "NOPE"]][k % 3]
        hjobs.append(main_hash_job(desc, d, mol_names, desc["auto"], excl, [None, 0.8][k % 2], True,
                                   seed=int(rs.randint(0, 10 ** 6)), steps=5, triples=tr, tag="h%d" % k))
    if hjobs:
        hseeds = list(range(ctx.n(8, 16)))
        hres = run_main_hash([{k_: v for k_, v in jb.items() if not k_.startswith("_")} for jb in hjobs], hseeds)
        for i, jb in enumerate(hjobs):
            main_hash_eval(ctx, W, jb, [(s_, r[i]) for s_, r in sorted(hres.items())])
    hist["main_hash"] = len(hjobs)
    shipped_discovery(ctx)
    shipped_mapping(ctx, W)
    hist["shipped"] = 1
    # ---- evaluate the model on everything
    codes, log = lib.run_coq_cases(ctx.cid, "K", HEADER, W.cases, shard=12)
    K["cases"] = len(W.cases)
    K["input_distribution"] = hist
    K["log"] = log
    if codes is None:
        K["error"] = log
        return [{"error": "coqc failed on the correspondence cases", "log": log[-1500:]}]
    K["disagree"] = sum(1 for c in codes.values() if c in (1, 3))
    K["agree"] = len(W.cases) - len(codes)
    dis = [dict(W.meta[i], code=c) for i, c in sorted(codes.items()) if c != 0]
    # 4.5: the oracle already ran on every case above (violations recorded there); nothing more to decide here
    return dis


def oracle(ctx, scale):
    """enlarged search: more generated directories, oracle only"""
    S = ctx.cov["S"]
    if scale == 1:
        S["note"] = "the oracle ran on every correspondence case (see K counts); scale 1 adds nothing"
        S["failures"] = len(ctx.violations)
        return
    rs = ctx.np_rng("S%d" % scale)
    W = Work()
    n = ctx.n(15, 60) * scale
    fails = 0
    for i in range(n):
        desc = make_descriptor(rs, ["small", "samesig", "full", "ambig"][i % 4])
        d = materialize(desc, os.path.join(root(), "s%d_%d" % (scale, i)))
        if discovery_case(ctx, W, desc, d, rs):
            fails += 1
        if desc["profile"] != "ambig" and main_record_case(ctx, W, desc, d, rs):
            fails += 1
        shutil.rmtree(d, ignore_errors=True)
    S["enlarged_dirs_x%d" % scale] = n
    S["failures"] = S.get("failures", 0) + fails


def replay(ctx, obj):
    r = obj["replay"]
    kind = r.get("kind")
    ctx.violation = lambda *a, **k: None        # a replay reports on stdout, it does not write new replay files
    W = Work()
    rs = ctx.np_rng("replay")
    if kind == "classify":
        t, c = impl_classify(r["files"])
        bad = [f for f in r["files"] if (f in t) != (os.path.basename(f).split(".")[-1] in ("itp", "ITP")) or
               (f in c) != (os.path.basename(f).split(".")[-1] in ("gro", "GRO"))]
    elif kind == "discovery":
        d = materialize(r["desc"], os.path.join(root(), "replay"))
        hs = run_hashseeds(hash_jobs([(r["desc"], d)]), list(range(8)))
        bad = discovery_case(ctx, W, r["desc"], d, rs, hash_obs=[(s, x[0]) for s, x in sorted(hs.items())])
    elif kind == "main_record":
        d = materialize(r["desc"], os.path.join(root(), "replay"))
        desc = r["desc"]
        mol = [[os.path.join(d, x) for x in k] for k in desc["known"]]
        files = [spell(d, e) for e in desc["auto"]]
        argv = build_argv(os.path.join(d, desc["ref"]), mol, files if r["use_auto"] else None, r["exclude"],
                          r["outfile"], r["scale"])
        bad = oracle_main_record(desc, d, mol, r["use_auto"], r["exclude"], r["outfile"], r["scale"],
                                 impl_main_record(argv, cwd=d if needs_cwd(desc) else None))
    elif kind == "main_hash":
        d = materialize(r["desc"], os.path.join(root(), "replay"))
        jb = main_hash_job(r["desc"], d, r["mol_names"], r["auto"], r["exclude"], r["scale"], r["real"], seed=r["seed"],
                           steps=r["steps"], triples=r.get("triples"), tag="replay")
        hres = run_main_hash([{k: v for k, v in jb.items() if not k.startswith("_")}], list(range(8)))
        bad = main_hash_eval(ctx, W, jb, [(s_, x[0]) for s_, x in sorted(hres.items())])
    elif kind == "shipped_discovery":
        bad = shipped_discovery(ctx)
    elif kind == "shipped_mapping":
        bad = shipped_mapping(ctx, W)
    elif kind == "main_real":
        d = materialize(r["desc"], os.path.join(root(), "replay"))
        p = r["params"]
        bad = main_real_case(ctx, W, d, p["ref_name"], p["mol_names"], p["auto_names"], p["exclude"], p["out_mode"],
                             p["scale"], p["init_form"], p["seed"], p["steps"], {"kind": "main_real", "desc": r["desc"]},
                             {k: tuple(v) for k, v in p["all_species_triples"].items()})
    else:
        print("replay names a proof/correspondence, not an input:", str(r)[:300])
        return False
    print(bad)
    return not bad


def finish(ctx):
    ctx.assumptions = [
        "the clause 'command-line output = library workflow output for the same seed' is decided by testing only (K/S, "
        "byte comparison of the written files); in the model the command line IS the composition of the library calls",
        "System.add_molecule_top / MoleculeTop / Molecule.from_files are oracles of the model (their behaviour is C11/C15); "
        "C20_discovery_exact assumes that during the sorted scan exactly the species' start topologies are accepted",
        "for a species with the same residue signature and atom names at both resolutions both topologies load into the "
        "start system; the choice is deterministic (file-name order) and either orientation is accepted by the oracle",
        "Python's sorted() on str = code-point order = String_as_OT.compare on ASCII names (checked by chk_classify)",
    ]
    return ctx.finish(level="proof", rule=RULE,
                      trusted=["argparse, os.path.split/join (posix) written out by hand in coq/Model/Cli.v",
                               "wrapping of _cli.classify_files / _cli.auto_map / Manager.extrapolate_system by the harness"])
