#!/bin/bash
# Builds the whole Coq development from the files on disk (offline). Full .vo build.
cd "$(dirname "$0")"
export PYTHONPATH=/repo PYTHONHASHSEED=0 PYTHONWARNINGS=ignore
exec /venv/bin/python - <<'PY'
import sys
sys.path.insert(0, "harness")
import lib
rc, out = lib.coq_build_all()
print(out[-3000:])
bad = lib.forbidden_scan()
if bad:
    print("FORBIDDEN tokens:", bad); sys.exit(1)
if rc != 0:
    # a file that does not build only breaks the checks whose cone contains it (each check re-runs make
    # for its own Props/Cxx.vo and reports the broken obligation itself); setup still succeeds
    print("setup: make -k returned %d (see above); per-property checks will report what is broken" % rc)
sys.exit(0)
PY
