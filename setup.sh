#!/bin/bash
# Builds the whole Coq development from the files on disk (offline). Full .vo build.
cd "$(dirname "$0")"
export PYTHONPATH=/repo PYTHONHASHSEED=0 PYTHONWARNINGS=ignore
exec /venv/bin/python - <<'PY'
import sys
sys.path.insert(0, "harness")
import lib
rc, out = lib.coq_build_all()
print(out[-3000:])
bad = lib.forbidden_scan()
if bad:
    print("FORBIDDEN tokens:", bad); sys.exit(1)
sys.exit(rc)
PY
